// C31  Series expansion coefficients equal Taylor coefficients -- E1 recipes + Cauchy/DFT oracle (DESIGN 5 C31)
//
// States: expressions whose shortest recipe from the inner-series alphabet G uses <= n operations out of
//   F(.)        one of the functions / powers the series module implements,
//   a * h, a + h   with h in G     (the "f(g(x)) * h(x)" recipes),
// de-duplicated by the structural key.  For every state and every order 1..8 the library's
// series(f, x, order) is compared coefficient by coefficient with the Taylor coefficients obtained
// *numerically* from the reference evaluator: a_k = (1/N) sum_j f(r w^j) w^{-jk} / r^k  (N = 64, 113-bit
// arithmetic).  An expression that is not analytic in |z| <= r (negative-frequency part of the DFT not
// ~0) or that RefEval cannot evaluate on the circle is outside the property: skipped and counted.
#include "common.h"
#include "explore.h"
#include "refeval.h"
using namespace verif;

static RCP<const Symbol> X;
static const int MAXORD = 8, NPT = 64;

struct Fn {
    std::string name;
    std::function<RCP<const Basic>(const RCP<const Basic> &)> mk;
};
struct Inner {
    std::string name, cls;
    RCP<const Basic> e;
};
static std::vector<Fn> FS;
static std::vector<Inner> GS;

struct St {
    RCP<const Basic> e;
    std::string recipe, sigclass;
    int depth;
    int maxord = 8; // compositions over inner series with a symbolic constant term are expanded to order 4 only (cost)
};
static std::vector<St> S;
static std::unordered_map<std::string, int> seen;

static int add_state(const RCP<const Basic> &e, const std::string &recipe, const std::string &sigclass, int depth)
{
    std::string k = key(*e);
    auto it = seen.find(k);
    if (it != seen.end())
        return it->second;
    seen[k] = S.size();
    S.push_back({e, recipe, sigclass, depth, 8});
    return S.size() - 1;
}

// RefEval evaluates lambertw only on the real axis.  For the circle every LambertW node is replaced (structurally) by a
// fresh symbol _Wk whose value is computed here: principal branch by Halley iteration from the series / log(1+z) start.
static bool lambertw0(cq z, cq &w)
{
    rq az = absq(z);
    if (az < 0.3Q)
        w = z - z * z + mkc(1.5Q, 0) * z * z * z;
    else if (re(z) > -0.2Q)
        w = clogq(mkc(1, 0) + z);
    else
        return false; // towards the branch point -1/e: not needed for the enumerated recipes
    for (int i = 0; i < 100; i++) {
        cq ew = cexpq(w), f = w * ew - z;
        cq d = ew * (w + mkc(1, 0)) - (w + mkc(2, 0)) * f / (mkc(2, 0) * w + mkc(2, 0));
        if (d == 0)
            return false;
        cq nw = w - f / d;
        bool done = absq(nw - w) <= 1e-33Q * (absq(nw) + 1e-40Q);
        w = nw;
        if (done)
            break;
    }
    return absq(w * cexpq(w) - z) <= 1e-30Q * (az + 1e-40Q) + 1e-40Q && fabsq(im(w)) < M_PIq;
}
struct Prepared {
    RCP<const Basic> e;                                          // LambertW nodes replaced by symbols
    std::vector<std::pair<std::string, RCP<const Basic>>> defs; // _Wk := lambertw(arg_k) (arg_k already substituted), inner first
};
static void collect_w(const RCP<const Basic> &e, map_basic_basic &m, Prepared &P)
{
    for (auto &a : e->get_args())
        collect_w(a, m, P);
    if (is_a<LambertW>(*e) && m.find(e) == m.end()) {
        std::string n = "_W" + std::to_string(P.defs.size());
        P.defs.push_back({n, e->get_args()[0]->xreplace(m)});
        m[e] = symbol(n);
    }
}
static Prepared prepare(const RCP<const Basic> &e)
{
    Prepared P;
    map_basic_basic m;
    collect_w(e, m, P);
    P.e = P.defs.empty() ? e : e->xreplace(m);
    return P;
}
static Value eval_prepared(const Prepared &P, Env &env)
{
    for (auto &d : P.defs) {
        Value a = refeval(*d.second, env);
        if (!a.ok)
            return a;
        cq w;
        if (!lambertw0(a.v, w)) {
            Value f;
            f.why = "lambertw-argument-outside-reference-range";
            return f;
        }
        env.sym[d.first] = w;
    }
    return refeval(*P.e, env);
}

// DFT Taylor coefficients of e on |z| = r.  Returns false (with reason) when not evaluable / not analytic.
static bool taylor(const Prepared &e, rq r, std::vector<cq> &a, rq &maxf, std::string &why)
{
    std::vector<cq> f(NPT);
    maxf = 0;
    for (int j = 0; j < NPT; j++) {
        rq th = 2 * M_PIq * j / NPT;
        Env env;
        env.sym["x"] = mkc(r * cosq(th), r * sinq(th));
        Value v = eval_prepared(e, env);
        if (!v.ok) {
            why = "refeval:" + v.why;
            return false;
        }
        if (v.on_cut) {
            why = "on-branch-cut-on-the-circle";
            return false;
        }
        f[j] = v.v;
        maxf = fmaxq(maxf, absq(v.v));
    }
    static std::vector<cq> tw;
    if (tw.empty())
        for (int m = 0; m < NPT; m++)
            tw.push_back(mkc(cosq(-2 * M_PIq * m / NPT), sinq(-2 * M_PIq * m / NPT)));
    std::vector<cq> c(NPT);
    rq cmax = 0;
    for (int k = 0; k < NPT; k++) {
        cq s = 0;
        for (int j = 0; j < NPT; j++)
            s += f[j] * tw[(long)j * k % NPT];
        c[k] = s / mkc(NPT, 0);
        cmax = fmaxq(cmax, absq(c[k]));
    }
    // negative frequencies (indices N-16..N-1) must vanish for a function analytic in the closed disk
    rq neg = 0;
    for (int k = NPT - 16; k < NPT; k++)
        neg = fmaxq(neg, absq(c[k]));
    // bins N-16.. alias a_{48..63} r^k ~ (r/R)^48 =: nu; the aliasing error of a_k is ~ (r/R)^64 = nu^(4/3): nu < 1e-20
    // bounds it by 2e-27 (relative), well below the comparison tolerance
    if (neg > 1e-20Q * fmaxq(cmax, 1e-300Q)) {
        why = "not-analytic-or-singularity-too-close";
        return false;
    }
    a.assign(MAXORD + 1, 0);
    rq rp = 1;
    for (int k = 0; k <= MAXORD; k++) {
        a[k] = c[k] / mkc(rp, 0);
        rp *= r;
    }
    return true;
}

// Input-side feature tags used as signature classes (argument kinds, not implementation paths):
//  acos(nonzero-constant-term)  an acos node whose argument does not vanish at x = 0
//  removable-pole               a reciprocal (negative power, cot, csc) of something that vanishes at x = 0
static void feature_tags(const Basic &e, std::set<std::string> &tags)
{
    Env at0;
    at0.sym["x"] = mkc(0, 0);
    auto vanishes = [&](const Basic &a, bool &known) {
        Value v = refeval(a, at0);
        known = v.ok;
        return v.ok && absq(v.v) < 1e-30Q;
    };
    bool known;
    if (is_a<ACos>(e)) {
        if (!vanishes(*e.get_args()[0], known) && known)
            tags.insert("acos(nonzero-constant-term)");
    } else if (is_a<Cot>(e) || is_a<Csc>(e)) {
        if (vanishes(*e.get_args()[0], known))
            tags.insert("removable-pole");
        else if (is_a<Cot>(e) && known) {
            // constant term c of the argument with cos(c) = 0: cot is finite there but tan(c) is not
            Value v = refeval(*cos(e.get_args()[0]), at0);
            if (v.ok && absq(v.v) < 1e-30Q)
                tags.insert("cot(constant-term-at-pole-of-tan)");
        }
    } else if (is_a<Pow>(e)) {
        const Pow &p = down_cast<const Pow &>(e);
        if (is_a_Number(*p.get_exp()) && down_cast<const Number &>(*p.get_exp()).is_negative() && vanishes(*p.get_base(), known))
            tags.insert("removable-pole");
    }
    for (auto &a : e.get_args())
        feature_tags(*a, tags);
}
static std::string sig_of(const St &st)
{
    std::set<std::string> tags;
    feature_tags(*st.e, tags);
    if (tags.empty())
        return st.sigclass;
    std::string o;
    for (auto &t : tags)
        o += (o.empty() ? "" : "+") + t;
    return o;
}

enum { K_STATES_JUDGED, K_SKIP_NOT_ANALYTIC, K_SKIP_REFEVAL, K_SERIES_CALLS, K_SERIES_REFUSED, K_COEFFS_COMPARED, K_COEFF_UNDECIDED,
       K_SECOND_RADIUS, K_NONZERO_COEFFS, K_EXTRA_TERMS_BEYOND_ORDER, K_SKIP_POLE_ON_CIRCLE, K_SKIP_ON_CUT, K_SKIP_NEARCUT };

static void check_state(const St &st, Ctx &c, int ord_lo, int ord_hi, int ord_step)
{
    std::vector<cq> a;
    rq maxf, r = 0.125Q;
    std::string why;
    Prepared pe = prepare(st.e);
    bool ok = taylor(pe, r, a, maxf, why);
    if (!ok && why == "not-analytic-or-singularity-too-close") {
        r = 1.0Q / 32;
        c.count(K_SECOND_RADIUS);
        ok = taylor(pe, r, a, maxf, why);
    }
    if (!ok) {
        c.count(why == "refeval:pole" || why == "refeval:nonfinite" ? K_SKIP_POLE_ON_CIRCLE
                : why == "on-branch-cut-on-the-circle"               ? K_SKIP_ON_CUT
                : why == "refeval:near-cut"                          ? K_SKIP_NEARCUT
                : why.rfind("refeval:", 0) == 0                      ? K_SKIP_REFEVAL
                                                                     : K_SKIP_NOT_ANALYTIC);
        if (getenv("VERIF_C31_DEBUG"))
            fprintf(stderr, "DBG skip %s: %s\n", why.c_str(), sstr(st.e).c_str());
        c.outcome("skip " + why.substr(0, 40));
        return;
    }
    c.count(K_STATES_JUDGED);
    static const Env empty;
    bool anynz = false;
    for (int ord = ord_lo; ord <= ord_hi && ord <= st.maxord; ord += ord_step) {
        c.eval();
        c.count(K_SERIES_CALLS);
        RCP<const SeriesCoeffInterface> s;
        try {
            s = series(st.e, X, ord);
        } catch (SymEngineException &x) {
            c.count(K_SERIES_REFUSED);
            c.outcome(std::string("throw:") + std::string(x.what()).substr(0, 50));
            continue;
        }
        umap_int_basic d = s->as_dict();
        for (auto &kv : d)
            if (kv.first >= ord)
                c.count(K_EXTRA_TERMS_BEYOND_ORDER);
            else if (kv.first < 0) {
                c.violation("series:" + sig_of(st) + ":negative-power-for-analytic-function",
                            "series(" + sstr(st.e) + ", x, " + std::to_string(ord) + ") has a term x**" + std::to_string(kv.first) + " = " + sstr(kv.second)
                                + " but the function is analytic at 0");
                return;
            }
        for (int k = 0; k < ord && k <= MAXORD; k++) {
            RCP<const Basic> ck = s->get_coeff(k);
            Value v = refeval(*ck, empty);
            if (!v.ok) {
                c.count(K_COEFF_UNDECIDED);
                continue;
            }
            c.count(K_COEFFS_COMPARED);
            rq rk = powq(r, k);
            // DFT error: rounding ~1e-32*maxf and aliasing < 2e-27*maxf, both divided by r^k
            rq tol = 1e-24Q * fmaxq(maxf, 1) / rk + 1e-25Q * absq(v.v);
            if (absq(v.v) > 1e-30Q)
                anynz = true;
            if (absq(v.v - a[k]) > tol) {
                c.violation("series:" + sig_of(st) + ":wrong-coefficient",
                            "series(" + sstr(st.e) + ", x, " + std::to_string(ord) + ") [" + st.recipe + "]: coefficient of x**" + std::to_string(k) + " is "
                                + sstr(ck) + " = " + cstr(v.v, 18) + " but the Taylor coefficient is " + cstr(a[k], 18));
                return;
            }
        }
    }
    if (anynz) {
        c.nontrivial();
        c.count(K_NONZERO_COEFFS);
    }
    c.outcome("ok depth" + std::to_string(st.depth) + " " + type_code_name(st.e->get_type_code()));
    if (c.index % 97 == 0) {
        std::string o;
        try {
            o = sstr(series(st.e, X, 5)->as_basic());
        } catch (std::exception &) {
        }
        c.sample("{\"expr\":" + jstr(sstr(st.e)) + ",\"series5\":" + jstr(o) + ",\"taylor_a3\":" + jstr(cstr(a[3], 15)) + "}");
    }
}

int main(int argc, char **argv)
{
    init(argc, argv, "C31");
    bool thorough = opts().thorough();
    X = symbol("x");
    RCP<const Basic> x = X;
    auto I_ = [](long k) { return (RCP<const Basic>)integer(k); };
    auto Q = [](long a, long b) { return (RCP<const Basic>)Rational::from_two_ints(a, b); };
    GS = {{"x", "x", x},
          {"2*x", "c*x", mul(I_(2), x)},
          {"-x/2", "c*x", mul(Q(-1, 2), x)},
          {"x**2", "x^2", pow(x, I_(2))},
          {"x+x**2", "x+x^2", add(x, pow(x, I_(2)))},
          {"sin(x)", "sin", sin(x)},
          {"exp(x)-1", "exp-1", sub(exp(x), one)},
          {"1/2+x", "c+x", add(Q(1, 2), x)},
          {"cos(x)", "cos", cos(x)},
          {"1+x", "1+x", add(one, x)}};
    auto F1 = [&](const char *n, RCP<const Basic> (*f)(const RCP<const Basic> &)) { FS.push_back({n, [f](const RCP<const Basic> &a) { return f(a); }}); };
    F1("sin", sin);
    F1("cos", cos);
    F1("tan", tan);
    F1("exp", exp);
    F1("log", log);
    F1("atan", atan);
    F1("asin", asin);
    F1("acos", acos);
    F1("sinh", sinh);
    F1("cosh", cosh);
    F1("tanh", tanh);
    F1("asinh", asinh);
    F1("atanh", atanh);
    F1("lambertw", lambertw);
    F1("sec", sec);
    F1("csc", csc);
    F1("cot", cot);
    FS.push_back({"log1p", [&](const RCP<const Basic> &a) { return log(add(one, a)); }});
    FS.push_back({"sqr", [&](const RCP<const Basic> &a) { return pow(a, I_(2)); }});
    FS.push_back({"cube", [&](const RCP<const Basic> &a) { return pow(a, I_(3)); }});
    FS.push_back({"inv1p", [&](const RCP<const Basic> &a) { return pow(add(one, a), I_(-1)); }});
    FS.push_back({"invsq1p", [&](const RCP<const Basic> &a) { return pow(add(one, a), I_(-2)); }});
    FS.push_back({"sqrt1p", [&](const RCP<const Basic> &a) { return pow(add(one, a), Q(1, 2)); }});
    FS.push_back({"rsqrt1p", [&](const RCP<const Basic> &a) { return pow(add(one, a), Q(-1, 2)); }});
    FS.push_back({"cbrt1p^2", [&](const RCP<const Basic> &a) { return pow(add(one, a), Q(2, 3)); }});
    FS.push_back({"pow(4+.,-3/2)", [&](const RCP<const Basic> &a) { return pow(add(I_(4), a), Q(-3, 2)); }});
    FS.push_back({"2**", [&](const RCP<const Basic> &a) { return pow(I_(2), a); }});
    // general power exp(x*log(1+g)): only over inner series without constant term (a symbolic log(3/2) in every coefficient makes
    // the un-simplified Expression coefficients swell to minutes per expansion -- a cost, not a wrong answer)
    FS.push_back({"(1+.)**x", [&](const RCP<const Basic> &a) -> RCP<const Basic> {
                      map_basic_basic m;
                      m[x] = zero;
                      if (!eq(*a->subs(m), *zero))
                          throw std::runtime_error("skip");
                      return pow(add(one, a), x);
                  }});
    FS.push_back({"inv", [&](const RCP<const Basic> &a) { return pow(a, I_(-1)); }});
    FS.push_back({"sqrt", [&](const RCP<const Basic> &a) { return pow(a, Q(1, 2)); }});

    // ---- E1 states
    for (auto &g : GS)
        add_state(g.e, g.name, "leaf(" + g.cls + ")", 0);
    size_t n0 = S.size();
    // depth 1: F(g)
    std::vector<int> d1;
    for (auto &f : FS)
        for (auto &g : GS) {
            RCP<const Basic> e;
            try {
                e = f.mk(g.e);
            } catch (std::exception &) {
                continue;
            }
            size_t before = S.size();
            int i = add_state(e, f.name + "(" + g.name + ")", f.name + "(" + g.cls + ")", 1);
            if (S.size() > before)
                d1.push_back(i);
        }
    size_t n1 = S.size();
    // depth 2: F2(F1(g)),  F(g)*h,  F(g)+h  (quick: reduced menus)
    std::vector<int> gsel;
    for (size_t i = 0; i < GS.size(); i++)
        if (thorough || GS[i].name == "x" || GS[i].name == "x+x**2" || GS[i].name == "1/2+x" || GS[i].name == "cos(x)")
            gsel.push_back(i);
    for (int i1 : d1) {
        St base = S[i1];
        for (size_t gi : gsel) {
            const Inner &h = GS[gi];
            add_state(mul(base.e, h.e), "(" + base.recipe + ")*(" + h.name + ")", base.sigclass + "*" + h.cls, 2);
            if (thorough)
                add_state(add(base.e, h.e), "(" + base.recipe + ")+(" + h.name + ")", base.sigclass + "+" + h.cls, 2);
        }
    }
    for (auto &f : FS)
        for (int i1 : d1) {
            St base = S[i1];
            if (!thorough) {
                // quick: compositions over the inner series x, x+x^2 and 1/2+x only
                bool keep = false;
                for (const char *g : {"(x)", "(x+x**2)", "(1/2+x)"})
                    if (base.recipe.size() > strlen(g) && base.recipe.compare(base.recipe.size() - strlen(g), strlen(g), g) == 0)
                        keep = true;
                if (!keep)
                    continue;
            }
            RCP<const Basic> e;
            try {
                e = f.mk(base.e);
            } catch (std::exception &) {
                continue;
            }
            size_t before = S.size();
            int idx = add_state(e, f.name + "(" + base.recipe + ")", f.name + "(" + base.sigclass + ")", 2);
            if (S.size() > before) {
                // symbolic constants in the inner series (sin(1/2), pi/2 of acos(x), log 2 of 2**g, ...) make the un-simplified
                // Expression coefficients of the outer expansion swell (minutes at order 8): such compositions go to order 4 only.
                // Rule: the inner state's value at 0 is not a rational with denominator <= 24, or the inner function is 2**(.)
                Env at0;
                at0.sym["x"] = mkc(0, 0);
                Value v = refeval(*base.e, at0);
                bool rational0 = false;
                if (v.ok && fabsq(im(v.v)) < 1e-30Q)
                    for (int q = 1; q <= 24 && !rational0; q++)
                        rational0 = fabsq(re(v.v) * q - roundq(re(v.v) * q)) < 1e-25Q;
                if (!rational0 || base.recipe.rfind("2**(", 0) == 0)
                    S[idx].maxord = 4;
            }
        }
    size_t n2 = S.size();
    printf("[C31] E1: %zu inner series, %zu functions; states: depth0 %zu, depth<=1 %zu, depth<=2 %zu\n", GS.size(), FS.size(), n0, n1, n2);

    std::vector<std::string> cn = {"states_judged(analytic,evaluable)", "states_skipped_not_analytic_at_0_or_singularity_within_~1/12",
                                   "states_skipped_refeval_failed_on_circle(other reasons)", "series_calls", "series_calls_refused(exception)",
                                   "coefficients_compared", "coefficients_undecided(refeval of coefficient failed)",
                                   "states_retried_on_radius_1/32", "states_with_nonzero_coefficients", "terms_beyond_requested_order(ignored)",
                                   "states_skipped_pole_or_overflow_on_the_circle", "states_skipped_branch_cut_crosses_the_circle",
                                   "states_skipped_near_cut_on_the_circle"};
    Run &R = run();
    CaseSet c1;
    c1.name = "depth<=1";
    c1.n = n1;
    c1.counter_names = cn;
    c1.hang_s = 40;
    c1.desc = [&](long long i) { return "series(" + sstr(S[i].e) + ", x, 1..8) [" + S[i].recipe + "]"; };
    c1.crash_sig = [&](long long i, const std::string &oc) { return "series:" + S[i].sigclass + ":" + (oc.rfind("crash", 0) == 0 ? "crash" : oc); };
    c1.body = [&](long long i, Ctx &c) { check_state(S[i], c, 1, MAXORD, 1); };
    run_cases(c1);
    std::string bound = "recipes of <= 1 operation (all F(g)), orders 1..8";
    if (!past_deadline()) {
        CaseSet c2;
        c2.name = "depth2";
        c2.n = n2 - n1;
        c2.counter_names = cn;
        c2.hang_s = 40;
        c2.desc = [&](long long i) { return "series(" + sstr(S[n1 + i].e) + ", x, ...) [" + S[n1 + i].recipe + "]"; };
        c2.crash_sig = [&](long long i, const std::string &oc) { return "series:" + S[n1 + i].sigclass + ":" + (oc.rfind("crash", 0) == 0 ? "crash" : oc); };
        // quick: orders {2,5,8}; thorough: all orders
        c2.body = [&](long long i, Ctx &c) {
            if (thorough)
                check_state(S[n1 + i], c, 1, MAXORD, 1);
            else
                check_state(S[n1 + i], c, 2, MAXORD, S[n1 + i].maxord < 8 ? 2 : 3);
        };
        run_cases(c2);
        bound = thorough ? "recipes of <= 2 operations: F(g), F2(F1(g)), F(g)*h, F(g)+h over 10 inner series and 30 functions/powers, orders 1..8 (1..4 for "
                           "compositions whose inner series has symbolic constants)"
                         : "recipes of <= 1 operation at orders 1..8; recipes of 2 operations F2(F1(g)) (g in {x, x+x^2, 1/2+x}) and F(g)*h (h in {x, x+x^2, "
                           "1/2+x, cos x}) at orders {2,5,8} ({2,4} when the inner series has symbolic constants)";
    }
    R.states = S.size();
    R.transitions = R.evaluations;
    R.bound_completed = bound;
    R.rule = "E1: states = distinct expressions (structural key) with a recipe of <= n operations over inner series {x, 2x, -x/2, x^2, x+x^2, sin x, "
             "exp(x)-1, 1/2+x, cos x, 1+x} and functions {sin,cos,tan,exp,log,atan,asin,acos,sinh,cosh,tanh,asinh,atanh,lambertw,sec,csc,cot,"
             "log(1+.),(.)^2,(.)^3,1/(1+.),(1+.)^-2,(1+.)^(1/2),(1+.)^(-1/2),(1+.)^(2/3),(4+.)^(-3/2),2^(.),(1+.)^x,1/(.),sqrt(.)}, products and sums "
             "with an inner series. Oracle: Taylor coefficients by 64-point DFT of RefEval(expr) on |z|=1/8 (fallback 1/32) in 113-bit arithmetic; "
             "expression accepted as analytic only if the 16 negative-frequency DFT bins are < 1e-20 of the largest bin (aliasing < 2e-27); each coefficient of "
             "series(f,x,n), n=1..8, evaluated by RefEval must agree within 1e-24*max|f|/r^k. distinct_nontrivial = judged states with a non-zero "
             "coefficient";
    R.assumptions = {"libquadmath elementary functions and the RefEval recursion", "a singularity closer than ~1/12 to the origin makes a state 'skipped'",
                     "coefficients are compared by value (symbolic constants such as sin(1/2) are evaluated numerically)"};
    return R.finish();
}
