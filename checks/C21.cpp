// C21  Univariate polynomial arithmetic is correct -- E5 finite tables vs schoolbook coefficient lists
// (DESIGN 5 C21).  UIntPoly / URatPoly / UExprPoly: all pairs x {add, sub, mul, divides}, unary
// {neg, pow, eval, coeff/degree/lc/size, diff, as_symbolic, from_basic, from_poly, from_vec, from_dict},
// expression alphabet x {from_basic (gen / auto gen / expand) -> as_symbolic == expand}.
#include "common.h"
#include "key.h"
#include "a2_polymodel.h"
using namespace verif;
using namespace a2;

enum {
    K_ADD, K_SUB, K_MUL, K_MUL_KRONECKER_RISKY, K_DIVIDES, K_DIV_TRUE, K_DIV_FALSE, K_DIV_ZERO_DIVISOR_NOT_JUDGED,
    K_DIV_HAZARD_QUARANTINED, K_NEG, K_POW, K_POW0, K_POW0_QUARANTINED, K_EVAL, K_COEFF, K_DEGREE, K_DIFF, K_ASSYM,
    K_FB_OK, K_FB_REFUSED_EXPECTED, K_FB_REFUSED_ALLOWED, K_FB_AUTOGEN_REFUSED, K_ROUNDTRIP_EQ_EXPAND, K_FROMPOLY, K_FROMVEC,
    K_FROMDICT, K_EXPR_UNSIMPL_ZERO, K_ZERO_DEGREE_CONVENTION, K_WALK_FAIL, K_GUARDED, K_GUARDED_BAD, K_ZERO_POLY_IN_SPECIAL,
    K_PROBE_POW0_BAD0, K_PROBE_POW0_BAD1, K_PROBE_POW0_BAD2, K_PROBE_DIV_BAD0, K_PROBE_DIV_BAD1, K_PROBE_DIV_BAD2,
    K_NCOUNTERS
};
static const std::vector<std::string> CN
    = {"add_checked", "sub_checked", "mul_checked", "mul_with_kronecker_slot_overflow_operands", "divides_checked", "divides_true",
       "divides_false", "divides_zero_divisor_not_judged", "divides_hazard_class_quarantined_after_probe_hang", "neg_checked",
       "pow_checked", "pow0_checked", "pow0_quarantined_after_probe_hang", "eval_checked", "coeff_queries_checked",
       "degree_size_lc_checked", "diff_checked", "as_symbolic_checked", "from_basic_ok", "from_basic_refused_as_expected",
       "from_basic_refused_allowed_not_judged", "from_basic_autogen_refused_not_judged", "roundtrip_eq_expand_checked",
       "from_poly_checked", "from_vec_checked", "from_dict_checked", "expr_coefficient_mathematically_zero_not_simplified",
       "zero_poly_degree_convention_not_judged", "walker_could_not_model_skipped", "guarded_ops", "guarded_ops_crash_or_hang",
       "zero_poly_unary_ops_done_in_special", "probe_pow0_hang_or_crash_UIntPoly", "probe_pow0_hang_or_crash_URatPoly",
       "probe_pow0_hang_or_crash_UExprPoly", "probe_divides_hang_or_crash_UIntPoly", "probe_divides_hang_or_crash_URatPoly",
       "probe_divides_hang_or_crash_UExprPoly"};

static RCP<const Symbol> X, Y, A;
static RCP<const Basic> XB;

template <class T>
struct Tr;
template <>
struct Tr<UIntPoly> {
    typedef mpz_class K;
    typedef integer_class Cf;
    typedef unsigned Key;
    static const int id = 0;
    static const char *name()
    {
        return "UIntPoly";
    }
    static bool model(const Cf &c, K &o)
    {
        o = Z(c);
        return true;
    }
    static bool szero(const Cf &c)
    {
        return c == 0;
    }
    static bool same_coef(const Cf &c, const K &k)
    {
        return Z(c) == k;
    }
    static const unsigned maxpow = 4;
};
template <>
struct Tr<URatPoly> {
    typedef mpq_class K;
    typedef rational_class Cf;
    typedef unsigned Key;
    static const int id = 1;
    static const char *name()
    {
        return "URatPoly";
    }
    static bool model(const Cf &c, K &o)
    {
        o = Q(c);
        return true;
    }
    static bool szero(const Cf &c)
    {
        return c == 0;
    }
    static bool same_coef(const Cf &c, const K &k)
    {
        return Q(c) == k;
    }
    static const unsigned maxpow = 4;
};
template <>
struct Tr<UExprPoly> {
    typedef PolyA K;
    typedef Expression Cf;
    typedef int Key;
    static const int id = 2;
    static const char *name()
    {
        return "UExprPoly";
    }
    static bool model(const Cf &c, K &o)
    {
        return walk_expr(*c.get_basic(), o);
    }
    static bool szero(const Cf &c)
    {
        return c == 0;
    }
    static bool same_coef(const Cf &c, const K &k)
    {
        K o;
        return walk_expr(*c.get_basic(), o) && !kzero(o) && o == k;
    }
    static const unsigned maxpow = 3;
};

template <class T>
struct Alpha {
    typedef typename Tr<T>::K K;
    typedef typename Tr<T>::Cf Cf;
    std::vector<std::pair<Cf, K>> coef, evalpt;
    std::vector<RCP<const T>> P;
    std::vector<UM<K>> M;
    std::vector<std::map<typename Tr<T>::Key, Cf>> D; // the dictionaries handed to from_dict
    void push(const std::vector<std::pair<unsigned, int>> &terms) // (exponent, coefficient index)
    {
        std::map<typename Tr<T>::Key, Cf> d;
        UM<K> m;
        for (auto &t : terms) {
            d[t.first] = coef[t.second].first;
            m.t[t.first] = coef[t.second].second;
        }
        D.push_back(d);
        M.push_back(m);
        auto dd = d;
        P.push_back(T::from_dict(XB, std::move(dd)));
    }
    // all polynomials with <= 2 terms over coefficient indices [0,n2) and 3-term ones over [0,n3), degree <= deg
    void build(unsigned deg, int n2, int n3)
    {
        push({});
        for (unsigned e = 0; e <= deg; e++)
            for (int a = 0; a < n2; a++)
                push({{e, a}});
        for (unsigned e = 0; e <= deg; e++)
            for (unsigned f = e + 1; f <= deg; f++)
                for (int a = 0; a < n2; a++)
                    for (int b = 0; b < n2; b++)
                        push({{e, a}, {f, b}});
        for (unsigned e = 0; e <= deg; e++)
            for (unsigned f = e + 1; f <= deg; f++)
                for (unsigned g = f + 1; g <= deg; g++)
                    for (int a = 0; a < n3; a++)
                        for (int b = 0; b < n3; b++)
                            for (int cc = 0; cc < n3; cc++)
                                push({{e, a}, {f, b}, {g, cc}});
    }
};
static Alpha<UIntPoly> AI;
static Alpha<URatPoly> AR;
static Alpha<UExprPoly> AE;
static bool pow0_bad[3] = {false, false, false}, divhaz_bad[3] = {false, false, false};

// ---------------------------------------------------------------- lib -> model
template <class T>
static bool to_model(const T &p, UM<typename Tr<T>::K> &out, Ctx &c, std::string &why)
{
    typedef typename Tr<T>::K K;
    out = UM<K>();
    for (auto &kv : p.get_poly().dict_) {
        if (Tr<T>::szero(kv.second)) {
            why = "zero coefficient stored at degree " + std::to_string(kv.first);
            return false;
        }
        K k;
        if (!Tr<T>::model(kv.second, k)) {
            why = "coefficient at degree " + std::to_string(kv.first) + " is not a polynomial in a";
            return false;
        }
        if (kv.first < 0) {
            why = "negative exponent " + std::to_string(kv.first);
            return false;
        }
        if (kzero(k)) {
            c.count(K_EXPR_UNSIMPL_ZERO);
            continue;
        }
        out.t[(unsigned)kv.first] = k;
    }
    return true;
}
template <class T>
static std::string sig(const char *op, const std::string &cls)
{
    return std::string(op) + ":" + Tr<T>::name() + ":" + cls;
}
// compare a library result with the model; report under op:T:cls
template <class T>
static bool check_poly(Ctx &c, const char *op, const std::string &cls, const RCP<const T> &r,
                       const UM<typename Tr<T>::K> &want, const std::string &what)
{
    UM<typename Tr<T>::K> got;
    std::string why;
    if (!to_model(*r, got, c, why)) {
        c.violation(sig<T>(op, "malformed-result"), what + " -> " + why + "; model " + want.str());
        return false;
    }
    if (!eq(*r->get_var(), *X)) {
        c.violation(sig<T>(op, "wrong-generator"), what + " -> result generator " + sstr(r->get_var()));
        return false;
    }
    if (!(got == want)) {
        c.violation(sig<T>(op, cls), what + " -> library " + got.str() + "; schoolbook model " + want.str());
        return false;
    }
    return true;
}
// allocation-light agreement test for the hot pair table; any disagreement goes to check_poly for the verdict
template <class T>
static bool fast_same(const T &r, const UM<typename Tr<T>::K> &want)
{
    const auto &d = r.get_poly().dict_;
    if (d.size() != want.t.size() || !eq(*r.get_var(), *X))
        return false;
    auto it = want.t.begin();
    for (auto &kv : d) {
        if (kv.first < 0 || (unsigned)kv.first != it->first || !Tr<T>::same_coef(kv.second, it->second))
            return false;
        ++it;
    }
    return true;
}
template <class T>
static std::string shape(const UM<typename Tr<T>::K> &m)
{
    return "deg" + std::to_string(m.degree()) + "t" + std::to_string(m.t.size());
}

// ---------------------------------------------------------------- Kronecker slot classification (signature only)
static unsigned bitlen(const mpz_class &v)
{
    return v == 0 ? 0 : (unsigned)mpz_sizeinbase(v.get_mpz_t(), 2);
}
static mpz_class maxabs(const UM<mpz_class> &a)
{
    mpz_class m = 0;
    for (auto &kv : a.t)
        if (abs(kv.second) > m)
            m = abs(kv.second);
    return m;
}
// true when some coefficient of a*b does not fit the signed slot of width N used by UIntDict::mul
static bool kron_risky(const UM<mpz_class> &a, const UM<mpz_class> &b, const UM<mpz_class> &p)
{
    if (a.zero() || b.zero())
        return false;
    unsigned n = std::min(a.degree() + 1, b.degree() + 1);
    unsigned N = bitlen(mpz_class(n)) + bitlen(maxabs(a)) + bitlen(maxabs(b));
    for (auto &kv : p.t)
        if (bitlen(kv.second) >= N) // |c| >= 2^(N-1)
            return true;
    return false;
}
static bool kron_risky(const UM<mpz_class> &a, const UM<mpz_class> &b)
{
    return kron_risky(a, b, umul(a, b));
}
static bool kron_risky_pow(const UM<mpz_class> &a, unsigned p) // follows square-and-multiply with exact operands
{
    if (p == 0)
        return false;
    UM<mpz_class> tmp = a, res = UM<mpz_class>::cst(1);
    bool risky = false;
    while (p != 1) {
        if (p % 2 == 1) {
            risky |= kron_risky(res, tmp);
            res = umul(res, tmp);
        }
        risky |= kron_risky(tmp, tmp);
        tmp = umul(tmp, tmp);
        p >>= 1;
    }
    risky |= kron_risky(res, tmp);
    return risky;
}
template <class K>
static bool risky_mul(const UM<K> &, const UM<K> &, const UM<K> &)
{
    return false;
}
template <>
bool risky_mul<mpz_class>(const UM<mpz_class> &a, const UM<mpz_class> &b, const UM<mpz_class> &p)
{
    return kron_risky(a, b, p);
}
template <class K>
static bool risky_pow(const UM<K> &, unsigned)
{
    return false;
}
template <>
bool risky_pow<mpz_class>(const UM<mpz_class> &a, unsigned p)
{
    return kron_risky_pow(a, p);
}

// ---------------------------------------------------------------- division model
static UM<mpq_class> toq(const UM<mpz_class> &a)
{
    UM<mpq_class> r;
    for (auto &kv : a.t)
        r.t[kv.first] = mpq_class(kv.second);
    return r;
}
static UM<mpq_class> toq(const UM<mpq_class> &a)
{
    return a;
}
static UM<mpq_class> toq(const UM<PolyA> &)
{
    return UM<mpq_class>();
}
static void qdivmod(const UM<mpq_class> &a, UM<mpq_class> b, UM<mpq_class> &q, UM<mpq_class> &r)
{
    q = UM<mpq_class>();
    while (!b.zero() && b.degree() >= a.degree()) {
        unsigned s = b.degree() - a.degree();
        mpq_class f = b.lc() / a.lc();
        q.addterm(s, f);
        for (auto &kv : a.t)
            b.addterm(kv.first + s, -(f * kv.second));
    }
    r = b;
}
// The class of inputs on which the probe cases hang: the loop `while (#terms(b) >= #terms(a))` of
// divides_upoly reaches a remainder of lower degree than a.  Used only to quarantine (skip + count) after
// the probe has demonstrated the hang; never to decide a verdict.
static bool div_hazard(const UM<mpq_class> &a, UM<mpq_class> b, bool integer)
{
    if (a.zero())
        return false;
    while (b.t.size() >= a.t.size()) {
        if (b.degree() < a.degree())
            return true;
        mpq_class f = b.lc() / a.lc();
        if (integer && f.get_den() != 1)
            return false;
        unsigned s = b.degree() - a.degree();
        for (auto &kv : a.t)
            b.addterm(kv.first + s, -(f * kv.second));
    }
    return false;
}
static bool all_integer(const UM<mpq_class> &q)
{
    for (auto &kv : q.t)
        if (kv.second.get_den() != 1)
            return false;
    return true;
}
static bool call_divides(const UIntPoly &a, const UIntPoly &b, RCP<const UIntPoly> &q)
{
    return divides_upoly(a, b, outArg(q));
}
static bool call_divides(const URatPoly &a, const URatPoly &b, RCP<const URatPoly> &q)
{
    return divides_upoly(a, b, outArg(q));
}
static bool call_divides(const UExprPoly &, const UExprPoly &, RCP<const UExprPoly> &)
{
    return false;
}
static UM<mpz_class> fromq(const UM<mpq_class> &q, mpz_class *)
{
    UM<mpz_class> r;
    for (auto &kv : q.t)
        r.t[kv.first] = kv.second.get_num();
    return r;
}
static UM<mpq_class> fromq(const UM<mpq_class> &q, mpq_class *)
{
    return q;
}
static UM<PolyA> fromq(const UM<mpq_class> &, PolyA *)
{
    return UM<PolyA>();
}

template <class T>
static void check_divides(Ctx &c, const T &a, const T &b, const UM<typename Tr<T>::K> &ma, const UM<typename Tr<T>::K> &mb)
{
    struct {
        const UM<typename Tr<T>::K> *a, *b;
        std::string operator+(const std::string &o) const
        {
            return "a = " + a->str() + ", b = " + b->str() + o;
        }
    } what{&ma, &mb};
    typedef typename Tr<T>::K K;
    const bool integer = Tr<T>::id == 0;
    UM<mpq_class> qa = toq(ma), qb = toq(mb);
    if (divhaz_bad[Tr<T>::id] && div_hazard(qa, qb, integer)) {
        c.count(K_DIV_HAZARD_QUARANTINED);
        return;
    }
    RCP<const T> out;
    bool got;
    try {
        got = call_divides(a, b, out);
    } catch (std::exception &e) {
        c.violation(sig<T>("divides_upoly", "throws"), "divides_upoly(" + (what + ") throws ") + e.what());
        return;
    }
    c.eval();
    c.count(K_DIVIDES);
    if (ma.zero()) {
        c.count(K_DIV_ZERO_DIVISOR_NOT_JUDGED); // 0 | b: quotient not unique / undefined; only "returns" is required
        c.outcome(std::string("divides:") + Tr<T>::name() + ":zero-divisor:" + (got ? "true" : "false"));
        return;
    }
    UM<mpq_class> q, r;
    qdivmod(qa, qb, q, r);
    bool want = r.zero() && (!integer || all_integer(q));
    c.count(want ? K_DIV_TRUE : K_DIV_FALSE);
    char ob[96];
    snprintf(ob, sizeof ob, "divides:%s:%c%c:deg%dt%zu:deg%dt%zu", Tr<T>::name(), got ? 'T' : 'F', want ? 'T' : 'F', ma.degree(), ma.t.size(), mb.degree(), mb.t.size());
    c.outcome(ob);
    if (got && !want)
        c.violation(sig<T>("divides_upoly", "true-but-not-divisible"),
                    "divides_upoly(a, b) = true for " + (what + " but a does not divide b (remainder ") + r.str() + ", quotient " + q.str() + ")");
    else if (!got && want)
        c.violation(sig<T>("divides_upoly", "false-but-divisible"),
                    "divides_upoly(a, b) = false for " + (what + " but b = a * (") + q.str() + ") exactly");
    else if (got && want) {
        if (out.is_null())
            c.violation(sig<T>("divides_upoly", "no-quotient"), "divides_upoly(" + (what + ") = true but no quotient was stored"));
        else
            check_poly<T>(c, "divides_upoly", "wrong-quotient", out, fromq(q, (K *)nullptr), "quotient of divides_upoly(" + (what + ")"));
    }
}

// ---------------------------------------------------------------- pairs
template <class T>
static void pair_body(const Alpha<T> &AL, long long i, Ctx &c)
{
    typedef typename Tr<T>::K K;
    cap_memory_once();
    const long long N = AL.P.size();
    const long long ia = i / N, ib = i % N;
    const T &a = *AL.P[ia], &b = *AL.P[ib];
    const UM<K> &ma = AL.M[ia], &mb = AL.M[ib];
    if (!ma.zero() && !mb.zero())
        c.nontrivial();
    auto what = [&] { return "a = " + ma.str() + ", b = " + mb.str(); };
    const char *tn = Tr<T>::name();
    char ob[96];
    try {
        UM<K> w = uadd(ma, mb);
        RCP<const T> r = add_upoly(a, b);
        c.eval();
        c.count(K_ADD);
        if (!fast_same(*r, w))
            check_poly<T>(c, "add_upoly", "wrong", r, w, "add_upoly(" + what() + ")");
        snprintf(ob, sizeof ob, "add:%s:deg%dt%zu", tn, w.degree(), w.t.size());
        c.outcome(ob);
    } catch (std::exception &e) {
        c.violation(sig<T>("add_upoly", "throws"), "add_upoly(" + what() + ") throws " + e.what());
    }
    try {
        UM<K> w = usub(ma, mb);
        RCP<const T> r = sub_upoly(a, b);
        c.eval();
        c.count(K_SUB);
        if (!fast_same(*r, w))
            check_poly<T>(c, "sub_upoly", "wrong", r, w, "sub_upoly(" + what() + ")");
        snprintf(ob, sizeof ob, "sub:%s:deg%dt%zu", tn, w.degree(), w.t.size());
        c.outcome(ob);
    } catch (std::exception &e) {
        c.violation(sig<T>("sub_upoly", "throws"), "sub_upoly(" + what() + ") throws " + e.what());
    }
    try {
        UM<K> w = umul(ma, mb);
        bool risky = risky_mul(ma, mb, w);
        if (risky)
            c.count(K_MUL_KRONECKER_RISKY);
        RCP<const T> r = mul_upoly(a, b);
        c.eval();
        c.count(K_MUL);
        if (!fast_same(*r, w))
            check_poly<T>(c, "mul_upoly", risky ? "kronecker" : "wrong", r, w, "mul_upoly(" + what() + ")");
        snprintf(ob, sizeof ob, "mul:%s:deg%dt%zu%s", tn, w.degree(), w.t.size(), risky ? ":slot-overflow" : "");
        c.outcome(ob);
        if (i % 100003 == 0)
            c.sample("{\"op\":\"mul_upoly\",\"type\":" + jstr(Tr<T>::name()) + ",\"a\":" + jstr(ma.str()) + ",\"b\":" + jstr(mb.str())
                     + ",\"model\":" + jstr(w.str()) + "}");
    } catch (std::exception &e) {
        c.violation(sig<T>("mul_upoly", "throws"), "mul_upoly(" + what() + ") throws " + e.what());
    }
    if (Tr<T>::id != 2)
        check_divides<T>(c, a, b, ma, mb);
}

// ---------------------------------------------------------------- unary
template <class T>
static typename Tr<T>::Cf call_eval(const T &p, const typename Tr<T>::Cf &v)
{
    return p.eval(v);
}
template <class T>
static void conv_checks(Ctx &, const RCP<const T> &, const UM<typename Tr<T>::K> &, const std::string &);
template <>
void conv_checks<UIntPoly>(Ctx &c, const RCP<const UIntPoly> &p, const UM<mpz_class> &m, const std::string &what)
{
    try {
        RCP<const URatPoly> r = URatPoly::from_poly(*p);
        c.eval();
        c.count(K_FROMPOLY);
        check_poly<URatPoly>(c, "from_poly<-UIntPoly", "wrong", r, toq(m), "URatPoly::from_poly(" + what + ")");
        UM<PolyA> me;
        for (auto &kv : m.t)
            me.t[kv.first] = PolyA(kv.second);
        RCP<const UExprPoly> e = UExprPoly::from_poly(*p);
        c.eval();
        c.count(K_FROMPOLY);
        check_poly<UExprPoly>(c, "from_poly<-UIntPoly", "wrong", e, me, "UExprPoly::from_poly(" + what + ")");
    } catch (std::exception &e) {
        c.violation("from_poly:UIntPoly:throws", "from_poly(" + what + ") throws " + e.what());
    }
}
template <>
void conv_checks<URatPoly>(Ctx &c, const RCP<const URatPoly> &p, const UM<mpq_class> &m, const std::string &what)
{
    try {
        UM<PolyA> me;
        for (auto &kv : m.t)
            me.t[kv.first] = PolyA(kv.second);
        RCP<const UExprPoly> e = UExprPoly::from_poly(*p);
        c.eval();
        c.count(K_FROMPOLY);
        check_poly<UExprPoly>(c, "from_poly<-URatPoly", "wrong", e, me, "UExprPoly::from_poly(" + what + ")");
    } catch (std::exception &e) {
        c.violation("from_poly:URatPoly:throws", "from_poly(" + what + ") throws " + e.what());
    }
}
template <>
void conv_checks<UExprPoly>(Ctx &, const RCP<const UExprPoly> &, const UM<PolyA> &, const std::string &)
{
}

// value of a coefficient-type result vs model
template <class T>
static bool cf_equal(const typename Tr<T>::Cf &got, const typename Tr<T>::K &want, std::string &gs)
{
    typename Tr<T>::K g;
    if (!Tr<T>::model(got, g)) {
        gs = "<not a polynomial in a>";
        return false;
    }
    gs = kstr(g);
    return g == want;
}

template <class T>
static void pow_check(Ctx &c, const T &p, const UM<typename Tr<T>::K> &m, unsigned e, const std::string &what)
{
    typedef typename Tr<T>::K K;
    try {
        UM<K> w = upow(m, e);
        bool risky = risky_pow(m, e);
        RCP<const T> r = pow_upoly(p, e);
        c.eval();
        c.count(e == 0 ? K_POW0 : K_POW);
        check_poly<T>(c, "pow_upoly", risky ? "kronecker" : (e == 0 ? "exp0-wrong" : "wrong"), r, w,
                      "pow_upoly(" + what + ", " + std::to_string(e) + ")");
        c.outcome(std::string("pow:") + Tr<T>::name() + ":" + std::to_string(e) + ":" + shape<T>(w) + (risky ? ":slot-overflow" : ""));
    } catch (std::exception &x) {
        c.violation(sig<T>("pow_upoly", "throws"), "pow_upoly(" + what + ", " + std::to_string(e) + ") throws " + x.what());
    }
}

// as_symbolic -> walker == model; from_basic(as_symbolic) == p
template <class T>
static void symbolic_check(Ctx &c, const RCP<const T> &p, const UM<typename Tr<T>::K> &m, const std::string &what)
{
    typedef typename Tr<T>::K K;
    RCP<const Basic> s;
    try {
        s = p->as_symbolic();
        c.eval();
        c.count(K_ASSYM);
    } catch (std::exception &e) {
        c.violation(sig<T>("as_symbolic", "throws"), "as_symbolic(" + what + ") throws " + e.what());
        return;
    }
    MM<PolyA> mm;
    UM<PolyA> um, me;
    for (auto &kv : m.t)
        me.t[kv.first] = PolyA(kv.second);
    if (!walk(*s, mm) || !to_um(mm, um)) {
        c.violation(sig<T>("as_symbolic", "not-a-polynomial"), "as_symbolic(" + what + ") = " + sstr(s) + " is not a polynomial expression in x");
        return;
    }
    if (!(um == me))
        c.violation(sig<T>("as_symbolic", "wrong"), "as_symbolic(" + what + ") = " + sstr(s) + " has value " + um.str() + "; model " + me.str());
    try {
        RCP<const T> back = from_basic<T>(s, XB);
        c.eval();
        c.count(K_FB_OK);
        check_poly<T>(c, "from_basic(as_symbolic)", "wrong", back, m, "from_basic(as_symbolic(" + what + ") = " + sstr(s) + ", x)");
    } catch (std::exception &e) {
        c.violation(sig<T>("from_basic(as_symbolic)", "throws"), "from_basic(as_symbolic(" + what + ") = " + sstr(s) + ", x) throws " + e.what());
    }
    (void)sizeof(K);
}

template <class T>
static void unary_ops(const Alpha<T> &AL, long long i, Ctx &c, bool is_zero_case)
{
    typedef typename Tr<T>::K K;
    typedef typename Tr<T>::Cf Cf;
    const RCP<const T> &p = AL.P[i];
    const UM<K> &m = AL.M[i];
    std::string what = m.str();
    (void)is_zero_case;
    // neg
    try {
        RCP<const T> r = neg_upoly(*p);
        c.eval();
        c.count(K_NEG);
        check_poly<T>(c, "neg_upoly", "wrong", r, uneg(m), "neg_upoly(" + what + ")");
    } catch (std::exception &e) {
        c.violation(sig<T>("neg_upoly", "throws"), "neg_upoly(" + what + ") throws " + e.what());
    }
    // pow
    for (unsigned e = 1; e <= Tr<T>::maxpow; e++)
        pow_check<T>(c, *p, m, e, what);
    if (pow0_bad[Tr<T>::id])
        c.count(K_POW0_QUARANTINED);
    else
        pow_check<T>(c, *p, m, 0, what);
    // eval
    for (auto &pt : AL.evalpt) {
        try {
            K w = ueval(m, pt.second);
            Cf r = call_eval<T>(*p, pt.first);
            c.eval();
            c.count(K_EVAL);
            std::string gs;
            if (!cf_equal<T>(r, w, gs))
                c.violation(sig<T>("eval", "wrong"), "(" + what + ").eval(" + kstr(pt.second) + ") = " + gs + "; model " + kstr(w));
            c.outcome(std::string("eval:") + Tr<T>::name() + ":" + (kzero(w) ? "zero" : "nonzero") + ":" + kstr(pt.second));
        } catch (std::exception &e) {
            c.violation(sig<T>("eval", "throws"), "(" + what + ").eval(" + kstr(pt.second) + ") throws " + e.what());
        }
    }
    // coefficient / degree / size / lc
    try {
        for (unsigned e = 0; e <= (unsigned)std::max(0, m.degree()) + 2; e++) {
            Cf r = p->get_coeff(e);
            c.eval();
            c.count(K_COEFF);
            std::string gs;
            if (!cf_equal<T>(r, m.coeff(e), gs))
                c.violation(sig<T>("get_coeff", "wrong"), "(" + what + ").get_coeff(" + std::to_string(e) + ") = " + gs + "; model " + kstr(m.coeff(e)));
        }
        int d = p->get_degree(), sz = p->size();
        Cf lc = p->get_poly().get_lc();
        c.eval(3);
        c.count(K_DEGREE);
        std::string gs;
        if (m.zero()) {
            c.count(K_ZERO_DEGREE_CONVENTION); // documented: degree() of the zero polynomial is 0, size() is 0
            if (sz != 0)
                c.violation(sig<T>("size", "wrong"), "size() of the zero polynomial = " + std::to_string(sz) + "; documented 0");
        } else {
            if (d != m.degree())
                c.violation(sig<T>("get_degree", "wrong"), "(" + what + ").get_degree() = " + std::to_string(d) + "; model " + std::to_string(m.degree()));
            if (sz != m.degree() + 1)
                c.violation(sig<T>("size", "wrong"), "(" + what + ").size() = " + std::to_string(sz) + "; model degree+1 = " + std::to_string(m.degree() + 1));
        }
        if (!cf_equal<T>(lc, m.lc(), gs))
            c.violation(sig<T>("get_lc", "wrong"), "(" + what + ").get_lc() = " + gs + "; model " + kstr(m.lc()));
    } catch (std::exception &e) {
        c.violation(sig<T>("get_coeff", "throws"), "coefficient/degree query of " + what + " throws " + e.what());
    }
    // diff wrt generator and wrt an unrelated symbol
    try {
        RCP<const Basic> d = p->diff(X);
        c.eval();
        c.count(K_DIFF);
        if (!is_a<T>(*d))
            c.violation(sig<T>("diff", "wrong-type"), "diff(" + what + ", x) = " + sstr(d) + " is not a " + Tr<T>::name());
        else
            check_poly<T>(c, "diff", "wrong", rcp_static_cast<const T>(d), udiff(m), "diff(" + what + ", x)");
        RCP<const Basic> dy = p->diff(Y);
        c.eval();
        c.count(K_DIFF);
        if (!is_a<T>(*dy))
            c.violation(sig<T>("diff", "wrong-type"), "diff(" + what + ", y) = " + sstr(dy) + " is not a " + Tr<T>::name());
        else
            check_poly<T>(c, "diff", "wrong-other-symbol", rcp_static_cast<const T>(dy), UM<K>(), "diff(" + what + ", y)");
    } catch (std::exception &e) {
        c.violation(sig<T>("diff", "throws"), "diff(" + what + ") throws " + e.what());
    }
    symbolic_check<T>(c, p, m, what);
    conv_checks<T>(c, p, m, what);
    // from_vec (dense) and from_dict with explicit zero entries
    try {
        std::vector<Cf> v;
        std::map<typename Tr<T>::Key, Cf> d = AL.D[i];
        for (int e = 0; e <= m.degree() + 1; e++) {
            auto it = AL.D[i].find(e);
            v.push_back(it == AL.D[i].end() ? Cf(0) : it->second);
            if (it == AL.D[i].end())
                d[e] = Cf(0);
        }
        RCP<const T> r = T::from_vec(XB, v);
        c.eval();
        c.count(K_FROMVEC);
        check_poly<T>(c, "from_vec", "wrong", r, m, "from_vec(dense " + what + ")");
        RCP<const T> r2 = T::from_dict(XB, std::move(d));
        c.eval();
        c.count(K_FROMDICT);
        check_poly<T>(c, "from_dict", "zero-entries-kept", r2, m, "from_dict(" + what + " with explicit zero entries)");
        if (!eq(*r, *p) || !eq(*r2, *p))
            c.violation(sig<T>("from_vec", "not-eq"), "from_vec/from_dict(" + what + ") is not eq to the from_dict polynomial");
    } catch (std::exception &e) {
        c.violation(sig<T>("from_vec", "throws"), "from_vec/from_dict(" + what + ") throws " + e.what());
    }
}
template <class T>
static void unary_body(const Alpha<T> &AL, long long i, Ctx &c)
{
    cap_memory_once();
    if (AL.M[i].zero()) {
        c.count(K_ZERO_POLY_IN_SPECIAL);
        return;
    }
    c.nontrivial();
    unary_ops<T>(AL, i, c, false);
    if (i % 211 == 0)
        c.sample("{\"op\":\"unary\",\"type\":" + jstr(Tr<T>::name()) + ",\"p\":" + jstr(AL.M[i].str()) + "}");
}

// ---------------------------------------------------------------- special (guarded) cases
struct Special {
    std::string desc, sig;
    int type, kind; // kind 0 plain, 1 pow0 probe, 2 divides hazard probe
    std::function<void(Ctx &)> fn;
};
static std::vector<Special> SP;

template <class T>
static long long find_poly(const Alpha<T> &AL, const UM<typename Tr<T>::K> &m)
{
    for (size_t i = 0; i < AL.M.size(); i++)
        if (AL.M[i] == m)
            return i;
    return -1;
}
template <class T>
static RCP<const T> mk(const Alpha<T> &AL, const std::vector<std::pair<unsigned, int>> &terms, UM<typename Tr<T>::K> &m)
{
    std::map<typename Tr<T>::Key, typename Tr<T>::Cf> d;
    m = UM<typename Tr<T>::K>();
    for (auto &t : terms) {
        d[t.first] = AL.coef[t.second].first;
        m.t[t.first] = AL.coef[t.second].second;
    }
    return T::from_dict(XB, std::move(d));
}
template <class T>
static void build_special(const Alpha<T> &AL)
{
    typedef typename Tr<T>::K K;
    typedef typename Tr<T>::Cf Cf;
    const std::string tn = Tr<T>::name();
    const int ty = Tr<T>::id;
    const Alpha<T> *al = &AL;
    // coefficient index 0 is +1 in every alphabet
    UM<K> m1, mx, m1x, mz, mxx, mx3p1, m3;
    RCP<const T> one_ = mk(AL, {{0, 0}}, m1), x_ = mk(AL, {{1, 0}}, mx), x1 = mk(AL, {{0, 0}, {1, 0}}, m1x), zero_ = mk(AL, {}, mz);
    RCP<const T> xx = mk(AL, {{2, 0}}, mxx), x3p1 = mk(AL, {{0, 0}, {3, 0}}, mx3p1), t3 = mk(AL, {{0, 0}, {1, 0}, {2, 0}}, m3);
    // zero polynomial: every unary op, one case each so that a crash names the operation
    SP.push_back({tn + ": neg/coeff/degree/diff/as_symbolic/from_vec of the zero polynomial", "zero-poly-queries:" + tn, ty, 0, [al, zero_, mz](Ctx &c) {
                      // the non-pow, non-eval operations (pow and eval of the zero polynomial are separate cases below)
                      typedef typename Tr<T>::K K2;
                      const RCP<const T> &p = zero_;
                      RCP<const T> r = neg_upoly(*p);
                      c.eval();
                      check_poly<T>(c, "neg_upoly", "wrong", r, mz, "neg_upoly(0)");
                      std::string gs;
                      if (!cf_equal<T>(p->get_coeff(0), K2(0), gs) || !cf_equal<T>(p->get_coeff(3), K2(0), gs))
                          c.violation(sig<T>("get_coeff", "wrong"), "get_coeff on the zero polynomial = " + gs);
                      if (p->size() != 0)
                          c.violation(sig<T>("size", "wrong"), "size() of the zero polynomial is " + std::to_string(p->size()));
                      (void)p->get_degree();
                      if (!cf_equal<T>(p->get_poly().get_lc(), K2(0), gs))
                          c.violation(sig<T>("get_lc", "wrong"), "get_lc() of the zero polynomial = " + gs);
                      RCP<const Basic> d = p->diff(X);
                      if (!is_a<T>(*d))
                          c.violation(sig<T>("diff", "wrong-type"), "diff(0, x) = " + sstr(d));
                      else
                          check_poly<T>(c, "diff", "wrong", rcp_static_cast<const T>(d), mz, "diff(0, x)");
                      symbolic_check<T>(c, p, mz, "0");
                      conv_checks<T>(c, p, mz, "0");
                      RCP<const T> v = T::from_vec(XB, std::vector<typename Tr<T>::Cf>{});
                      check_poly<T>(c, "from_vec", "wrong", v, mz, "from_vec({})");
                      RCP<const T> v2 = T::from_vec(XB, std::vector<typename Tr<T>::Cf>{typename Tr<T>::Cf(0), typename Tr<T>::Cf(0)});
                      check_poly<T>(c, "from_vec", "wrong", v2, mz, "from_vec({0,0})");
                      (void)al;
                  }});
    for (unsigned e = 1; e <= 3; e++)
        SP.push_back({tn + ": pow_upoly(0, " + std::to_string(e) + ")", "pow_upoly:" + tn + ":zero-poly", ty, 0,
                      [zero_, mz, e](Ctx &c) { pow_check<T>(c, *zero_, mz, e, "0"); }});
    for (size_t k = 0; k < AL.evalpt.size() && k < 3; k++) {
        std::pair<Cf, K> pt = AL.evalpt[k];
        SP.push_back({tn + ": (0).eval(" + kstr(pt.second) + ")", "eval:" + tn + ":zero-poly", ty, 0, [zero_, pt](Ctx &c) {
                          Cf r = call_eval<T>(*zero_, pt.first);
                          c.eval();
                          std::string gs;
                          if (!cf_equal<T>(r, K(0), gs))
                              c.violation(sig<T>("eval", "zero-poly-wrong"), "(0).eval(" + kstr(pt.second) + ") = " + gs + "; model 0");
                      }});
    }
    // pow 0 probes (decide whether the full table may call pow_upoly(p, 0))
    std::vector<std::pair<RCP<const T>, UM<K>>> probes = {{one_, m1}, {x1, m1x}};
    (void)x_;
    (void)t3;
    for (auto &pr : probes)
        SP.push_back({tn + ": pow_upoly(" + pr.second.str() + ", 0)", "pow_upoly:" + tn + ":exp0", ty, 1,
                      [pr](Ctx &c) { pow_check<T>(c, *pr.first, pr.second, 0, pr.second.str()); }});
    SP.push_back({tn + ": pow_upoly(0, 0)", "pow_upoly:" + tn + ":exp0", ty, 1, [zero_, mz](Ctx &c) { pow_check<T>(c, *zero_, mz, 0, "0"); }});
    // divides hazard probes: remainder of lower degree than the divisor while it still has as many terms
    if (ty != 2) {
        struct DP {
            RCP<const T> a, b;
            UM<K> ma, mb;
        };
        std::vector<DP> dp;
        dp.push_back(DP{xx, x1, mxx, m1x});
        dp.push_back(DP{xx, x3p1, mxx, mx3p1});
        for (auto &d : dp)
            SP.push_back({tn + ": divides_upoly(a = " + d.ma.str() + ", b = " + d.mb.str() + ")", "divides_upoly:" + tn + ":lower-degree-dividend", ty, 2,
                          [d](Ctx &c) {
                              divhaz_bad[Tr<T>::id] = false; // inside the guarded grandchild only
                              check_divides<T>(c, *d.a, *d.b, d.ma, d.mb);
                          }});
    }
}
static void special_body(long long i, Ctx &c)
{
    if (i >= (long long)SP.size())
        return;
    const Special &s = SP[i];
    c.count(K_GUARDED);
    c.nontrivial();
    std::string oc = guarded(c, 1, [&] {
        try {
            s.fn(c);
        } catch (std::exception &e) {
            c.violation(s.sig + ":throws", s.desc + " throws " + e.what());
        }
    });
    c.eval();
    c.outcome("special:" + s.sig + ":" + (oc.empty() ? "returned" : oc));
    if (!oc.empty()) {
        c.count(K_GUARDED_BAD);
        if (s.kind == 1)
            c.count(K_PROBE_POW0_BAD0 + s.type);
        if (s.kind == 2)
            c.count(K_PROBE_DIV_BAD0 + s.type);
        c.violation(s.sig + ":" + (oc == "hang" ? "hang" : "crash"), s.desc + " -> " + oc + (oc == "hang" ? " (no result after 1 s of CPU time; address space capped at 1.5 GB)" : ""));
    }
}

// ---------------------------------------------------------------- expression alphabet (from_basic / as_symbolic)
struct Ex {
    RCP<const Basic> e;
    MM<PolyA> m;
    UM<PolyA> um;
    bool has_a = false, has_rat = false;
};
static std::vector<Ex> EX;
static void scan(const Basic &b, bool &has_a, bool &has_rat)
{
    if (is_a<Rational>(b))
        has_rat = true;
    if (is_a<Symbol>(b) && down_cast<const Symbol &>(b).get_name() == "a")
        has_a = true;
    for (auto &x : b.get_args())
        scan(*x, has_a, has_rat);
}
static void build_expressions(bool thorough)
{
    std::vector<RCP<const Basic>> L0 = {X, integer(2), integer(-1), Rational::from_two_ints(1, 2), A,
                                       add({integer(7), mul(integer(7), X), mul(integer(7), pow(X, integer(2)))})};
    if (thorough) {
        L0.push_back(integer(3));
        L0.push_back(add(X, one));
    }
    std::set<std::string> seen;
    std::vector<RCP<const Basic>> all;
    auto put = [&](const RCP<const Basic> &e) {
        std::string k = key(*e);
        if (seen.insert(k).second)
            all.push_back(e);
    };
    for (auto &e : L0)
        put(e);
    size_t n0 = all.size();
    for (size_t i = 0; i < n0; i++) {
        for (size_t j = 0; j < n0; j++) {
            put(add(all[i], all[j]));
            put(mul(all[i], all[j]));
        }
        put(pow(all[i], integer(2)));
        put(pow(all[i], integer(3)));
    }
    size_t n1 = all.size();
    for (size_t i = 0; i < n1; i++) {
        for (size_t j = 0; j < n1; j++) {
            put(add(all[i], all[j]));
            put(mul(all[i], all[j]));
        }
        put(pow(all[i], integer(2)));
    }
    for (auto &e : all) {
        Ex x;
        x.e = e;
        if (!walk(*e, x.m) || !to_um(x.m, x.um))
            continue; // never happens for this alphabet; counted through EX.size()
        scan(*e, x.has_a, x.has_rat);
        EX.push_back(x);
    }
}
template <class K>
static bool representable(const UM<PolyA> &um, UM<K> &out);
template <>
bool representable<mpz_class>(const UM<PolyA> &um, UM<mpz_class> &out)
{
    out = UM<mpz_class>();
    for (auto &kv : um.t) {
        if (!kv.second.is_const() || kv.second.cst().get_den() != 1)
            return false;
        out.t[kv.first] = kv.second.cst().get_num();
    }
    return true;
}
template <>
bool representable<mpq_class>(const UM<PolyA> &um, UM<mpq_class> &out)
{
    out = UM<mpq_class>();
    for (auto &kv : um.t) {
        if (!kv.second.is_const())
            return false;
        out.t[kv.first] = kv.second.cst();
    }
    return true;
}
template <>
bool representable<PolyA>(const UM<PolyA> &um, UM<PolyA> &out)
{
    out = um;
    return true;
}

template <class T>
static void conv_body(long long i, Ctx &c)
{
    typedef typename Tr<T>::K K;
    cap_memory_once();
    const Ex &x = EX[i];
    std::string what = sstr(x.e);
    UM<K> want;
    bool rep = representable<K>(x.um, want);
    c.nontrivial();
    // which trees the visitor must accept without expansion: every node kind it meets is handled totally
    bool must = Tr<T>::id == 0 ? (!x.has_a && !x.has_rat) : Tr<T>::id == 1 ? !x.has_a : true;
    for (int variant = 0; variant < 3; variant++) {
        const char *vn = variant == 0 ? "from_basic(e, x)" : variant == 1 ? "from_basic(e, x, expand)" : "from_basic(e)";
        RCP<const T> p;
        bool refused = false;
        std::string msg;
        try {
            if (variant == 0)
                p = from_basic<T>(x.e, XB);
            else if (variant == 1)
                p = from_basic<T>(x.e, XB, true);
            else
                p = from_basic<T>(x.e);
            c.eval();
        } catch (SymEngineException &e) {
            refused = true;
            msg = e.what();
            c.eval();
        } catch (std::exception &e) {
            c.violation(sig<T>("from_basic", "std-exception"), std::string(vn) + " with e = " + what + " throws " + e.what());
            continue;
        }
        if (refused) {
            c.outcome(std::string("from_basic:") + Tr<T>::name() + ":v" + std::to_string(variant) + ":refused:" + msg.substr(0, 40));
            if (variant == 2) {
                c.count(K_FB_AUTOGEN_REFUSED); // generator detection may refuse (no generator, several generators)
                continue;
            }
            if (!rep)
                c.count(K_FB_REFUSED_EXPECTED);
            else if ((variant == 0 && must) || variant == 1)
                c.violation(sig<T>("from_basic", "refuses-polynomial"),
                            std::string(vn) + " with e = " + what + " refuses (" + msg + ") but e is the polynomial " + want.str());
            else
                c.count(K_FB_REFUSED_ALLOWED);
            continue;
        }
        c.count(K_FB_OK);
        c.outcome(std::string("from_basic:") + Tr<T>::name() + ":v" + std::to_string(variant) + ":ok:" + shape<T>(want));
        if (variant == 2 && !eq(*p->get_var(), *X)) {
            // another generator was chosen (e.g. expression in a only): not judged against the x-model
            c.count(K_FB_AUTOGEN_REFUSED);
            continue;
        }
        if (!rep) {
            c.violation(sig<T>("from_basic", "accepts-non-representable"),
                        std::string(vn) + " with e = " + what + " returned a " + Tr<T>::name() + " but the value " + x.um.str() + " has coefficients outside the ring");
            continue;
        }
        // classify a wrong UIntPoly product: the same visitor over URatPoly (schoolbook mul) is right => UIntDict::mul
        std::string cls = "wrong";
        if (Tr<T>::id == 0) {
            UM<K> got;
            std::string why;
            if (to_model(*p, got, c, why) && !(got == want)) {
                try {
                    RCP<const URatPoly> pr = variant == 0 ? from_basic<URatPoly>(x.e, XB) : variant == 1 ? from_basic<URatPoly>(x.e, XB, true) : from_basic<URatPoly>(x.e);
                    UM<mpq_class> gr, wr;
                    if (to_model(*pr, gr, c, why) && representable<mpq_class>(x.um, wr) && gr == wr)
                        cls = "kronecker";
                } catch (std::exception &) {
                }
            }
        }
        if (!check_poly<T>(c, "from_basic", cls, p, want, std::string(vn) + " with e = " + what))
            continue;
        // back to an expression
        try {
            RCP<const Basic> s = p->as_symbolic();
            c.eval();
            MM<PolyA> mm;
            UM<PolyA> um;
            if (!walk(*s, mm) || !to_um(mm, um) || !(um == x.um))
                c.violation(sig<T>("roundtrip", "wrong-value"), "as_symbolic(" + std::string(vn) + ") with e = " + what + " gives " + sstr(s) + "; value differs from " + x.um.str());
            else if (Tr<T>::id != 2) {
                RCP<const Basic> ex = expand(x.e);
                c.count(K_ROUNDTRIP_EQ_EXPAND);
                if (!eq(*s, *ex))
                    c.violation(sig<T>("roundtrip", "not-eq-expand"), "as_symbolic(" + std::string(vn) + ") with e = " + what + " gives " + sstr(s) + " which is not eq to expand(e) = " + sstr(ex));
            }
        } catch (std::exception &e) {
            c.violation(sig<T>("roundtrip", "throws"), "as_symbolic(" + std::string(vn) + ") with e = " + what + " throws " + e.what());
        }
    }
    if (i % 499 == 0)
        c.sample("{\"op\":\"from_basic\",\"type\":" + jstr(Tr<T>::name()) + ",\"e\":" + jstr(what) + ",\"model\":" + jstr(x.um.str()) + "}");
}

// ---------------------------------------------------------------- driver
template <class T>
static void run_type(const Alpha<T> &AL, uint64_t &states)
{
    const long long N = AL.P.size();
    states += N;
    const std::string tn = Tr<T>::name();
    {
        CaseSet cs;
        cs.name = "unary:" + tn;
        cs.n = N;
        cs.counter_names = CN;
        cs.hang_s = 300; // wall-clock backstop only (machine may be heavily loaded); real hang classes are probed under a CPU-time limit
        cs.desc = [&](long long i) { return tn + " unary operations on p = " + AL.M[i].str(); };
        cs.crash_sig = [&](long long, const std::string &oc) { return "unary:" + tn + ":" + oc; };
        cs.body = [&](long long i, Ctx &c) { unary_body<T>(AL, i, c); };
        run_cases(cs);
    }
    if (past_deadline())
        return;
    {
        CaseSet cs;
        cs.name = "conv:" + tn;
        cs.n = EX.size();
        cs.counter_names = CN;
        cs.hang_s = 300; // wall-clock backstop only (machine may be heavily loaded); real hang classes are probed under a CPU-time limit
        cs.desc = [&](long long i) { return tn + " from_basic/as_symbolic of e = " + sstr(EX[i].e); };
        cs.crash_sig = [&](long long, const std::string &oc) { return "conv:" + tn + ":" + oc; };
        cs.body = [&](long long i, Ctx &c) { conv_body<T>(i, c); };
        run_cases(cs);
    }
    if (past_deadline())
        return;
    {
        CaseSet cs;
        cs.name = "pairs:" + tn;
        cs.n = N * N;
        cs.counter_names = CN;
        cs.hang_s = 300; // wall-clock backstop only (machine may be heavily loaded); real hang classes are probed under a CPU-time limit
        cs.desc = [&](long long i) { return tn + " a = " + AL.M[i / N].str() + ", b = " + AL.M[i % N].str(); };
        cs.crash_sig = [&](long long, const std::string &oc) { return "pairs:" + tn + ":" + oc; };
        cs.body = [&](long long i, Ctx &c) { pair_body<T>(AL, i, c); };
        run_cases(cs);
    }
}

int main(int argc, char **argv)
{
    init(argc, argv, "C21");
    const bool thorough = opts().thorough();
    X = symbol("x");
    Y = symbol("y");
    A = symbol("a");
    XB = X;
    auto I = [](const char *s) { return integer_class(s); };
    // UIntPoly: coefficient magnitudes chosen from UIntDict::mul: slot width = bitlen(min size) + bitlen(max|a|) + bitlen(max|b|)
    // first 6 entries are the alphabet of the 3-term polynomials
    const char *ci[] = {"1", "-1", "7", "-7", "2147483648", "-18446744073709551617", "9223372036854775808", "-2", "2", "-2147483648",
                        "-9223372036854775808", "18446744073709551617"};
    for (auto s : ci)
        AI.coef.push_back({I(s), mpz_class(s)});
    for (auto s : {"0", "1", "-1", "2", "-3", "4294967296"})
        AI.evalpt.push_back({I(s), mpz_class(s)});
    AI.build(thorough ? 4 : 3, thorough ? 12 : 8, thorough ? 6 : 4);
    auto RQ = [](long n, long d) { return std::make_pair(rational_class(integer_class(n), integer_class(d)), mpq_class(n, d)); };
    AR.coef = {RQ(1, 1), RQ(-1, 2), RQ(2, 3), RQ(1, 2), RQ(-3, 1), RQ(7, 4)};
    AR.evalpt = {RQ(0, 1), RQ(1, 1), RQ(-1, 1), RQ(2, 1), RQ(1, 2), RQ(-2, 3)};
    AR.build(thorough ? 4 : 3, thorough ? 6 : 5, thorough ? 4 : 3);
    auto EXP = [](const RCP<const Basic> &b) {
        PolyA k;
        if (!walk_expr(*b, k)) {
            fprintf(stderr, "alphabet coefficient not modelled\n");
            exit(2);
        }
        return std::make_pair(Expression(b), k);
    };
    AE.coef = {EXP(one), EXP(A), EXP(add(A, one)), EXP(integer(2)), EXP(neg(A)), EXP(minus_one), EXP(mul(A, add(A, one)))};
    AE.evalpt = {EXP(zero), EXP(one), EXP(minus_one), EXP(integer(2)), EXP(A), EXP(add(A, one))};
    AE.build(3, thorough ? 7 : 5, thorough ? 4 : 3);
    build_expressions(thorough);

    build_special(AI);
    build_special(AR);
    build_special(AE);
    {
        CaseSet cs;
        cs.name = "special";
        cs.n = std::max<long long>(64, SP.size()); // padded so that the guarded (possibly hanging) cases run in parallel
        cs.counter_names = CN;
        cs.hang_s = 900; // wall-clock backstop only (machine may be heavily loaded); real hang classes are probed under a CPU-time limit
        cs.desc = [&](long long i) { return i < (long long)SP.size() ? SP[i].desc : std::string("(padding)"); };
        cs.crash_sig = [&](long long i, const std::string &oc) { return (i < (long long)SP.size() ? SP[i].sig : std::string("special")) + ":" + oc; };
        cs.body = [&](long long i, Ctx &c) { special_body(i, c); };
        run_cases(cs);
        if (!replaying()) {
            // quarantine a hazard class in the big tables once a probe of that class has hung, crashed or answered wrongly
            // (members of the class hang for seconds each; the class is already demonstrated by the probe)
            for (long long i : cs.bad)
                if (i < (long long)SP.size()) {
                    if (SP[i].kind == 1)
                        pow0_bad[SP[i].type] = true;
                    if (SP[i].kind == 2)
                        divhaz_bad[SP[i].type] = true;
                }
        } else if (opts().only_check != "special") {
            // replay of a table case: recompute the quarantine flags exactly as the full run does
            Shared sh;
            memset((void *)&sh, 0, sizeof sh);
            for (auto &s : SP) {
                if (s.kind == 0)
                    continue;
                Ctx c;
                c.sh = &sh;
                c.out = tmpfile();
                std::string oc = guarded(c, 1, [&] {
                    try {
                        s.fn(c);
                    } catch (std::exception &) {
                        c.violation("x", "x");
                    }
                });
                fseek(c.out, 0, SEEK_END);
                bool bad = !oc.empty() || ftell(c.out) > 0;
                fclose(c.out);
                if (bad && s.kind == 1)
                    pow0_bad[s.type] = true;
                if (bad && s.kind == 2)
                    divhaz_bad[s.type] = true;
            }
        }
    }
    uint64_t states = EX.size();
    // smallest tables first; the large UIntPoly pair table last
    run_type(AE, states);
    if (!past_deadline())
        run_type(AR, states);
    if (!past_deadline())
        run_type(AI, states);

    Run &R = run();
    R.states = states;
    R.transitions = R.evaluations;
    for (int t = 0; t < 3; t++) {
        R.counters[std::string("quarantine_pow0_type") + std::to_string(t)] = pow0_bad[t];
        R.counters[std::string("quarantine_divides_hazard_type") + std::to_string(t)] = divhaz_bad[t];
    }
    R.counters["alphabet_UIntPoly"] = AI.P.size();
    R.counters["alphabet_URatPoly"] = AR.P.size();
    R.counters["alphabet_UExprPoly"] = AE.P.size();
    R.counters["alphabet_expressions"] = EX.size();
    R.bound_completed = "UIntPoly: " + std::to_string(AI.P.size()) + " polynomials (deg<=" + (thorough ? "4" : "3")
                        + (thorough ? ", <=2 terms over 12 coefficients {+-1,+-2,+-7,+-2^31,+-2^63,+-(2^64+1)}, 3 terms over 6 {+-1,+-7,2^31,-(2^64+1)}"
                                    : ", <=2 terms over 8 coefficients {+-1,+-7,2^31,-(2^64+1),2^63,-2}, 3 terms over 4 {+-1,+-7}")
                        + "), all ordered pairs; URatPoly: "
                        + std::to_string(AR.P.size()) + " polynomials, all pairs; UExprPoly: " + std::to_string(AE.P.size()) + " polynomials, all pairs; "
                        + std::to_string(EX.size()) + " expressions (depth<=2 over {x,2,-1,1/2,a,7+7x+7x^2,..}) x 3 types x 3 from_basic variants";
    R.rule = "every ordered pair of the polynomial alphabet x {add,sub,mul,divides}; every polynomial x {neg, pow 0..4, eval at 6 points, "
             "get_coeff 0..deg+2, degree/size/lc, diff wrt x and y, as_symbolic, from_basic(as_symbolic), from_poly, from_vec, from_dict with zero entries}; "
             "every expression x {from_basic with gen, with expand, auto gen} then as_symbolic == expand; zero-polynomial and pow-0 / divides-hazard probes "
             "run guarded (fork, 1 s CPU, 1.5 GB).  Oracle: schoolbook std::map coefficient lists over GMP mpz/mpq and polynomials in a; independent tree walker. "
             "distinct_nontrivial = cases with both operands non-zero (pairs), non-zero polynomial (unary), every expression/special case";
    R.assumptions = {"GMP mpz/mpq arithmetic is correct",
                     "add/mul/pow/expand on the small expression alphabet are trusted as constructors/normaliser (properties C07/C09)",
                     "degree() of the zero polynomial is 0 by the documented convention (not judged); divides_upoly with the zero divisor is not judged",
                     "an Expression coefficient that is mathematically zero but not structurally zero is counted, not judged",
                     "hazard classes (pow_upoly(p,0); divides_upoly reaching a lower-degree dividend) are skipped in the big tables only after a guarded probe case of "
                     "the same class has hung/crashed in this run (counters quarantine_*)"};
    return R.finish();
}
