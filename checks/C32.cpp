// C32  Number-theoretic functions agree with their definitions -- E5 exhaustive argument tables (DESIGN 5 C32)
//
// Every function of ntheory.h / ntheory_funcs.h is called on every argument tuple of a bounded range and compared with a
// brute-force evaluation of its *definition* (naive loops over long long / GMP, no shared algorithm with the library).
// The randomised factorisation / square-root methods seed GMP from std::rand(): rand() is interposed here and enumerated
// over a menu, so those sub-checks are exhaustive over (argument, seed) and deterministic.
#include "common.h"
#include "key.h"
using namespace verif;
typedef long ll;

// ------------------------------------------------------------------ rand() interposition
static int g_rand_value = 0;
static unsigned long g_rand_calls = 0;
extern "C" int rand(void)
{
    g_rand_calls++;
    return g_rand_value;
}
static const int SEEDS[4] = {0, 1, 2, 3};

// ------------------------------------------------------------------ helpers
static RCP<const Integer> Int(ll v)
{
    return integer(integer_class(std::to_string(v)));
}
static RCP<const Integer> IZ(const mpz_class &z)
{
    return integer(integer_class(z.get_str()));
}
static mpz_class Z(const Integer &i)
{
    return to_mpz(i.as_integer_class());
}
static mpz_class Z(const RCP<const Integer> &i)
{
    return i.is_null() ? mpz_class(-987654321) : to_mpz(i->as_integer_class());
}
static mpz_class Z(const integer_class &i)
{
    return to_mpz(i);
}
static std::string S(const mpz_class &z)
{
    return z.get_str();
}
static std::string S(ll v)
{
    return std::to_string(v);
}
static const char *sc(ll v)
{
    return v < 0 ? "<0" : v == 0 ? "=0" : ">0";
}
static ll absll(ll v)
{
    return v < 0 ? -v : v;
}
static ll ref_gcd(ll a, ll b) // largest d >= 0 dividing both, by search
{
    a = absll(a);
    b = absll(b);
    if (a == 0 && b == 0)
        return 0;
    for (ll d = std::max(a, b); d >= 1; d--)
        if (a % d == 0 && b % d == 0)
            return d;
    return 0;
}
static ll ref_lcm(ll a, ll b) // smallest positive common multiple, 0 if an argument is 0
{
    a = absll(a);
    b = absll(b);
    if (a == 0 || b == 0)
        return 0;
    for (ll m = std::max(a, b);; m++)
        if (m % a == 0 && m % b == 0)
            return m;
}
static bool ref_isprime(ll n)
{
    if (n < 2)
        return false;
    for (ll d = 2; d * d <= n; d++)
        if (n % d == 0)
            return false;
    return true;
}
static ll powmod(ll b, ll e, ll m) // m >= 1, e >= 0, naive repeated multiplication
{
    ll r = 1 % m;
    b %= m;
    if (b < 0)
        b += m;
    for (ll i = 0; i < e; i++)
        r = r * b % m;
    return r;
}
static ll fmod_ll(ll a, ll m) // a mod m in [0,m), m >= 1
{
    ll r = a % m;
    return r < 0 ? r + m : r;
}
// prime factorisation by trial division with every integer
static std::vector<std::pair<ll, int>> ref_factor(ll n)
{
    std::vector<std::pair<ll, int>> f;
    n = absll(n);
    for (ll d = 2; d * d <= n; d++) {
        int e = 0;
        while (n % d == 0) {
            n /= d;
            e++;
        }
        if (e)
            f.push_back({d, e});
    }
    if (n > 1)
        f.push_back({n, 1});
    return f;
}
static ll ref_order(ll a, ll n) // n >= 1, gcd(a,n) == 1
{
    ll x = 1 % n, k = 0;
    do {
        x = x * fmod_ll(a, n) % n;
        k++;
    } while (x != 1 % n);
    return k;
}
static ll ref_totient(ll n)
{
    ll c = 0;
    for (ll k = 1; k <= n; k++)
        if (ref_gcd(k, n) == 1)
            c++;
    return c;
}
static int ref_legendre(ll a, ll p) // p odd prime
{
    a = fmod_ll(a, p);
    if (a == 0)
        return 0;
    for (ll x = 1; x < p; x++)
        if (x * x % p == a)
            return 1;
    return -1;
}
static int ref_kronecker(ll a, ll n)
{
    if (n == 0)
        return absll(a) == 1 ? 1 : 0;
    int r = 1;
    if (n < 0) {
        if (a < 0)
            r = -r;
        n = -n;
    }
    for (auto &pe : ref_factor(n)) {
        int s;
        if (pe.first == 2) {
            if (a % 2 == 0)
                s = 0;
            else {
                ll m = fmod_ll(a, 8);
                s = (m == 1 || m == 7) ? 1 : -1;
            }
        } else
            s = ref_legendre(a, pe.first);
        for (int i = 0; i < pe.second; i++)
            r *= s;
    }
    return r;
}
static std::vector<ll> ref_roots(ll a, ll n, ll m) // all x in [0,m) with x^n == a (mod m)
{
    std::vector<ll> r;
    ll am = fmod_ll(a, m);
    for (ll x = 0; x < m; x++)
        if (powmod(x, n, m) == am)
            r.push_back(x);
    return r;
}
static std::string vecstr(const std::vector<ll> &v)
{
    std::string s = "[";
    for (size_t i = 0; i < v.size(); i++)
        s += (i ? "," : "") + S(v[i]);
    return s + "]";
}
static std::string vecstr(const std::vector<RCP<const Integer>> &v)
{
    std::string s = "[";
    for (size_t i = 0; i < v.size(); i++)
        s += (i ? "," : "") + S(Z(v[i]));
    return s + "]";
}
static bool same(const std::vector<RCP<const Integer>> &v, const std::vector<ll> &w)
{
    if (v.size() != w.size())
        return false;
    for (size_t i = 0; i < v.size(); i++)
        if (Z(v[i]) != w[i])
            return false;
    return true;
}

// call wrapper: library exceptions are refusals (returned as text), anything else propagates to the crash handler
template <class F>
static bool call(const F &f, std::string &err)
{
    try {
        f();
        return true;
    } catch (SymEngineException &e) {
        err = std::string("SymEngineException: ") + e.what();
        return false;
    } catch (std::exception &e) {
        err = std::string("std::exception: ") + e.what();
        return false;
    }
}

struct Mixed {
    std::vector<ll> lo, hi; // inclusive ranges
    ll total() const
    {
        ll t = 1;
        for (size_t i = 0; i < lo.size(); i++)
            t *= (hi[i] - lo[i] + 1);
        return t;
    }
    std::vector<ll> at(ll i) const
    {
        std::vector<ll> v(lo.size());
        for (int k = (int)lo.size() - 1; k >= 0; k--) {
            ll w = hi[k] - lo[k] + 1;
            v[k] = lo[k] + i % w;
            i /= w;
        }
        return v;
    }
};

// explicit table of the argument tuples of a Mixed range that satisfy a predicate (no index padding)
struct Tab {
    int w = 0;
    std::vector<int> d;
    Tab() {}
    Tab(const Mixed &mx, const std::function<bool(const std::vector<ll> &)> &keep)
    {
        w = mx.lo.size();
        ll t = mx.total();
        for (ll i = 0; i < t; i++) {
            auto v = mx.at(i);
            if (keep(v))
                for (ll x : v)
                    d.push_back((int)x);
        }
    }
    ll total() const
    {
        return w ? (ll)d.size() / w : 0;
    }
    std::vector<ll> at(ll i) const
    {
        return std::vector<ll>(d.begin() + i * w, d.begin() + (i + 1) * w);
    }
};

// One sub-check = one CaseSet.  Counter slots common to all: 0 judged results, 1 library refusals (exceptions) where the
// documentation allows them, 2 arguments outside the documented domain (not called), 3 method gave up (allowed).
struct Sub {
    CaseSet cs;
    Sub(const std::string &name, ll n)
    {
        cs.name = name;
        cs.n = n;
        cs.counter_names = {"judged:" + name, "documented_refusals:" + name, "outside_domain_not_called:" + name, "method_gave_up_allowed:" + name, "rand_draws_intercepted:" + name};
        cs.hang_s = 60;
    }
    void go()
    {
        if (past_deadline() && !replaying()) {
            run().exhaustive = false;
            run().counters["subchecks_not_started_deadline"]++;
            return;
        }
        double t = now();
        run_cases(cs);
        if (!replaying())
            printf("SUB %-28s cases=%lld wall=%.1fs\n", cs.name.c_str(), cs.n, now() - t);
    }
};
#define JUDGED c.count(0)
#define REFUSED c.count(1)
#define OUTSIDE c.count(2)
#define GAVEUP c.count(3)

int main(int argc, char **argv)
{
    init(argc, argv, "C32");
    const bool T = opts().thorough();
    // self-test of the rand() interposition: the enumeration over seeds would be vacuous without it
    {
        RCP<const Integer> f;
        unsigned long before = g_rand_calls;
        factor_pollard_rho_method(outArg(f), *Int(91));
        if (g_rand_calls == before) {
            fprintf(stderr, "rand() interposition is not effective\n");
            return 2;
        }
    }
    uint64_t nsub = 0;

    // ================================================================ gcd, lcm, gcd_ext, divides, mod/quotient (both conventions)
    {
        const ll R = T ? 60 : 24;
        Mixed mx{{-R, -R}, {R, R}};
        Sub s("gcd-lcm-divmod", mx.total());
        s.cs.desc = [=](ll i) {
            auto v = mx.at(i);
            return "(a=" + S(v[0]) + ", b=" + S(v[1]) + ")";
        };
        s.cs.body = [=](ll i, Ctx &c) {
            auto v = mx.at(i);
            ll a = v[0], b = v[1];
            auto A = Int(a), B = Int(b);
            std::string cl = std::string("(a") + sc(a) + ",b" + sc(b) + ")", d = "a=" + S(a) + " b=" + S(b), err;
            if (a != 0 && b != 0 && absll(a) != absll(b))
                c.nontrivial();
            // gcd
            mpz_class g = Z(gcd(*A, *B));
            c.eval();
            JUDGED;
            if (g != ref_gcd(a, b))
                c.violation("gcd" + cl, "gcd(" + d + ") = " + S(g) + ", definition gives " + S(ref_gcd(a, b)));
            mpz_class l = Z(lcm(*A, *B));
            c.eval();
            JUDGED;
            if (l != ref_lcm(a, b))
                c.violation("lcm" + cl, "lcm(" + d + ") = " + S(l) + ", definition gives " + S(ref_lcm(a, b)));
            RCP<const Integer> gg, ss, tt;
            gcd_ext(outArg(gg), outArg(ss), outArg(tt), *A, *B);
            c.eval();
            JUDGED;
            if (Z(gg) != ref_gcd(a, b) || Z(ss) * a + Z(tt) * b != Z(gg))
                c.violation("gcd_ext" + cl, "gcd_ext(" + d + ") gave g=" + S(Z(gg)) + " s=" + S(Z(ss)) + " t=" + S(Z(tt)) + "; need g=" + S(ref_gcd(a, b)) + " and s*a+t*b=g");
            // divides(a, b): b divides a  <=>  exists k: a = k*b
            bool dv = divides(*A, *B), dref = (b == 0) ? (a == 0) : (a % b == 0);
            c.eval();
            JUDGED;
            if (dv != dref)
                c.violation("divides" + cl, "divides(" + d + ") = " + S(dv) + ", definition (b | a) gives " + S(dref));
            c.outcome("g" + S(g) + (dv ? "d" : "n"));
            if (b == 0) {
                OUTSIDE; // division by zero is outside the domain of mod/quotient
                return;
            }
            // truncated: a = q*b + r, |r| < |b|, r = 0 or sign(r) = sign(a);  floored: r = 0 or sign(r) = sign(b)
            auto okdiv = [&](const mpz_class &q, const mpz_class &r, bool floored) {
                if (q * b + r != a || abs(r) >= absll(b))
                    return false;
                if (r == 0)
                    return true;
                return floored ? (sgn(r) > 0) == (b > 0) : (sgn(r) > 0) == (a > 0);
            };
            RCP<const Integer> q, r;
            mpz_class m1 = Z(mod(*A, *B)), q1 = Z(quotient(*A, *B));
            quotient_mod(outArg(q), outArg(r), *A, *B);
            c.eval(3);
            JUDGED;
            if (!okdiv(q1, m1, false) || Z(q) != q1 || Z(r) != m1)
                c.violation("mod/quotient/quotient_mod" + cl, "truncated division of " + d + ": mod=" + S(m1) + " quotient=" + S(q1) + " quotient_mod=(" + S(Z(q)) + "," + S(Z(r)) + ") violate a=q*b+r, |r|<|b|, sign(r)=sign(a)");
            mpz_class m2 = Z(mod_f(*A, *B)), q2 = Z(quotient_f(*A, *B));
            quotient_mod_f(outArg(q), outArg(r), *A, *B);
            c.eval(3);
            JUDGED;
            if (!okdiv(q2, m2, true) || Z(q) != q2 || Z(r) != m2)
                c.violation("mod_f/quotient_f/quotient_mod_f" + cl, "floored division of " + d + ": mod_f=" + S(m2) + " quotient_f=" + S(q2) + " quotient_mod_f=(" + S(Z(q)) + "," + S(Z(r)) + ") violate a=q*b+r, |r|<|b|, sign(r)=sign(b)");
            if (i % 997 == 0)
                c.sample("{\"sub\":\"gcd-lcm-divmod\",\"a\":" + S(a) + ",\"b\":" + S(b) + ",\"gcd\":" + S(g) + ",\"lcm\":" + S(l) + ",\"mod\":" + S(m1) + ",\"mod_f\":" + S(m2) + "}");
        };
        s.go();
        nsub++;
    }

    // ================================================================ mod_inverse
    {
        const ll M = T ? 90 : 36;
        Mixed mx{{-M, -M}, {M, M}};
        Sub s("mod_inverse", mx.total());
        s.cs.desc = [=](ll i) {
            auto v = mx.at(i);
            return "mod_inverse(a=" + S(v[0]) + ", m=" + S(v[1]) + ")";
        };
        s.cs.body = [=](ll i, Ctx &c) {
            auto v = mx.at(i);
            ll a = v[0], m = v[1];
            if (m == 0) {
                OUTSIDE;
                return;
            }
            ll am = absll(m), want = -1;
            for (ll x = 0; x < am; x++)
                if (fmod_ll(a * x - 1, am) == 0) {
                    want = x;
                    break;
                }
            RCP<const Integer> b;
            int rv = mod_inverse(outArg(b), *Int(a), *Int(m));
            c.eval();
            JUDGED;
            if (want >= 0)
                c.nontrivial();
            c.outcome(rv ? "inv" : "none");
            std::string cl = std::string("mod_inverse(a") + sc(a) + ",m" + sc(m) + (am == 1 ? ",|m|=1" : "") + ")";
            if ((rv != 0) != (want >= 0))
                c.violation(cl + ":existence", s.cs.desc(i) + " returned " + S(rv) + " but an inverse " + (want >= 0 ? "exists: " + S(want) : "does not exist"));
            else if (rv && Z(b) != want)
                c.violation(cl + ":value", s.cs.desc(i) + " = " + S(Z(b)) + ", the inverse in [0,|m|) is " + S(want));
        };
        s.go();
        nsub++;
    }

    // ================================================================ crt (2 and 3 moduli)
    for (int k = 2; k <= 3; k++) {
        const ll MM = T ? 12 : (k == 2 ? 12 : 7);
        // 2 moduli: remainders in [-m, 2m); 3 moduli: remainders in [0, m)
        Mixed mx;
        for (int j = 0; j < k; j++) {
            mx.lo.push_back(1);
            mx.hi.push_back(MM);
        }
        for (int j = 0; j < k; j++) {
            mx.lo.push_back(k == 2 ? -MM : 0);
            mx.hi.push_back(k == 2 ? 2 * MM - 1 : MM - 1);
        }
        Mixed mx0 = mx;
        Tab tb(mx0, [=](const std::vector<ll> &v) {
            for (int j = 0; j < k; j++) {
                ll m = v[j], r = v[k + j];
                if (k == 2 ? (r < -m || r >= 2 * m) : (r >= m))
                    return false;
            }
            return true;
        });
        Sub s("crt" + S(k), tb.total());
        s.cs.desc = [=](ll i) {
            auto v = tb.at(i);
            std::string a = "crt(rem=[", b = "], mod=[";
            for (int j = 0; j < k; j++) {
                a += (j ? "," : "") + S(v[k + j]);
                b += (j ? "," : "") + S(v[j]);
            }
            return a + b + "])";
        };
        s.cs.body = [=](ll i, Ctx &c) {
            auto v = tb.at(i);
            ll L = 1;
            for (int j = 0; j < k; j++)
                L = ref_lcm(L, v[j]);
            ll want = -1;
            for (ll x = 0; x < L; x++) {
                bool ok = true;
                for (int j = 0; j < k && ok; j++)
                    ok = fmod_ll(x - v[k + j], v[j]) == 0;
                if (ok) {
                    want = x;
                    break;
                }
            }
            std::vector<RCP<const Integer>> rem, mod;
            for (int j = 0; j < k; j++) {
                mod.push_back(Int(v[j]));
                rem.push_back(Int(v[k + j]));
            }
            RCP<const Integer> Rr;
            std::string err;
            bool rv = false;
            bool ran = call([&] { rv = crt(outArg(Rr), rem, mod); }, err);
            c.eval();
            JUDGED;
            bool coprime = true;
            for (int j = 0; j < k; j++)
                for (int l = j + 1; l < k; l++)
                    coprime = coprime && ref_gcd(v[j], v[l]) == 1;
            if (!coprime)
                c.nontrivial();
            std::string cl = "crt" + S(k) + (coprime ? "(coprime moduli)" : "(non-coprime moduli)");
            c.outcome(!ran ? "throw" : rv ? "sol" : "nosol");
            if (!ran)
                c.violation(cl + ":throws", s.cs.desc(i) + " threw " + err);
            else if (rv != (want >= 0))
                c.violation(cl + ":existence", s.cs.desc(i) + " returned " + S(rv) + " but " + (want >= 0 ? "x=" + S(want) + " solves the system" : "the system has no solution"));
            else if (rv) {
                for (int j = 0; j < k; j++)
                    if ((Z(Rr) - v[k + j]) % v[j] != 0) {
                        c.violation(cl + ":value", s.cs.desc(i) + " = " + S(Z(Rr)) + " is not congruent to " + S(v[k + j]) + " mod " + S(v[j]) + " (a solution is " + S(want) + ")");
                        break;
                    }
            }
        };
        s.go();
        nsub++;
    }

    // ================================================================ fibonacci, lucas, binomial, factorial
    {
        const ll N = 120;
        Sub s("fibonacci-lucas", N + 1);
        s.cs.jobs = 1;
        s.cs.desc = [=](ll i) { return "n=" + S(i); };
        s.cs.body = [=](ll n, Ctx &c) {
            // recurrences from F(0)=0,F(1)=1 / L(0)=2,L(1)=1, extended one step backwards: F(-1)=1, L(-1)=-1
            mpz_class f0 = 1, f1 = 0, l0 = -1, l1 = 2; // (x(n-1), x(n)) at n = 0
            for (ll t = 0; t < n; t++) {
                mpz_class f2 = f0 + f1, l2 = l0 + l1;
                f0 = f1;
                f1 = f2;
                l0 = l1;
                l1 = l2;
            }
            RCP<const Integer> g, h;
            mpz_class F = Z(fibonacci(n)), Lc = Z(lucas(n));
            c.eval(2);
            JUDGED;
            c.nontrivial();
            c.outcome("F" + S(F));
            if (F != f1)
                c.violation("fibonacci", "fibonacci(" + S(n) + ") = " + S(F) + ", recurrence gives " + S(f1));
            if (Lc != l1)
                c.violation("lucas", "lucas(" + S(n) + ") = " + S(Lc) + ", recurrence gives " + S(l1));
            fibonacci2(outArg(g), outArg(h), n);
            c.eval();
            JUDGED;
            if (Z(g) != f1 || (n >= 1 && Z(h) != f0))
                c.violation("fibonacci2", "fibonacci2(" + S(n) + ") = (" + S(Z(g)) + "," + S(Z(h)) + "), expected (F(n),F(n-1)) = (" + S(f1) + "," + S(f0) + ")");
            if (n == 0)
                c.outcome("fibonacci2(0).second=" + S(Z(h))); // F(-1): convention, recorded not judged
            lucas2(outArg(g), outArg(h), n);
            c.eval();
            JUDGED;
            if (Z(g) != l1 || (n >= 1 && Z(h) != l0))
                c.violation("lucas2", "lucas2(" + S(n) + ") = (" + S(Z(g)) + "," + S(Z(h)) + "), expected (L(n),L(n-1)) = (" + S(l1) + "," + S(l0) + ")");
            if (n == 0)
                c.outcome("lucas2(0).second=" + S(Z(h)));
        };
        s.go();
        nsub++;
    }
    {
        Mixed mx{{-8, 0}, {40, 12}};
        Sub s("binomial-factorial", mx.total());
        s.cs.desc = [=](ll i) {
            auto v = mx.at(i);
            return "binomial(n=" + S(v[0]) + ", k=" + S(v[1]) + ")";
        };
        s.cs.body = [=](ll i, Ctx &c) {
            auto v = mx.at(i);
            ll n = v[0], k = v[1];
            // n(n-1)...(n-k+1)/k!
            mpq_class q = 1;
            for (ll t = 0; t < k; t++) {
                mpq_class f(n - t, t + 1);
                f.canonicalize();
                q *= f;
            }
            mpz_class b = Z(binomial(*Int(n), (unsigned long)k));
            c.eval();
            JUDGED;
            if (n >= k && k >= 1)
                c.nontrivial();
            c.outcome("b" + S(b));
            if (q.get_den() != 1 || b != q.get_num())
                c.violation(std::string("binomial(n") + sc(n) + (n >= 0 && n < k ? ",n<k" : "") + ")", s.cs.desc(i) + " = " + S(b) + ", falling-factorial definition gives " + q.get_str());
            if (k == 0 && n >= 0) {
                mpz_class f = 1;
                for (ll t = 2; t <= n; t++)
                    f *= t;
                mpz_class lf = Z(factorial((unsigned long)n));
                c.eval();
                JUDGED;
                if (lf != f)
                    c.violation("factorial", "factorial(" + S(n) + ") = " + S(lf) + ", product gives " + S(f));
            }
        };
        s.go();
        nsub++;
    }

    // ================================================================ factorisation methods
    const ll NF = T ? 5000 : 2500;
    {
        Sub s("factor-trial-division", NF + 1);
        s.cs.desc = [=](ll n) { return "factor_trial_division / factor(n=" + S(n) + ")"; };
        s.cs.body = [=](ll n, Ctx &c) {
            if (n < 1) {
                OUTSIDE;
                return;
            }
            bool comp = n >= 4 && !ref_isprime(n);
            ll spf = 0;
            for (ll d = 2; d * d <= n && !spf; d++)
                if (n % d == 0)
                    spf = d;
            for (int which = 0; which < 2; which++) {
                RCP<const Integer> f;
                std::string err, nm = which ? "factor" : "factor_trial_division";
                int rv = -9;
                bool ran = call([&] { rv = which ? factor(outArg(f), *Int(n)) : factor_trial_division(outArg(f), *Int(n)); }, err);
                c.eval();
                JUDGED;
                if (comp)
                    c.nontrivial();
                c.outcome(nm + (ran ? ":" + S(rv) : ":throw"));
                if (!ran) {
                    c.violation(nm + ":throws", nm + "(" + S(n) + ") threw " + err);
                    continue;
                }
                if ((rv != 0) != comp)
                    c.violation(nm + (comp ? "(composite):no-factor" : "(prime-or-1):claims-factor"), nm + "(" + S(n) + ") returned " + S(rv) + " but n is " + (comp ? "composite (smallest factor " + S(spf) + ")" : "not composite"));
                else if (rv != 0 && (Z(f) <= 1 || Z(f) >= n || n % Z(f).get_si() != 0))
                    c.violation(nm + ":bad-factor", nm + "(" + S(n) + ") returned factor " + S(Z(f)) + " which is not a non-trivial divisor");
            }
        };
        s.go();
        nsub++;
    }
    {
        Sub s("factor-lehman", NF + 1);
        s.cs.desc = [=](ll n) { return "factor_lehman_method(n=" + S(n) + ")"; };
        s.cs.body = [=](ll n, Ctx &c) {
            if (n < 1) {
                OUTSIDE;
                return;
            }
            RCP<const Integer> f;
            std::string err;
            int rv = -9;
            bool ran = call([&] { rv = factor_lehman_method(outArg(f), *Int(n)); }, err);
            c.eval();
            c.outcome(ran ? "r" + S(rv) : "throw");
            if (n < 21) { // documented: "Require n >= 21"
                if (ran)
                    c.violation("factor_lehman_method(n<21):no-exception", s.cs.desc(n) + " returned " + S(rv) + " instead of raising the documented exception");
                else
                    REFUSED;
                return;
            }
            JUDGED;
            bool comp = !ref_isprime(n);
            if (comp)
                c.nontrivial();
            if (!ran)
                c.violation("factor_lehman_method:throws", s.cs.desc(n) + " threw " + err);
            else if (rv != 0 && (Z(f) <= 1 || Z(f) >= n || n % Z(f).get_si() != 0))
                c.violation(std::string("factor_lehman_method(") + (comp ? "composite" : "prime") + "):bad-factor", s.cs.desc(n) + " returned " + S(rv) + " with factor " + S(Z(f)) + " which is not a non-trivial divisor");
            else if (rv == 0 && comp) {
                // Lehman's method is a complete deterministic algorithm: failure on a composite contradicts its definition
                auto fs = ref_factor(n);
                c.violation("factor_lehman_method(composite):no-factor", s.cs.desc(n) + " returned 0 but n = " + S(fs[0].first) + " * " + S(n / fs[0].first));
            }
        };
        s.go();
        nsub++;
    }
    for (int meth = 0; meth < 2; meth++) {
        // (n, seed, variant): variant 0 = default parameters, 1 = B=3 (pm1) / retries=1 (rho)
        Mixed mx{{0, 0, 0}, {NF, 3, 1}};
        std::string nm = meth ? "factor_pollard_rho_method" : "factor_pollard_pm1_method";
        Sub s(meth ? "factor-pollard-rho" : "factor-pollard-pm1", mx.total());
        s.cs.desc = [=](ll i) {
            auto v = mx.at(i);
            return nm + "(n=" + S(v[0]) + (v[2] ? (meth ? ", retries=1" : ", B=3") : "") + ") with rand()=" + S(SEEDS[v[1]]);
        };
        s.cs.crash_sig = [=](ll i, const std::string &oc) {
            auto v = mx.at(i);
            return nm + "(n=" + (v[0] <= 5 ? S(v[0]) : std::string(">5")) + "):" + oc.substr(0, oc.find(" [")); // signal class only, not the sanitizer summary
        };
        s.cs.body = [=](ll i, Ctx &c) {
            auto v = mx.at(i);
            ll n = v[0];
            if (n < 1) {
                OUTSIDE;
                return;
            }
            g_rand_value = SEEDS[v[1]];
            unsigned long rc0 = g_rand_calls;
            RCP<const Integer> f;
            std::string err;
            int rv = -9;
            bool ran = call(
                [&] {
                    if (meth)
                        rv = v[2] ? factor_pollard_rho_method(outArg(f), *Int(n), 1) : factor_pollard_rho_method(outArg(f), *Int(n));
                    else
                        rv = v[2] ? factor_pollard_pm1_method(outArg(f), *Int(n), 3) : factor_pollard_pm1_method(outArg(f), *Int(n));
                },
                err);
            c.eval();
            c.count(4, g_rand_calls - rc0);
            c.outcome(ran ? "r" + S(rv) : "throw");
            ll minn = meth ? 5 : 4; // documented: rho requires n > 4, p-1 requires n > 3
            if (n < minn) {
                if (ran)
                    c.violation(nm + "(n<" + S(minn) + "):no-exception", s.cs.desc(i) + " returned " + S(rv) + " instead of raising the documented exception");
                else
                    REFUSED;
                return;
            }
            JUDGED;
            bool comp = !ref_isprime(n);
            if (comp)
                c.nontrivial();
            if (!ran)
                c.violation(nm + ":throws", s.cs.desc(i) + " threw " + err);
            else if (rv != 0 && (Z(f) <= 1 || Z(f) >= n || n % Z(f).get_si() != 0))
                c.violation(nm + (comp ? "(composite)" : "(prime)") + ":bad-factor", s.cs.desc(i) + " returned " + S(rv) + " with factor " + S(Z(f)) + " which is not a non-trivial divisor");
            else if (rv == 0 && comp)
                GAVEUP; // probabilistic method: may fail
            if (i % 4999 == 0)
                c.sample("{\"sub\":" + jstr(s.cs.name) + ",\"n\":" + S(n) + ",\"rand\":" + S(SEEDS[v[1]]) + ",\"ret\":" + S(rv) + ",\"factor\":" + (ran && rv ? S(Z(f)) : std::string("null")) + "}");
        };
        s.go();
        nsub++;
    }

    // ================================================================ prime_factors / prime_factor_multiplicities
    {
        const ll N = T ? 50000 : 10000;
        Mixed mx{{-60}, {N}};
        Sub s("prime-factors", mx.total());
        s.cs.desc = [=](ll i) { return "prime_factors / prime_factor_multiplicities(n=" + S(mx.at(i)[0]) + ")"; };
        s.cs.body = [=](ll i, Ctx &c) {
            ll n = mx.at(i)[0];
            auto fs = ref_factor(n);
            std::vector<ll> flat;
            for (auto &pe : fs)
                for (int t = 0; t < pe.second; t++)
                    flat.push_back(pe.first);
            std::vector<RCP<const Integer>> pl;
            map_integer_uint pm;
            std::string err;
            bool ran = call(
                [&] {
                    prime_factors(pl, *Int(n));
                    prime_factor_multiplicities(pm, *Int(n));
                },
                err);
            c.eval(2);
            if (n == 0) {
                c.outcome("n=0:" + S((ll)pl.size()));
                OUTSIDE; // 0 has no factorisation: result recorded, not judged
                return;
            }
            JUDGED;
            if (fs.size() >= 2 || (fs.size() == 1 && fs[0].second > 1))
                c.nontrivial();
            c.outcome("k" + S((ll)flat.size()));
            std::string cl = std::string("(n") + sc(n) + ")";
            if (!ran) {
                c.violation("prime_factors" + cl + ":throws", s.cs.desc(i) + " threw " + err);
                return;
            }
            if (!same(pl, flat))
                c.violation("prime_factors" + cl, "prime_factors(" + S(n) + ") = " + vecstr(pl) + ", trial division gives " + vecstr(flat));
            bool ok = pm.size() == fs.size();
            size_t j = 0;
            std::string got;
            for (auto &kv : pm) {
                got += S(Z(kv.first)) + "^" + S((ll)kv.second) + " ";
                if (ok && (Z(kv.first) != fs[j].first || (int)kv.second != fs[j].second))
                    ok = false;
                j++;
            }
            if (!ok)
                c.violation("prime_factor_multiplicities" + cl, "prime_factor_multiplicities(" + S(n) + ") = {" + got + "}, trial division gives " + vecstr(flat));
        };
        s.go();
        nsub++;
    }

    // ================================================================ bernoulli, harmonic
    {
        Mixed mx{{0, -3}, {30, 4}};
        Sub s("bernoulli-harmonic", mx.total());
        s.cs.desc = [=](ll i) {
            auto v = mx.at(i);
            return "harmonic(n=" + S(v[0]) + ", m=" + S(v[1]) + ")" + (v[1] == 1 ? " / bernoulli(" + S(v[0]) + ")" : "");
        };
        s.cs.body = [=](ll i, Ctx &c) {
            auto v = mx.at(i);
            ll n = v[0], m = v[1];
            auto toq = [&](const RCP<const Number> &x, mpq_class &q) {
                if (is_a<Integer>(*x)) {
                    q = mpq_class(Z(down_cast<const Integer &>(*x)));
                    return true;
                }
                if (is_a<Rational>(*x)) {
                    q = to_mpq(down_cast<const Rational &>(*x).as_rational_class());
                    return true;
                }
                return false;
            };
            mpq_class want = 0, got;
            for (ll t = 1; t <= n; t++) {
                mpq_class p = 1;
                for (ll e = 0; e < absll(m); e++)
                    p *= t;
                want += m >= 0 ? 1 / p : p;
            }
            RCP<const Number> h = harmonic((unsigned long)n, (long)m);
            c.eval();
            JUDGED;
            if (n >= 2)
                c.nontrivial();
            c.outcome("h" + sstr(h).substr(0, 12));
            if (!toq(h, got) || got != want)
                c.violation(std::string("harmonic(m") + sc(m) + (m == 1 ? ",m=1" : "") + ")", s.cs.desc(i) + " = " + sstr(h) + ", sum of 1/i^m gives " + want.get_str());
            if (m != 1)
                return;
            // Bernoulli numbers from sum_{k=0}^{n} C(n+1,k) B_k = 0 (n >= 1), B_0 = 1  [gives B_1 = -1/2]
            std::vector<mpq_class> B(n + 1);
            B[0] = 1;
            for (ll t = 1; t <= n; t++) {
                mpq_class sum = 0, bin = 1; // bin = C(t+1, k)
                for (ll k = 0; k < t; k++) {
                    sum += bin * B[k];
                    {
                        mpq_class f(t + 1 - k, k + 1);
                        f.canonicalize();
                        bin = bin * f;
                    }
                }
                B[t] = -sum / (t + 1);
            }
            RCP<const Number> b = bernoulli((unsigned long)n);
            c.eval();
            c.outcome("B" + sstr(b).substr(0, 12));
            mpq_class bq;
            if (n == 1) { // sign convention of B_1 is not fixed by the documentation: +-1/2 accepted
                JUDGED;
                if (!toq(b, bq) || abs(bq) != mpq_class(1, 2))
                    c.violation("bernoulli(1)", "bernoulli(1) = " + sstr(b) + ", expected +-1/2");
                return;
            }
            JUDGED;
            if (!toq(b, bq) || bq != B[n])
                c.violation(std::string("bernoulli(") + (n % 2 ? "odd" : "even") + ")", "bernoulli(" + S(n) + ") = " + sstr(b) + ", defining recurrence gives " + B[n].get_str());
        };
        s.go();
        nsub++;
    }

    // ================================================================ primitive roots, totient, carmichael
    const ll NG = T ? 400 : 200;
    {
        Mixed mx{{-NG}, {NG}};
        Sub s("primitive-root-totient", mx.total());
        s.cs.desc = [=](ll i) { return "primitive_root / primitive_root_list / totient / carmichael(n=" + S(mx.at(i)[0]) + ")"; };
        s.cs.body = [=](ll i, Ctx &c) {
            ll n0 = mx.at(i)[0], n = absll(n0);
            RCP<const Integer> N0 = Int(n0);
            std::string err;
            mpz_class ph, la;
            bool ran = call(
                [&] {
                    ph = Z(totient(N0));
                    la = Z(carmichael(N0));
                },
                err);
            c.eval(2);
            if (n == 0) {
                c.outcome("totient(0)=" + S(ph) + ",carmichael(0)=" + S(la));
                OUTSIDE; // no agreed definition at 0
                return;
            }
            std::string cl = std::string("(n") + sc(n0) + ")";
            if (!ran) {
                c.violation("totient/carmichael" + cl + ":throws", s.cs.desc(i) + " threw " + err);
                return;
            }
            ll phi = ref_totient(n), lam = 1;
            std::vector<ll> units, prim;
            for (ll g = (n == 1 ? 0 : 1); g < n || (n == 1 && g == 0); g++)
                if (ref_gcd(g, n) == 1) {
                    units.push_back(g);
                    ll o = ref_order(g, n);
                    lam = ref_lcm(lam, o);
                    if (o == phi)
                        prim.push_back(g);
                }
            JUDGED;
            if (ph != phi)
                c.violation("totient" + cl, "totient(" + S(n0) + ") = " + S(ph) + ", counting units gives " + S(phi));
            JUDGED;
            if (la != lam)
                c.violation("carmichael" + cl, "carmichael(" + S(n0) + ") = " + S(la) + ", lcm of the orders of all units gives " + S(lam));
            if (n <= 1) {
                OUTSIDE; // primitive roots of the trivial ring: not judged
                return;
            }
            RCP<const Integer> g;
            bool has = false;
            std::vector<RCP<const Integer>> lst;
            ran = call(
                [&] {
                    has = primitive_root(outArg(g), *N0);
                    primitive_root_list(lst, *N0);
                },
                err);
            c.eval(2);
            JUDGED;
            if (!prim.empty() && n > 4)
                c.nontrivial();
            c.outcome(std::string("pr") + (has ? "1" : "0") + ",k" + S((ll)lst.size()));
            std::string kind = prim.empty() ? "no-root" : ref_isprime(n) ? "prime" : n % 2 == 0 ? (n <= 4 ? "2-or-4" : "2p^k") : "p^k";
            if (!ran) {
                c.violation("primitive_root(" + kind + "):throws", s.cs.desc(i) + " threw " + err);
                return;
            }
            if (has != !prim.empty())
                c.violation("primitive_root(" + kind + "):existence", "primitive_root(" + S(n0) + ") returned " + S(has) + " but " + (prim.empty() ? "no primitive root exists" : "primitive roots exist, e.g. " + S(prim[0])));
            else if (has) {
                mpz_class gm = Z(g) % n;
                if (gm < 0)
                    gm += n;
                if (std::find(prim.begin(), prim.end(), gm.get_si()) == prim.end())
                    c.violation("primitive_root(" + kind + "):not-a-root", "primitive_root(" + S(n0) + ") = " + S(Z(g)) + " whose order mod n is not phi(n)=" + S(phi) + "; roots are " + vecstr(prim));
                else if (ref_isprime(n) && Z(g) != prim[0])
                    c.violation("primitive_root(prime):not-smallest", "primitive_root(" + S(n0) + ") = " + S(Z(g)) + " but the documented smallest root is " + S(prim[0]));
            }
            JUDGED;
            if (!same(lst, prim))
                c.violation("primitive_root_list(" + kind + ")", "primitive_root_list(" + S(n0) + ") = " + vecstr(lst) + ", brute force gives " + vecstr(prim));
            if (i % 61 == 0)
                c.sample("{\"sub\":\"primitive-root-totient\",\"n\":" + S(n0) + ",\"totient\":" + S(ph) + ",\"carmichael\":" + S(la) + ",\"roots\":" + S((ll)lst.size()) + "}");
        };
        s.go();
        nsub++;
    }
    {
        // (n, a) with a in [-3, |n|+2]
        Mixed mx{{-30, -3}, {NG, NG + 2}};
        Tab tb(mx, [=](const std::vector<ll> &v) { return v[0] != 0 && v[1] <= absll(v[0]) + 2; });
        Sub s("multiplicative-order", tb.total());
        s.cs.desc = [=](ll i) {
            auto v = tb.at(i);
            return "multiplicative_order(a=" + S(v[1]) + ", n=" + S(v[0]) + ")";
        };
        s.cs.body = [=](ll i, Ctx &c) {
            auto v = tb.at(i);
            ll n0 = v[0], a = v[1], n = absll(n0);
            if (n0 == 0 || a > n + 2) {
                OUTSIDE;
                return;
            }
            RCP<const Integer> o;
            bool rv = false;
            std::string err;
            bool ran = call([&] { rv = multiplicative_order(outArg(o), Int(a), Int(n0)); }, err);
            c.eval();
            JUDGED;
            bool cop = ref_gcd(a, n) == 1;
            if (cop && n > 2)
                c.nontrivial();
            std::string cl = std::string("multiplicative_order(a") + sc(a) + ",n" + sc(n0) + ")";
            c.outcome(!ran ? "throw" : rv ? "o" + S(Z(o)) : "none");
            if (!ran)
                c.violation(cl + ":throws", s.cs.desc(i) + " threw " + err);
            else if (rv != cop)
                c.violation(cl + ":existence", s.cs.desc(i) + " returned " + S(rv) + " but gcd(a,n) = " + S(ref_gcd(a, n)));
            else if (rv && Z(o) != ref_order(a, n))
                c.violation(cl + ":value", s.cs.desc(i) + " = " + S(Z(o)) + ", the smallest k>0 with a^k=1 is " + S(ref_order(a, n)));
        };
        s.go();
        nsub++;
    }

    // ================================================================ legendre / jacobi / kronecker
    {
        const ll A = T ? 60 : 24, NN = T ? 151 : 61;
        Mixed mx{{-A, -NN}, {A, NN}};
        Sub s("legendre-jacobi-kronecker", mx.total());
        s.cs.desc = [=](ll i) {
            auto v = mx.at(i);
            return "(a=" + S(v[0]) + ", n=" + S(v[1]) + ")";
        };
        s.cs.body = [=](ll i, Ctx &c) {
            auto v = mx.at(i);
            ll a = v[0], n = v[1];
            int want = ref_kronecker(a, n);
            int k = kronecker(*Int(a), *Int(n));
            c.eval();
            JUDGED;
            if (want != 0 && absll(n) > 2)
                c.nontrivial();
            c.outcome("k" + S(k));
            if (k != want)
                c.violation(std::string("kronecker(a") + sc(a) + ",n" + sc(n) + (n % 2 == 0 ? ",even" : ",odd") + ")", "kronecker" + s.cs.desc(i) + " = " + S(k) + ", definition gives " + S(want));
            if (n > 0 && n % 2 == 1) {
                int j = jacobi(*Int(a), *Int(n));
                c.eval();
                JUDGED;
                if (j != want)
                    c.violation(std::string("jacobi(a") + sc(a) + ")", "jacobi" + s.cs.desc(i) + " = " + S(j) + ", product of Legendre symbols gives " + S(want));
                if (n > 2 && ref_isprime(n)) {
                    int l = legendre(*Int(a), *Int(n));
                    c.eval();
                    JUDGED;
                    if (l != ref_legendre(a, n))
                        c.violation(std::string("legendre(a") + sc(a) + ")", "legendre" + s.cs.desc(i) + " = " + S(l) + ", quadratic-residue definition gives " + S(ref_legendre(a, n)));
                }
            }
        };
        s.go();
        nsub++;
    }

    // ================================================================ nthroot_mod / nthroot_mod_list
    auto mclass = [](ll m) { // coarse class of a modulus for signatures
        m = m < 0 ? -m : m;
        return m == 0 ? std::string("m=0") : m == 1 ? std::string("m=1") : m % 4 == 0 ? std::string("4|m") : m % 2 == 0 ? std::string("m=2 mod 4") : std::string("odd m");
    };
    {
        const ll MM = T ? 256 : 72, NN = T ? 10 : 6;
        Mixed mx{{-2, 1, -3}, {MM, NN, MM + 2}};
        Tab tb(mx, [=](const std::vector<ll> &v) { return !(v[2] > v[0] + 2 && v[0] > 0); });
        Sub s("nthroot_mod", tb.total());
        s.cs.desc = [=](ll i) {
            auto v = tb.at(i);
            return "nthroot_mod(_list)(a=" + S(v[2]) + ", n=" + S(v[1]) + ", m=" + S(v[0]) + ")";
        };
        s.cs.crash_sig = [=](ll i, const std::string &oc) {
            auto v = tb.at(i);
            return "nthroot_mod(a" + std::string(sc(v[2])) + "," + mclass(v[0]) + "):" + oc.substr(0, oc.find(" ["));
        };
        s.cs.body = [=](ll i, Ctx &c) {
            auto v = tb.at(i);
            ll m = v[0], n = v[1], a = v[2];
            if (a > m + 2 && m > 0) {
                OUTSIDE;
                return;
            }
            std::vector<RCP<const Integer>> lst;
            RCP<const Integer> r;
            bool has = false;
            std::string err;
            bool ran = call(
                [&] {
                    nthroot_mod_list(lst, Int(a), Int(n), Int(m));
                    has = nthroot_mod(outArg(r), Int(a), Int(n), Int(m));
                },
                err);
            c.eval(2);
            if (m <= 0) { // no residue ring: documented result "no solution"
                JUDGED;
                if (!ran || has || !lst.empty())
                    c.violation("nthroot_mod(m<=0)", s.cs.desc(i) + " should report no solution for a non-positive modulus; got " + (ran ? vecstr(lst) + "/" + S(has) : err));
                return;
            }
            auto want = ref_roots(a, n, m);
            JUDGED;
            if (want.size() > 1)
                c.nontrivial();
            std::string acl = a < 0 ? "a<0" : a >= m ? "a>=m" : "0<=a<m";
            std::string cl = "(" + acl + "," + mclass(m) + ")";
            c.outcome("r" + S((ll)lst.size()) + (has ? "y" : "n"));
            if (!ran) {
                c.violation("nthroot_mod" + cl + ":throws", s.cs.desc(i) + " threw " + err);
                return;
            }
            if (!same(lst, want)) {
                // distinguish a wrong solution set (as residue classes) from a right set in non-canonical form
                std::vector<ll> red;
                for (auto &x : lst) {
                    mpz_class t = Z(x) % m;
                    if (t < 0)
                        t += m;
                    red.push_back(t.get_si());
                }
                std::sort(red.begin(), red.end());
                bool dup = std::adjacent_find(red.begin(), red.end()) != red.end();
                if (red == want && !dup)
                    c.violation("nthroot_mod_list" + cl + ":non-canonical-representatives", "nthroot_mod_list(a=" + S(a) + ",n=" + S(n) + ",m=" + S(m) + ") = " + vecstr(lst) + ": right residue classes but not the sorted representatives in [0,m) " + vecstr(want));
                else
                    c.violation("nthroot_mod_list" + cl + ":wrong-solution-set", "nthroot_mod_list(a=" + S(a) + ",n=" + S(n) + ",m=" + S(m) + ") = " + vecstr(lst) + ", all x in [0,m) with x^n=a are " + vecstr(want));
            }
            JUDGED;
            if (has != !want.empty())
                c.violation("nthroot_mod" + cl + ":existence", "nthroot_mod(a=" + S(a) + ",n=" + S(n) + ",m=" + S(m) + ") returned " + S(has) + " but the solutions are " + vecstr(want));
            else if (has) {
                mpz_class rm = Z(r) % m;
                if (rm < 0)
                    rm += m;
                if (std::find(want.begin(), want.end(), rm.get_si()) == want.end())
                    c.violation("nthroot_mod" + cl + ":value", "nthroot_mod(a=" + S(a) + ",n=" + S(n) + ",m=" + S(m) + ") = " + S(Z(r)) + " is not a solution; solutions are " + vecstr(want));
            }
            if (i % 7919 == 0)
                c.sample("{\"sub\":\"nthroot_mod\",\"a\":" + S(a) + ",\"n\":" + S(n) + ",\"m\":" + S(m) + ",\"roots\":" + jstr(vecstr(lst)) + "}");
        };
        s.go();
        nsub++;
    }
    {
        // square roots modulo primes p = 1 (mod 8) above 10000: the only way into _sqrt_mod_tonelli_shanks (random non-residue)
        std::vector<ll> ps;
        for (ll p = 10001; ps.size() < (T ? 12u : 5u); p += 2)
            if (p % 8 == 1 && ref_isprime(p))
                ps.push_back(p);
        ps.push_back(12289); // 3*2^12+1
        ps.push_back(40961); // 5*2^13+1
        ps.push_back(65537); // 2^16+1
        const ll AA = T ? 60 : 30;
        Mixed mx{{0, 0, 1}, {(ll)ps.size() - 1, 3, AA}};
        Sub s("sqrt-mod-large-prime", mx.total());
        s.cs.desc = [=](ll i) {
            auto v = mx.at(i);
            return "nthroot_mod(a=" + S(v[2]) + ", n=2, m=" + S(ps[v[0]]) + ") with rand()=" + S(SEEDS[v[1]]);
        };
        s.cs.body = [=](ll i, Ctx &c) {
            auto v = mx.at(i);
            ll p = ps[v[0]], a = v[2];
            g_rand_value = SEEDS[v[1]];
            unsigned long rc0 = g_rand_calls;
            RCP<const Integer> r;
            bool has = false;
            std::string err;
            bool ran = call([&] { has = nthroot_mod(outArg(r), Int(a), Int(2), Int(p)); }, err);
            c.eval();
            c.count(4, g_rand_calls - rc0); // > 0 only when _sqrt_mod_tonelli_shanks was entered
            JUDGED;
            c.nontrivial();
            int leg = ref_legendre(a, p);
            c.outcome(std::string("L") + S(leg) + (has ? "y" : "n"));
            if (!ran)
                c.violation("nthroot_mod(n=2,p=1 mod 8,p>10000):throws", s.cs.desc(i) + " threw " + err);
            else if (has != (leg >= 0))
                c.violation("nthroot_mod(n=2,p=1 mod 8,p>10000):existence", s.cs.desc(i) + " returned " + S(has) + " but a is " + (leg >= 0 ? "a" : "not a") + " quadratic residue");
            else if (has && (Z(r) * Z(r) - a) % p != 0)
                c.violation("nthroot_mod(n=2,p=1 mod 8,p>10000):value", s.cs.desc(i) + " = " + S(Z(r)) + " whose square is not a mod p");
        };
        s.go();
        nsub++;
    }

    // ================================================================ powermod / powermod_list
    {
        const ll MM = T ? 64 : 30;
        // exponents: integers -3..3 and r/s with s in 2..4, r in -3..3 coprime to s
        std::vector<std::pair<ll, ll>> ex;
        for (ll r = -3; r <= 3; r++)
            ex.push_back({r, 1});
        for (ll sden = 2; sden <= 4; sden++)
            for (ll r = -3; r <= 3; r++)
                if (r != 0 && ref_gcd(r, sden) == 1)
                    ex.push_back({r, sden});
        Mixed mx{{1, 0, -2}, {MM, (ll)ex.size() - 1, MM + 1}};
        Tab tb(mx, [=](const std::vector<ll> &v) { return v[2] <= v[0] + 1; });
        Sub s("powermod", tb.total());
        s.cs.desc = [=](ll i) {
            auto v = tb.at(i);
            return "powermod(_list)(a=" + S(v[2]) + ", b=" + S(ex[v[1]].first) + (ex[v[1]].second == 1 ? "" : "/" + S(ex[v[1]].second)) + ", m=" + S(v[0]) + ")";
        };
        s.cs.body = [=](ll i, Ctx &c) {
            auto v = tb.at(i);
            ll m = v[0], a = v[2], r = ex[v[1]].first, sd = ex[v[1]].second;
            if (a > m + 1) {
                OUTSIDE;
                return;
            }
            // definition: all x in [0,m) with x^s == a^r (mod m); a^r for r<0 is (a^-1)^|r| and needs a unit
            bool defined = true;
            ll base = fmod_ll(a, m);
            if (r < 0) {
                ll inv = -1;
                for (ll x = 0; x < m; x++)
                    if (fmod_ll(base * x - 1, m) == 0) {
                        inv = x;
                        break;
                    }
                if (inv < 0)
                    defined = false;
                base = inv;
            }
            std::vector<ll> want;
            if (defined) {
                ll target = powmod(base, absll(r), m);
                want = ref_roots(target, sd, m);
            }
            RCP<const Number> b = sd == 1 ? rcp_static_cast<const Number>(Int(r)) : Rational::from_two_ints(*Int(r), *Int(sd));
            std::vector<RCP<const Integer>> lst;
            RCP<const Integer> pw;
            bool has = false;
            std::string err;
            bool ran = call(
                [&] {
                    powermod_list(lst, Int(a), b, Int(m));
                    has = powermod(outArg(pw), Int(a), b, Int(m));
                },
                err);
            c.eval(2);
            JUDGED;
            if (sd > 1 && !want.empty())
                c.nontrivial();
            std::string cl = std::string("(b") + (sd == 1 ? "=integer" : "=rational") + sc(r) + ",a" + sc(a) + "," + mclass(m) + (defined ? "" : ",a-not-invertible") + ")";
            c.outcome("p" + S((ll)lst.size()) + (has ? "y" : "n"));
            if (!ran) {
                c.violation("powermod" + cl + ":throws", s.cs.desc(i) + " threw " + err);
                return;
            }
            if (!same(lst, want)) {
                std::vector<ll> red;
                for (auto &x : lst) {
                    mpz_class t = Z(x) % m;
                    if (t < 0)
                        t += m;
                    red.push_back(t.get_si());
                }
                std::sort(red.begin(), red.end());
                bool dup = std::adjacent_find(red.begin(), red.end()) != red.end();
                c.violation("powermod_list" + cl + (red == want && !dup ? ":non-canonical-representatives" : ":wrong-solution-set"), s.cs.desc(i) + ": list = " + vecstr(lst) + ", definition gives " + vecstr(want));
            }
            JUDGED;
            if (has != !want.empty())
                c.violation("powermod" + cl + ":existence", s.cs.desc(i) + ": powermod returned " + S(has) + " but the solutions are " + vecstr(want));
            else if (has) {
                mpz_class rm = Z(pw) % m;
                if (rm < 0)
                    rm += m;
                if (std::find(want.begin(), want.end(), rm.get_si()) == want.end())
                    c.violation("powermod" + cl + ":value", s.cs.desc(i) + ": powermod = " + S(Z(pw)) + " is not a solution; solutions are " + vecstr(want));
            }
        };
        s.go();
        nsub++;
    }

    // ================================================================ quadratic_residues, is_quad_residue, is_nth_residue
    {
        const ll N = 300;
        Sub s("quadratic_residues", N + 2);
        s.cs.desc = [=](ll i) { return "quadratic_residues(" + S(i - 1) + ")"; };
        s.cs.body = [=](ll i, Ctx &c) {
            ll a = i - 1;
            std::set<ll> sq;
            for (ll x = 0; x < a; x++)
                sq.insert(x * x % a);
            std::vector<ll> want(sq.begin(), sq.end());
            vec_integer_class got;
            std::string err;
            bool ran = call([&] { got = quadratic_residues(*Int(a)); }, err);
            c.eval();
            if (a < 1) {
                if (ran)
                    c.violation("quadratic_residues(a<1):no-exception", s.cs.desc(i) + " returned instead of raising the documented exception");
                else
                    REFUSED;
                return;
            }
            JUDGED;
            c.nontrivial();
            c.outcome("q" + S((ll)got.size()));
            std::vector<ll> g;
            for (auto &x : got)
                g.push_back(Z(x).get_si());
            if (!ran || g != want)
                c.violation("quadratic_residues", s.cs.desc(i) + " = " + (ran ? vecstr(g) : err) + ", squares mod a are " + vecstr(want));
        };
        s.go();
        nsub++;
    }
    {
        const ll A = T ? 60 : 40, PP = T ? 120 : 72;
        Mixed mx{{-PP, -A}, {PP, A}};
        Sub s("is_quad_residue", mx.total());
        s.cs.desc = [=](ll i) {
            auto v = mx.at(i);
            return "is_quad_residue(a=" + S(v[1]) + ", p=" + S(v[0]) + ")";
        };
        s.cs.body = [=](ll i, Ctx &c) {
            auto v = mx.at(i);
            ll p = v[0], a = v[1];
            bool got = false;
            std::string err;
            bool ran = call([&] { got = is_quad_residue(*Int(a), *Int(p)); }, err);
            c.eval();
            if (p == 0) {
                if (ran)
                    c.violation("is_quad_residue(p=0):no-exception", s.cs.desc(i) + " returned instead of raising the documented exception");
                else
                    REFUSED;
                return;
            }
            JUDGED;
            bool want = !ref_roots(a, 2, absll(p)).empty();
            if (absll(p) > 2)
                c.nontrivial();
            c.outcome(got ? "Q" : "N");
            std::string cl = std::string("is_quad_residue(a") + sc(a) + ",p" + sc(p) + "," + mclass(p) + ")";
            if (!ran)
                c.violation(cl + ":throws", s.cs.desc(i) + " threw " + err);
            else if (got != want)
                c.violation(cl, s.cs.desc(i) + " = " + S(got) + ", but a mod |p| is " + (want ? "" : "not ") + "a square mod |p|");
        };
        s.go();
        nsub++;
    }
    {
        const ll MM = T ? 160 : 72, NN = 6;
        Mixed mx{{-MM, 1, -6}, {MM, NN, MM + 2}};
        Tab tb(mx, [=](const std::vector<ll> &v) { return v[2] <= absll(v[0]) + 2; });
        Sub s("is_nth_residue", tb.total());
        s.cs.desc = [=](ll i) {
            auto v = tb.at(i);
            return "is_nth_residue(a=" + S(v[2]) + ", n=" + S(v[1]) + ", mod=" + S(v[0]) + ")";
        };
        s.cs.body = [=](ll i, Ctx &c) {
            auto v = tb.at(i);
            ll m = v[0], n = v[1], a = v[2];
            if (a > absll(m) + 2) {
                OUTSIDE;
                return;
            }
            bool got = false;
            std::string err;
            bool ran = call([&] { got = is_nth_residue(*Int(a), *Int(n), *Int(m)); }, err);
            c.eval();
            JUDGED;
            c.outcome(got ? "R" : "N");
            std::string acl = a < 0 ? "a<0" : a >= absll(m) ? "a>=|m|" : "0<=a<|m|";
            std::string cl = std::string("is_nth_residue(") + acl + ",mod" + sc(m) + "," + mclass(m) + ")";
            if (!ran) {
                c.violation(cl + ":throws", s.cs.desc(i) + " threw " + err);
                return;
            }
            bool want = m == 0 ? false : !ref_roots(a, n, absll(m)).empty(); // mod = 0: documented false
            if (absll(m) > 2)
                c.nontrivial();
            if (got != want)
                c.violation(cl, s.cs.desc(i) + " = " + S(got) + ", but a mod |mod| is " + (want ? "" : "not ") + "an n-th power residue (definition: a % mod in {i^n % mod})");
        };
        s.go();
        nsub++;
    }

    // ================================================================ mobius / mertens
    {
        const ll N = T ? 2000 : 1000;
        Mixed mx{{-2}, {N}};
        Sub s("mobius-mertens", mx.total());
        s.cs.desc = [=](ll i) { return "mobius / mertens(" + S(mx.at(i)[0]) + ")"; };
        s.cs.body = [=](ll i, Ctx &c) {
            ll n = mx.at(i)[0];
            auto mu = [&](ll k) {
                int r = 1;
                for (auto &pe : ref_factor(k)) {
                    if (pe.second > 1)
                        return 0;
                    r = -r;
                }
                return r;
            };
            int got = 0;
            std::string err;
            bool ran = call([&] { got = mobius(*Int(n)); }, err);
            c.eval();
            if (n <= 0) {
                if (ran)
                    c.violation("mobius(n<=0):no-exception", s.cs.desc(i) + " returned instead of raising the documented exception");
                else
                    REFUSED;
            } else {
                JUDGED;
                c.nontrivial();
                c.outcome("mu" + S(got));
                if (!ran || got != mu(n))
                    c.violation("mobius", "mobius(" + S(n) + ") = " + (ran ? S(got) : err) + ", definition gives " + S(mu(n)));
            }
            if (n >= 0 && (n <= 300 || n % 50 == 0)) { // mertens is quadratic: every n <= 300, then every 50th
                ll M = 0;
                for (ll k = 1; k <= n; k++)
                    M += mu(k);
                long gm = mertens((unsigned long)n);
                c.eval();
                JUDGED;
                if (gm != M)
                    c.violation("mertens", "mertens(" + S(n) + ") = " + S((ll)gm) + ", sum of mobius gives " + S(M));
            }
        };
        s.go();
        nsub++;
    }

    // ================================================================ polygonal numbers and roots
    {
        const ll SS = 14, NN = T ? 120 : 60;
        Mixed mx{{1, -1}, {SS, NN}};
        Sub s("polygonal", mx.total());
        s.cs.desc = [=](ll i) {
            auto v = mx.at(i);
            return "polygonal_number / principal_polygonal_root(s=" + S(v[0]) + ", n or x=" + S(v[1]) + ")";
        };
        s.cs.body = [=](ll i, Ctx &c) {
            auto v = mx.at(i);
            ll sd = v[0], n = v[1];
            // definition: n-th s-gonal number = sum of the first n terms of 1, 1+(s-2), 1+2(s-2), ...
            auto P = [&](ll k) {
                ll t = 0;
                for (ll j = 0; j < k; j++)
                    t += 1 + j * (sd - 2);
                return t;
            };
            std::string err;
            RCP<const Basic> pn, pr;
            bool ran = call([&] { pn = polygonal_number(Int(sd), Int(n)); }, err);
            bool ran2 = call([&] { pr = principal_polygonal_root(Int(sd), Int(n)); }, err);
            c.eval(2);
            if (sd < 3 || n < 1) { // documented DomainError
                if (ran || ran2)
                    c.violation("polygonal(s<3 or n<1):no-exception", s.cs.desc(i) + " returned instead of raising the documented DomainError");
                else
                    REFUSED;
                return;
            }
            JUDGED;
            c.nontrivial();
            mpz_class mpn = Z(mp_polygonal_number(integer_class(sd), integer_class(n)));
            c.eval();
            if (!ran || !is_a<Integer>(*pn) || Z(down_cast<const Integer &>(*pn)) != P(n) || mpn != P(n))
                c.violation("polygonal_number", "polygonal_number(s=" + S(sd) + ",n=" + S(n) + ") = " + (ran ? sstr(pn) : err) + " / mp_polygonal_number = " + S(mpn) + ", dot-counting definition gives " + S(P(n)));
            // root of x = n: the k with P(k) = x if x is s-gonal; in general the largest k with P(k) <= x (floor of the real root)
            ll k = 1;
            while (P(k + 1) <= n)
                k++;
            bool exact = P(k) == n;
            mpz_class mpr = Z(mp_principal_polygonal_root(integer_class(sd), integer_class(n)));
            c.eval();
            JUDGED;
            c.outcome(std::string("root") + (exact ? "=" : "~"));
            if (!ran2 || !is_a<Integer>(*pr) || Z(down_cast<const Integer &>(*pr)) != k || mpr != k)
                c.violation(std::string("principal_polygonal_root(") + (exact ? "x polygonal" : "x not polygonal") + ")", "principal_polygonal_root(s=" + S(sd) + ",x=" + S(n) + ") = " + (ran2 ? sstr(pr) : err) + " / mp_ = " + S(mpr) + ", expected " + S(k) + (exact ? " (P(k) = x)" : " (largest k with P(k) <= x)"));
            // inverse property on the polygonal number itself
            mpz_class back = Z(mp_principal_polygonal_root(integer_class(sd), integer_class(std::to_string(P(n)))));
            c.eval();
            JUDGED;
            if (back != n)
                c.violation("principal_polygonal_root(x polygonal)", "principal_polygonal_root(s=" + S(sd) + ", x=P(s," + S(n) + ")=" + S(P(n)) + ") = " + S(back) + ", expected " + S(n));
        };
        s.go();
        nsub++;
    }

    // ================================================================ perfect power decomposition
    {
        const ll N = T ? 50000 : 10000;
        // big cases: b^e and b^e +- 1 for large b (beyond the exhaustive range), fixed boundary list
        std::vector<std::pair<mpz_class, std::pair<mpz_class, ll>>> big; // (n, (base, exp)) with exp the highest exponent, base not a perfect power
        std::vector<std::string> bases = {"1000000007", "2147483647", "4294967297", "18446744073709551629", "99999999977", "6", "10", "12"};
        for (auto &bs : bases)
            for (ll e : {2, 3, 5, 7, 12}) {
                mpz_class b(bs), n;
                if ((ll)mpz_sizeinbase(b.get_mpz_t(), 2) * e > (T ? 230 : 130))
                    continue; // the library's search is cubic in the bit length

                mpz_pow_ui(n.get_mpz_t(), b.get_mpz_t(), e);
                big.push_back({n, {b, e}});
                big.push_back({n + 1, {n + 1, 1}}); // by Mihailescu's theorem b^e +- 1 is not a perfect power here
                big.push_back({n - 1, {n - 1, 1}});
            }
        const ll NB = big.size();
        (void)NB;
        Sub s("perfect-power", N + 1 + NB);
        s.cs.desc = [=](ll i) { return "mp_perfect_power_decomposition(n=" + (i <= N ? S(i) : S(big[i - N - 1].first)) + ")"; };
        s.cs.body = [=](ll i, Ctx &c) {
            if (i < 2) {
                OUTSIDE; // 0 and 1 are b^e for every e: "highest exponent" undefined
                return;
            }
            mpz_class n, wb_hi, wb_lo;
            ll we_hi = 1, we_lo = 1;
            if (i <= N) {
                n = i;
                wb_hi = wb_lo = n;
                // brute force: every base b >= 2 and exponent e >= 2 with b^e == n
                for (ll b = 2; b * b <= i; b++) {
                    ll p = b * b, e = 2;
                    while (p < i) {
                        p *= b;
                        e++;
                    }
                    if (p == i) {
                        if (e > we_hi) {
                            we_hi = e;
                            wb_hi = b;
                        }
                        if (we_lo == 1 || e < we_lo) {
                            we_lo = e;
                            wb_lo = b;
                        }
                    }
                }
            } else {
                auto &bg = big[i - N - 1];
                n = bg.first;
                wb_hi = bg.second.first;
                we_hi = bg.second.second;
                // lowest exponent >= 2: smallest prime factor of the highest exponent
                we_lo = 1;
                wb_lo = n;
                if (we_hi > 1) {
                    ll q = ref_factor(we_hi)[0].first;
                    we_lo = q;
                    mpz_pow_ui(wb_lo.get_mpz_t(), wb_hi.get_mpz_t(), we_hi / q);
                }
            }
            auto hi = mp_perfect_power_decomposition(integer_class(n.get_str()), false);
            auto lo = mp_perfect_power_decomposition(integer_class(n.get_str()), true);
            c.eval(2);
            JUDGED;
            if (we_hi > 1)
                c.nontrivial();
            c.outcome("e" + S(Z(hi.second)) + "/" + S(Z(lo.second)));
            std::string cl = std::string(we_hi > 1 ? "perfect power" : "not a perfect power") + (i > N ? ",big" : "");
            if (Z(hi.first) != wb_hi || Z(hi.second) != we_hi)
                c.violation("mp_perfect_power_decomposition(" + cl + ",highest)", s.cs.desc(i) + " = (" + S(Z(hi.first)) + "," + S(Z(hi.second)) + "), expected (" + S(wb_hi) + "," + S(we_hi) + ")");
            JUDGED;
            if (Z(lo.first) != wb_lo || Z(lo.second) != we_lo)
                c.violation("mp_perfect_power_decomposition(" + cl + ",lowest)", s.cs.desc(i) + " with lowest_exponent = (" + S(Z(lo.first)) + "," + S(Z(lo.second)) + "), expected (" + S(wb_lo) + "," + S(we_lo) + ")");
        };
        s.go();
        nsub++;
    }

    // ================================================================ nextprime / probab_prime_p
    {
        const ll N = T ? 50000 : 10000;
        // Carmichael numbers, strong pseudoprimes (to bases 2; 2,3; 2,3,5; 2,3,5,7; first 8+ prime bases), Lucas / Fibonacci pseudoprimes,
        // squares of primes, and primes / composites around 2^31, 2^32, 2^64
        std::vector<std::string> special
            = {"561", "1105", "1729", "2465", "2821", "6601", "8911", "41041", "62745", "63973", "75361", "101101", "126217", "162401", "172081", "188461", "252601", "294409", "340561",
               "2047", "3277", "4033", "4681", "8321", "1373653", "25326001", "3215031751", "2152302898747", "3474749660383", "341550071728321", "3825123056546413051",
               "318665857834031151167461", "3317044064679887385961981", "323", "377", "1159", "5777", "10877", "2147483647", "2147483649", "4294967291", "4294967297", "18446744073709551557", "18446744073709551615",
               "1000000007", "1000000016000000063", "999999866000004473"};
        const ll NS = special.size();
        Sub s("primality", N + 4 + NS);
        s.cs.desc = [=](ll i) { return "nextprime / probab_prime_p(" + (i < N + 4 ? S(i - 3) : special[i - N - 4]) + ")"; };
        s.cs.body = [=](ll i, Ctx &c) {
            if (i >= N + 4) {
                mpz_class z(special[i - N - 4]);
                // reference primality by trial division (up to 2^32 steps would be too slow: GMP-free 64-bit loop only for < 2^50, else via known factor)
                bool prime = true;
                std::string wit;
                if (z.fits_ulong_p() && z < mpz_class("1125899906842624")) {
                    unsigned long n = z.get_ui();
                    for (unsigned long d = 2; d * d <= n; d++)
                        if (n % d == 0) {
                            prime = false;
                            wit = S((ll)d);
                            break;
                        }
                } else {
                    // big entries: decide with a known non-trivial divisor or a stated primality certificate from the literature
                    static const std::map<std::string, std::string> known = {
                        {"3825123056546413051", "149491"}, // = 149491 * 747451 * 34233211
                        {"318665857834031151167461", "399165290221"},
                        {"3317044064679887385961981", "1287836182261"},
                        {"18446744073709551557", ""},       // largest prime below 2^64
                        {"18446744073709551615", "3"},
                        {"1000000016000000063", "1000000007"}, // 1000000007 * 1000000009
                        {"999999866000004473", "999999929"},   // 999999929 * 999999937
                    };
                    auto it = known.find(special[i - N - 4]);
                    if (it == known.end()) {
                        OUTSIDE;
                        return;
                    }
                    if (!it->second.empty()) {
                        mpz_class d(it->second);
                        if (z % d != 0) {
                            OUTSIDE; // my table is wrong: do not judge
                            return;
                        }
                        prime = false;
                        wit = it->second;
                    }
                }
                int pp = probab_prime_p(*IZ(z));
                c.eval();
                JUDGED;
                c.nontrivial();
                c.outcome("special" + S(pp));
                if ((pp > 0) != prime)
                    c.violation(std::string("probab_prime_p(") + (prime ? "prime" : "pseudoprime-or-composite") + ",special)", "probab_prime_p(" + S(z) + ") = " + S(pp) + " but the number is " + (prime ? "prime" : "composite (divisible by " + wit + ")"));
                return;
            }
            ll a = i - 3;
            ll np = std::max<ll>(a + 1, 2);
            while (!ref_isprime(np))
                np++;
            mpz_class got = Z(nextprime(*Int(a)));
            c.eval();
            JUDGED;
            c.nontrivial();
            c.outcome("gap" + S(np - a));
            if (got != np)
                c.violation(std::string("nextprime(a") + sc(a) + ")", "nextprime(" + S(a) + ") = " + S(got) + ", smallest prime above a is " + S(np));
            if (a >= 0) {
                int pp = probab_prime_p(*Int(a));
                c.eval();
                JUDGED;
                if ((pp > 0) != ref_isprime(a))
                    c.violation(std::string("probab_prime_p(") + (ref_isprime(a) ? "prime" : "composite") + ")", "probab_prime_p(" + S(a) + ") = " + S(pp) + " but trial division says " + (ref_isprime(a) ? "prime" : "not prime"));
            } else
                OUTSIDE;
        };
        s.go();
        nsub++;
    }

    // ================================================================ primepi / primorial
    {
        const ll N = 300;
        Mixed mx{{-3, 0}, {N, 2}}; // form 0: Integer n, 1: Rational n+1/2, 2: RealDouble n+0.5
        Sub s("primepi-primorial", mx.total());
        s.cs.desc = [=](ll i) {
            auto v = mx.at(i);
            return "primepi / primorial(" + S(v[0]) + (v[1] == 0 ? "" : v[1] == 1 ? " + 1/2" : ".5 as double") + ")";
        };
        s.cs.body = [=](ll i, Ctx &c) {
            auto v = mx.at(i);
            ll n = v[0];
            RCP<const Basic> arg = v[1] == 0 ? rcp_static_cast<const Basic>(Int(n)) : v[1] == 1 ? rcp_static_cast<const Basic>(Rational::from_two_ints(*Int(2 * n + 1), *Int(2))) : rcp_static_cast<const Basic>(real_double(n + 0.5));
            ll cnt = 0;
            mpz_class prod = 1;
            for (ll p = 2; p <= n; p++)
                if (ref_isprime(p)) {
                    cnt++;
                    prod *= p;
                }
            std::string err;
            RCP<const Basic> pi, pm;
            bool ran = call([&] { pi = primepi(arg); }, err);
            c.eval();
            JUDGED;
            if (n >= 2)
                c.nontrivial();
            c.outcome("pi" + (ran ? sstr(pi) : std::string("throw")));
            std::string form = v[1] == 0 ? "Integer" : v[1] == 1 ? "Rational" : "RealDouble";
            if (!ran || !is_a<Integer>(*pi) || Z(down_cast<const Integer &>(*pi)) != cnt)
                c.violation(std::string("primepi(") + form + (n < 0 ? ",negative" : "") + ")", "primepi(" + sstr(arg) + ") = " + (ran ? sstr(pi) : err) + ", counting primes <= x gives " + S(cnt));
            bool positive = v[1] == 0 ? n > 0 : n >= 0; // n+1/2 > 0 for n >= 0
            ran = call([&] { pm = primorial(arg); }, err);
            c.eval();
            if (!positive) {
                if (ran)
                    c.violation("primorial(non-positive):no-exception", "primorial(" + sstr(arg) + ") returned " + sstr(pm) + " instead of raising the documented exception");
                else
                    REFUSED;
                return;
            }
            JUDGED;
            if (!ran || !is_a<Integer>(*pm) || Z(down_cast<const Integer &>(*pm)) != prod)
                c.violation(std::string("primorial(") + form + ")", "primorial(" + sstr(arg) + ") = " + (ran ? sstr(pm) : err) + ", product of primes <= x gives " + S(prod));
        };
        s.go();
        nsub++;
    }

    Run &R = run();
    R.counters["rand_calls_intercepted_in_parent"] = g_rand_calls;
    R.counters["subchecks"] = nsub;
    R.states = 0;
    for (auto &kv : R.counters)
        if (kv.first.rfind("judged:", 0) == 0)
            R.states += kv.second;
    R.transitions = R.evaluations;
    R.bound_completed = std::string(T ? "thorough" : "quick") + " ranges of " + S((ll)nsub) + " sub-checks (see rule)";
    R.rule = std::string("every argument tuple in: gcd/lcm/gcd_ext/divides/mod*/quotient* [-R,R]^2; mod_inverse [-M,M]^2; crt 2-3 moduli <= 12 with all remainders; fibonacci/lucas(2) <= 120; "
             "binomial n in [-8,40], k <= 12; factorial <= 40; factor_trial_division/factor/lehman n <= NF; pollard p-1 and rho n <= NF x rand() in {0,1,2,3} x 2 parameter variants; "
             "prime_factors(_multiplicities) [-60,N]; bernoulli <= 30, harmonic n <= 30 x m in [-3,4]; primitive_root(_list)/totient/carmichael |n| <= NG; multiplicative_order n in [-30,NG] x a; "
             "legendre/jacobi/kronecker a x n incl. negative/even/zero n; nthroot_mod(_list) all (a,n,m) m <= MM, n <= NN incl. a<0, a>=m, m<=0; square roots mod 15 primes = 1 mod 8 above 10000 x rand() menu; "
             "powermod(_list) integer and rational exponents; quadratic_residues <= 300; is_quad_residue; is_nth_residue incl. negative a/mod; mobius/mertens; polygonal numbers/roots; "
             "perfect-power decomposition <= N plus b^e, b^e+-1 for big b; nextprime/probab_prime_p <= N plus Carmichael numbers and strong pseudoprimes; primepi/primorial <= 300 in three number forms. ")
             + "Bounds: " + (T ? "R=60,M=90,NF=5000,N=50000,NG=400,MM=256,NN=10" : "R=24,M=36,NF=2500,N=10000,NG=200,MM=72,NN=6")
             + ". Each result is compared with a brute-force evaluation of the definition. distinct_nontrivial = tuples where the function's result is not the degenerate one (composite n, non-empty root set, coprime arguments, ...)";
    R.assumptions = {"GMP mpz/mpq arithmetic used by the oracle for big values is exact", "rand() interposition makes the randomised methods deterministic; only seeds {0,1,2,3} are covered",
                     "Pollard methods may give up on composites (counted), Lehman and trial division may not", "sign convention of bernoulli(1), values at n=0 of totient/carmichael/prime_factors and F(-1)/L(-1) are recorded but not judged",
                     "large primality entries beyond 2^50 are decided by a stated divisor table"};
    return R.finish();
}
