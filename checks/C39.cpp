// C39  Structural queries are accurate -- E1 states vs independent tree walks (DESIGN 5 C39)
//
// States: n <= 2 (thorough: a restricted third layer) over symbols, a Dummy sharing the name of x, numbers, constants,
// an interval, with add/mul/pow, sin, abs, undefined f(.), g(.,.), diff (=> Derivative and Subs objects), relationals,
// And, Piecewise, FiniteSet, ConditionSet, ImageSet.
//   free_symbols(e)      == own walk, bound positions (Subs variables, ConditionSet/ImageSet symbol) excluded
//   has_symbol(e, s)     <=> s in own free-symbol set, for a pool of symbols (incl. the Subs dummies _xi_1, _xi_2)
//   has_symbol(e, f(..)) <=> that FunctionSymbol occurs (own structural walk)
//   function_symbols(e), atoms<Symbol|Number|Constant|Function|Derivative|Symbol,FunctionSymbol>(e) == own structural walk
// Polynomials p = sum c_k x^k (k <= 3/4, 12 symbolic coefficient choices per slot, raw and expanded form):
//   coeff(p,x,n) == c_n for n = -1..deg+1 (keys after expand) and sum coeff(p,x,n) x^n == expand(p).
#include "checks/a9_terms.h"
using namespace verif;
using namespace a9;

static Builder BD;
static std::vector<RCP<const Basic>> SYMPOOL;
static RCP<const Symbol> X, Y, Z;

enum {
    K_STATES,
    K_QUERIES,
    K_FREE_OK,
    K_HAS_OK,
    K_HASF_OK,
    K_FS_OK,
    K_ATOMS_OK,
    K_BOUND_PRESENT,
    K_NONEMPTY_FREE,
    K_THROW,
    K_POLYS,
    K_COEFF_CALLS,
    K_COEFF_OK,
    K_RECON_OK
};
static const std::vector<std::string> CN = {"states_checked",
                                            "library_queries",
                                            "free_symbols_agree",
                                            "has_symbol(symbol)_agree",
                                            "has_symbol(function_symbol)_agree",
                                            "function_symbols_agree",
                                            "atoms_queries_agree",
                                            "states_with_a_bound_symbol_position",
                                            "states_with_nonempty_free_set",
                                            "queries_refused(exception)",
                                            "polynomials",
                                            "coeff_calls",
                                            "coeff_equal_to_model_coefficient",
                                            "reconstructions_equal_expand(p)"};

// ---- own structural walk: every sub-expression node (bound positions included), children through field accessors
static void children(const Basic &e, std::vector<RCP<const Basic>> &out)
{
    switch (e.get_type_code()) {
        case SYMENGINE_ADD: {
            const Add &a = down_cast<const Add &>(e);
            if (!a.get_coef()->is_zero())
                out.push_back(a.get_coef());
            for (auto &p : a.get_dict()) {
                if (!p.second->is_one())
                    out.push_back(p.second);
                out.push_back(p.first);
            }
            return;
        }
        case SYMENGINE_MUL: {
            const Mul &m = down_cast<const Mul &>(e);
            if (!m.get_coef()->is_one())
                out.push_back(m.get_coef());
            for (auto &p : m.get_dict()) {
                out.push_back(p.first);
                if (!(is_a<Integer>(*p.second) && down_cast<const Integer &>(*p.second).is_one()))
                    out.push_back(p.second);
            }
            return;
        }
        case SYMENGINE_POW:
            out.push_back(down_cast<const Pow &>(e).get_base());
            out.push_back(down_cast<const Pow &>(e).get_exp());
            return;
        case SYMENGINE_SUBS: {
            const Subs &s = down_cast<const Subs &>(e);
            out.push_back(s.get_arg());
            for (auto &p : s.get_dict()) {
                out.push_back(p.first);
                out.push_back(p.second);
            }
            return;
        }
        case SYMENGINE_DERIVATIVE: {
            const Derivative &d = down_cast<const Derivative &>(e);
            out.push_back(d.get_arg());
            for (auto &s : d.get_symbols())
                out.push_back(s);
            return;
        }
        case SYMENGINE_PIECEWISE:
            for (auto &p : down_cast<const Piecewise &>(e).get_vec()) {
                out.push_back(p.first);
                out.push_back(p.second);
            }
            return;
        case SYMENGINE_CONDITIONSET:
            out.push_back(down_cast<const ConditionSet &>(e).get_symbol());
            out.push_back(down_cast<const ConditionSet &>(e).get_condition());
            return;
        case SYMENGINE_IMAGESET:
            out.push_back(down_cast<const ImageSet &>(e).get_symbol());
            out.push_back(down_cast<const ImageSet &>(e).get_expr());
            out.push_back(down_cast<const ImageSet &>(e).get_baseset());
            return;
        case SYMENGINE_FINITESET:
            for (auto &a : down_cast<const FiniteSet &>(e).get_container())
                out.push_back(a);
            return;
        case SYMENGINE_INTERVAL:
            out.push_back(down_cast<const Interval &>(e).get_start());
            out.push_back(down_cast<const Interval &>(e).get_end());
            return;
        default:
            for (auto &a : e.get_args())
                out.push_back(a);
            return;
    }
}
typedef std::function<bool(const Basic &)> Pred;
static void collect(const Basic &e, const Pred &p, std::set<std::string> &out)
{
    if (p(e))
        out.insert(key(e));
    std::vector<RCP<const Basic>> ch;
    children(e, ch);
    for (auto &c : ch)
        collect(*c, p, out);
}
static void collect_nodes(const Basic &e, const Pred &p, std::map<std::string, RCP<const Basic>> &out)
{
    if (p(e))
        out[key(e)] = e.rcp_from_this();
    std::vector<RCP<const Basic>> ch;
    children(e, ch);
    for (auto &c : ch)
        collect_nodes(*c, p, out);
}
static std::set<std::string> keys_of(const set_basic &s)
{
    std::set<std::string> o;
    for (auto &a : s)
        o.insert(key(*a));
    return o;
}
static std::string show(const std::set<std::string> &s)
{
    std::string o = "{";
    for (auto &a : s)
        o += a + " ";
    return o + "}";
}
static bool is_function_node(const Basic &e)
{
    return dynamic_cast<const Function *>(&e) != nullptr;
}
static bool is_number_node(const Basic &e)
{
    return is_a_Number(e);
}
static bool is_symbol_node(const Basic &e)
{
    return e.get_type_code() == SYMENGINE_SYMBOL || e.get_type_code() == SYMENGINE_DUMMY;
}
static bool is_fs_node(const Basic &e)
{
    return e.get_type_code() == SYMENGINE_FUNCTIONSYMBOL || e.get_type_code() == SYMENGINE_FUNCTIONWRAPPER;
}

struct Query {
    std::string name;
    std::function<set_basic(const Basic &)> lib;
    Pred model;
};
static std::vector<Query> QUERIES;

// innermost sub-expression for which pred(sub) still fails
static std::string shrink(const Basic &e, const std::function<bool(const Basic &)> &fails, int depth = 0)
{
    if (depth < 8) {
        std::vector<RCP<const Basic>> ch;
        children(e, ch);
        for (auto &c : ch) {
            bool f = false;
            try {
                f = fails(*c);
            } catch (std::exception &) {
            }
            if (f)
                return shrink(*c, fails, depth + 1);
        }
    }
    return type_code_name(e.get_type_code());
}

static std::set<std::string> lib_free_ids(const Basic &e)
{
    std::set<std::string> o;
    for (auto &s : free_symbols(e))
        o.insert(sym_id(*s));
    return o;
}

static void check_state(const State &S, Ctx &c)
{
    const Basic &e = *S.e;
    c.count(K_STATES);
    std::string what = S.recipe + " = " + sstr(S.e) + " [" + S.key + "]";
    SymSet fr = my_free(e), all = my_all_symbols(e);
    if (fr != all)
        c.count(K_BOUND_PRESENT);
    if (!fr.empty())
        c.count(K_NONEMPTY_FREE), c.nontrivial();
    // (a) free_symbols
    c.eval();
    c.count(K_QUERIES);
    try {
        std::set<std::string> lf = lib_free_ids(e);
        if (lf != fr) {
            auto fails = [](const Basic &s) { return lib_free_ids(s) != my_free(s); };
            c.violation("free_symbols:" + shrink(e, fails), "free_symbols(" + what + ") = " + show(lf) + " but the symbols outside bound positions are " + show(fr));
        } else
            c.count(K_FREE_OK);
        c.outcome("free:" + std::to_string(lf.size()) + "/all:" + std::to_string(all.size()));
    } catch (SymEngineException &x) {
        c.count(K_THROW);
        c.outcome(std::string("free_symbols:throw:") + x.what());
    }
    // (b) has_symbol for every pool symbol
    for (auto &s : SYMPOOL) {
        c.eval();
        c.count(K_QUERIES);
        try {
            bool h = has_symbol(e, *s);
            bool want = fr.count(sym_id(*s)) > 0;
            if (h != want) {
                std::string sid = sym_id(*s);
                RCP<const Basic> sc = s;
                auto fails = [sid, sc](const Basic &t) { return has_symbol(t, *sc) != (my_free(t).count(sid) > 0); };
                c.violation(std::string("has_symbol:") + (h ? "true-but-not-free:" : "false-but-free:") + shrink(e, fails),
                            "has_symbol(" + what + ", " + sym_id(*s) + ") = " + (h ? "true" : "false") + " but free_symbols model = " + show(fr)
                                + " (all structural symbols " + show(all) + ")");
            } else
                c.count(K_HAS_OK);
        } catch (SymEngineException &x) {
            c.count(K_THROW);
        }
    }
    // (c) has_symbol with a FunctionSymbol: every occurring one must be found, an absent one must not
    {
        std::map<std::string, RCP<const Basic>> fsn;
        collect_nodes(e, is_fs_node, fsn);
        fsn["<absent>"] = function_symbol("f", symbol("w"));
        for (auto &p : fsn) {
            c.eval();
            c.count(K_QUERIES);
            bool want = p.first != "<absent>";
            try {
                bool h = has_symbol(e, *p.second);
                if (h != want)
                    c.violation(std::string("has_symbol(FunctionSymbol):") + (h ? "true-but-absent" : "false-but-present"),
                                "has_symbol(" + what + ", " + sstr(p.second) + ") = " + (h ? "true" : "false"));
                else
                    c.count(K_HASF_OK);
            } catch (SymEngineException &x) {
                c.count(K_THROW);
            }
        }
    }
    // (d) function_symbols and atoms<...>
    for (auto &q : QUERIES) {
        c.eval();
        c.count(K_QUERIES);
        try {
            std::set<std::string> lib = keys_of(q.lib(e)), mine;
            collect(e, q.model, mine);
            if (lib != mine) {
                const Query *qp = &q;
                auto fails = [qp](const Basic &t) {
                    std::set<std::string> m2;
                    collect(t, qp->model, m2);
                    return keys_of(qp->lib(t)) != m2;
                };
                c.violation(q.name + ":" + shrink(e, fails), q.name + "(" + what + ") = " + show(lib) + " but the matching sub-expressions are " + show(mine));
            } else {
                c.count(q.name == "function_symbols" ? K_FS_OK : K_ATOMS_OK);
                if (!mine.empty())
                    c.outcome(q.name + ":" + std::to_string(mine.size()));
            }
        } catch (SymEngineException &x) {
            c.count(K_THROW);
            c.outcome(q.name + ":throw:" + x.what());
        }
    }
    if (c.index % 15013 == 0)
        c.sample("{\"state\":" + jstr(sstr(S.e)) + ",\"free_symbols_model\":" + jstr(show(fr)) + ",\"all_symbols\":" + jstr(show(all)) + "}");
}

// --------------------------------------------------------------------------------- coeff on polynomials
static std::vector<RCP<const Basic>> COEF;
static int PDEG = 3;
static std::vector<RCP<const Basic>> PVARS;

static void check_poly(long long idx, Ctx &c)
{
    long long t = idx;
    int form = t % 2;
    t /= 2;
    int vi = t % PVARS.size();
    t /= PVARS.size();
    std::vector<int> ix;
    for (int k = 0; k <= PDEG; k++) {
        ix.push_back(t % COEF.size());
        t /= COEF.size();
    }
    const RCP<const Basic> &v = PVARS[vi];
    c.count(K_POLYS);
    RCP<const Basic> p = zero;
    std::string nm;
    for (int k = 0; k <= PDEG; k++) {
        p = add(p, mul(COEF[ix[k]], pow(v, integer(k))));
        nm += (k ? " + (" : "(") + sstr(COEF[ix[k]]) + ")*" + sstr(v) + "^" + std::to_string(k);
    }
    if (form == 1)
        p = expand(p);
    std::string what = std::string(form ? "expand(" : "(") + nm + ") = " + sstr(p) + " [" + key(*p) + "]";
    std::string kp = key(*expand(p));
    RCP<const Basic> recon = zero;
    bool nontriv = false;
    for (int n = -1; n <= PDEG + 1; n++) {
        c.eval();
        c.count(K_COEFF_CALLS);
        RCP<const Basic> cf;
        try {
            cf = coeff(*p, *v, *integer(n));
        } catch (SymEngineException &x) {
            c.count(K_THROW);
            c.outcome(std::string("coeff:throw:") + x.what());
            return;
        }
        RCP<const Basic> want = (n >= 0 && n <= PDEG) ? COEF[ix[n]] : RCP<const Basic>(zero);
        std::string kc = key(*expand(cf)), kw = key(*expand(want));
        if (kc != kw) {
            c.violation("coeff:" + std::string(form ? "expanded" : "raw") + ":" + cls(*v, 0) + (n < 0 ? ":n<0" : n == 0 ? ":n=0" : n > PDEG ? ":n>deg" : ":n>0"),
                        "coeff(" + what + ", " + sstr(v) + ", " + std::to_string(n) + ") = " + sstr(cf) + " but the coefficient is " + sstr(want));
            return;
        }
        c.count(K_COEFF_OK);
        if (!is_a_Number(*cf))
            nontriv = true;
        recon = add(recon, mul(cf, pow(v, integer(n))));
    }
    std::string kr = key(*expand(recon));
    if (kr != kp)
        c.violation("coeff:reconstruction", "sum coeff(p," + sstr(v) + ",n)*" + sstr(v) + "^n = " + sstr(expand(recon)) + " but expand(p) = " + sstr(expand(p)) + " for p = " + what);
    else
        c.count(K_RECON_OK);
    if (nontriv)
        c.nontrivial();
    c.outcome("poly:terms=" + std::to_string(p->get_args().size()) + ":" + type_code_name(p->get_type_code()));
    if (idx % 30011 == 0)
        c.sample("{\"poly\":" + jstr(sstr(p)) + ",\"var\":" + jstr(sstr(v)) + ",\"reconstruction\":" + jstr(sstr(expand(recon))) + "}");
}

template <typename... T>
static Query atoms_query(const std::string &name, Pred model)
{
    return Query{name, [](const Basic &e) { return atoms<T...>(e); }, model};
}

int main(int argc, char **argv)
{
    init(argc, argv, "C39");
    bool thorough = opts().thorough();
    Run &R = run();
    X = symbol("x");
    Y = symbol("y");
    Z = symbol("z");
    RCP<const Symbol> dx = dummy("x");
    SYMPOOL = {X, Y, Z, dx, symbol("_xi_1"), symbol("_xi_2"), symbol("w"), dummy("x")};
    auto Rt = [](long a, long b) { return Rational::from_two_ints(a, b); };

    QUERIES.push_back(Query{"function_symbols", [](const Basic &e) { return function_symbols(e); }, is_fs_node});
    QUERIES.push_back(atoms_query<Symbol>("atoms<Symbol>", is_symbol_node));
    QUERIES.push_back(atoms_query<Number>("atoms<Number>", is_number_node));
    QUERIES.push_back(atoms_query<Constant>("atoms<Constant>", [](const Basic &e) { return is_a<Constant>(e); }));
    QUERIES.push_back(atoms_query<Function>("atoms<Function>", is_function_node));
    QUERIES.push_back(atoms_query<Derivative>("atoms<Derivative>", [](const Basic &e) { return is_a<Derivative>(e); }));
    QUERIES.push_back(atoms_query<Subs>("atoms<Subs>", [](const Basic &e) { return is_a<Subs>(e); }));
    QUERIES.push_back(atoms_query<Symbol, FunctionSymbol>("atoms<Symbol,FunctionSymbol>", [](const Basic &e) { return is_symbol_node(e) || is_fs_node(e); }));
    QUERIES.push_back(atoms_query<Integer>("atoms<Integer>", [](const Basic &e) { return is_a<Integer>(e); }));

    std::vector<std::pair<std::string, B>> leaves = {{"x", X},          {"y", Y},   {"z", Z}, {"Dummy(x)", dx},          {"1", integer(1)}, {"2", integer(2)},
                                                     {"1/2", Rt(1, 2)}, {"pi", pi}, {"I", I}, {"[0,1]", interval(integer(0), integer(1))},
                                                     // structured leaves: Subs objects that BIND the user symbols x / y themselves (diff only binds fresh
                                                     // _xi_N dummies), so a bound name can also occur free in a sibling (added after seeded change C39 escaped)
                                                     {"Subs(D(g(x,y),x),x->z+1)", ([&]() -> B {
                                                          map_basic_basic m;
                                                          m[X] = add(Z, integer(1));
                                                          return function_symbol("g", {X, Y})->diff(X)->subs(m);
                                                      })()},
                                                     {"Subs(D(f(y),y),y->2*x)", ([&]() -> B {
                                                          map_basic_basic m;
                                                          m[Y] = mul(integer(2), X);
                                                          return function_symbol("f", Y)->diff(Y)->subs(m);
                                                      })()}};
    for (auto &l : leaves)
        BD.SS.add(l.second, l.first, 0);
    const int n0 = BD.SS.size();
    auto need_bool = [](const B &a) -> RCP<const Boolean> {
        if (!is_a_Boolean(*a))
            throw SymEngineException("not a Boolean");
        return rcp_static_cast<const Boolean>(a);
    };
    auto need_set = [](const B &a) -> RCP<const Set> {
        if (!is_a_Set(*a))
            throw SymEngineException("not a Set");
        return rcp_static_cast<const Set>(a);
    };
    auto no_set_bool = [](const B &a) {
        if (is_a_Set(*a) || is_a_Boolean(*a))
            throw SymEngineException("not an expression");
    };
    BD.bin = {{"add", [=](const B &a, const B &b) { no_set_bool(a); no_set_bool(b); return add(a, b); }},
              {"mul", [=](const B &a, const B &b) { no_set_bool(a); no_set_bool(b); return mul(a, b); }},
              {"pow", [=](const B &a, const B &b) { no_set_bool(a); no_set_bool(b); return pow(a, b); }},
              {"g", [=](const B &a, const B &b) { no_set_bool(a); no_set_bool(b); return function_symbol("g", {a, b}); }},
              {"Lt", [=](const B &a, const B &b) { no_set_bool(a); no_set_bool(b); return B(Lt(a, b)); }},
              {"Eq", [=](const B &a, const B &b) { no_set_bool(a); no_set_bool(b); return B(Eq(a, b)); }},
              {"And", [=](const B &a, const B &b) { return B(logical_and({need_bool(a), need_bool(b)})); }},
              {"finiteset", [=](const B &a, const B &b) { no_set_bool(a); no_set_bool(b); return B(finiteset({a, b})); }},
              {"piecewise", [=](const B &a, const B &b) { no_set_bool(a); no_set_bool(b); return piecewise({{a, Lt(X, integer(1))}, {b, boolTrue}}); }},
              {"imageset_x", [=](const B &a, const B &b) { no_set_bool(a); return B(imageset(X, a, need_set(b))); }},
              {"contains", [=](const B &a, const B &b) { no_set_bool(a); return B(contains(a, need_set(b))); }},
              {"max", [=](const B &a, const B &b) { no_set_bool(a); no_set_bool(b); return max({a, b}); }}};
    RCP<const Symbol> xs = X, ys = Y;
    BD.un = {{"sin", [=](const B &a) { no_set_bool(a); return sin(a); }},
             {"abs", [=](const B &a) { no_set_bool(a); return abs(a); }},
             {"f", [=](const B &a) { no_set_bool(a); return function_symbol("f", a); }},
             {"diff_x", [=](const B &a) { no_set_bool(a); return a->diff(xs); }},
             {"diff_y", [=](const B &a) { no_set_bool(a); return a->diff(ys); }},
             {"conditionset_x", [=](const B &a) { return B(conditionset(xs, need_bool(a))); }},
             {"conditionset_y", [=](const B &a) { return B(conditionset(ys, need_bool(a))); }},
             {"imageset_y_reals", [=](const B &a) { no_set_bool(a); return B(imageset(ys, a, reals())); }}};
    const int NBIN = BD.bin.size(), NUN = BD.un.size();
    std::vector<Trans> t1;
    for (int a = 0; a < n0; a++)
        for (int b = 0; b < n0; b++)
            for (int op = 0; op < NBIN; op++)
                t1.push_back({1, op, a, b});
    for (int a = 0; a < n0; a++)
        for (int op = 0; op < NUN; op++)
            t1.push_back({0, op, a, a});
    BD.layer("S1", t1, 1);
    const int n1 = BD.SS.size();
    std::vector<Trans> t2;
    for (int a = n0; a < n1; a++) {
        for (int b = 0; b < n0; b++)
            for (int op = 0; op < NBIN; op++) {
                t2.push_back({1, op, a, b});
                t2.push_back({1, op, b, a});
            }
        for (int op = 0; op < NUN; op++)
            t2.push_back({0, op, a, a});
    }
    BD.layer("S2", t2, 2);
    const int n2 = BD.SS.size();
    std::string bound = "all states with <= 2 operations (" + std::to_string(n0) + " leaves, " + std::to_string(NBIN) + " binary, " + std::to_string(NUN)
                        + " unary operators; |S1|=" + std::to_string(n1 - n0) + ", |S2|=" + std::to_string(n2 - n1) + ")";
    int n3 = n2;
    if (thorough) {
        // third layer: every unary operator on S2, and S1 x S1 for the binding/binary constructors
        std::vector<Trans> t3;
        for (int a = n1; a < n2; a++)
            for (int op = 0; op < NUN; op++)
                t3.push_back({0, op, a, a});
        for (int a = n0; a < n1; a++)
            for (int b = n0; b < n1; b++)
                for (int op = 0; op < NBIN; op++)
                    t3.push_back({1, op, a, b});
        BD.layer("S3", t3, 3);
        n3 = BD.SS.size();
        bound += " + third layer unary(S2) u binary(S1xS1) (" + std::to_string(n3 - n2) + " states)";
    }
    R.counters["states_S0"] = n0;
    R.counters["states_S1"] = n1 - n0;
    R.counters["states_S2"] = n2 - n1;
    R.counters["states_S3"] = n3 - n2;

    CaseSet cs;
    cs.name = "queries";
    cs.n = n3;
    cs.counter_names = CN;
    cs.desc = [&](long long i) { return "structural queries on " + BD.SS.S[i].recipe; };
    cs.crash_sig = [&](long long i, const std::string &oc) { return "queries:" + oc + ":" + type_code_name(BD.SS.S[i].e->get_type_code()); };
    cs.body = [&](long long i, Ctx &c) { check_state(BD.SS.S[i], c); };
    run_cases(cs);

    // ---- coeff
    RCP<const Basic> fy = function_symbol("h", Y);
    COEF = {integer(0), integer(1), integer(-1), integer(2), Rt(1, 2), Y, mul(integer(2), Y), add(Y, integer(1)), mul(Y, Z), pow(Y, integer(2)), sin(Y), fy};
    PDEG = thorough ? 4 : 3;
    PVARS = {X, function_symbol("f", symbol("t"))};
    long long npoly = 2 * (long long)PVARS.size();
    for (int k = 0; k <= PDEG; k++)
        npoly *= COEF.size();
    CaseSet ps;
    ps.name = "coeff";
    ps.n = npoly;
    ps.counter_names = CN;
    ps.desc = [&](long long i) { return "coeff on polynomial #" + std::to_string(i) + " (form=" + std::to_string(i % 2) + ")"; };
    ps.body = [&](long long i, Ctx &c) { check_poly(i, c); };
    if (!past_deadline())
        run_cases(ps);
    bound += "; coeff: all " + std::to_string(npoly) + " polynomials of degree <= " + std::to_string(PDEG) + " in {x, f(t)} with " + std::to_string(COEF.size())
             + " coefficient choices per slot, raw and expanded, n = -1.." + std::to_string(PDEG + 1);

    {
        struct rusage ru, rs;
        getrusage(RUSAGE_CHILDREN, &ru);
        getrusage(RUSAGE_SELF, &rs);
        R.counters["cpu_seconds(parent+workers)"] = (uint64_t)(ru.ru_utime.tv_sec + ru.ru_stime.tv_sec + rs.ru_utime.tv_sec + rs.ru_stime.tv_sec);
    }
    R.counters["duplicate_arrivals_merged"] = BD.SS.duplicate_arrivals;
    R.states = n3 + npoly;
    R.transitions = R.evaluations;
    R.bound_completed = bound;
    R.rule = "E1 states de-duplicated by structural key; every state is queried with free_symbols, has_symbol (8 pool symbols incl. a Dummy named x "
             "and the Subs dummies, every occurring FunctionSymbol and an absent one), function_symbols and 9 atoms<> instantiations; each answer "
             "is compared with an own tree walk through field accessors (bound = Subs variables, ConditionSet/ImageSet symbol). coeff: exhaustive "
             "coefficient tuples, model coefficient vs coeff() and reconstruction vs expand(p), by key after expand. distinct_nontrivial = states "
             "with a non-empty free-symbol set + polynomials with a symbolic coefficient";
    R.assumptions = {"field accessors (get_dict, get_args, get_symbols, ...) return the stored fields", "expand is used as a normaliser on both sides of the coeff comparison",
                     "polynomial types and matrices are not queried"};
    return R.finish();
}
