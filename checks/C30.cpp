// C30  Equation solving returns exactly the solution set -- E5 tables (DESIGN 5 C30)
//
// Families (each an exhaustive cross product, simplest first):
//   poly      all polynomials sum c_i x^i of bounded degree/coefficients  x  domains {UniversalSet, Reals, Complexes}
//   rational  P/Q and P1/Q1 + P2/Q2 over products of linear factors (common factors forced) x {UniversalSet, Reals}
//   trig      a*F(b*x+c) = d, a1*sin x + a2*cos x = d, products, hyperbolic  x {UniversalSet, Reals}
//   linsolve  all 2x2 systems over [-2,2], 3x3 over {-1,0,1}, det != 0, both API forms
// Oracle: the returned Set is *interpreted* (FiniteSet / EmptySet / domain atoms / Union / Intersection /
// Complement / ImageSet over n) into numeric members (RefEval, 113 bit) and compared, as a set of values,
// with the exact solution set of the expression actually passed: an mpq rational-function model read off
// the expression tree (numerator roots that are not zeros of any denominator), the number of distinct
// roots = deg of the square-free part (gcd over Q), the number of real ones = Sturm count; reference root
// values by Durand-Kerner on the square-free part.  Every member must have residual ~0.
#include "common.h"
#include "key.h"
#include "refeval.h"
using namespace verif;

// ------------------------------------------------------------------ exact polynomials over Q
typedef std::vector<mpq_class> Poly; // low -> high, no trailing zeros; zero polynomial = {}
static void trim(Poly &p)
{
    while (!p.empty() && p.back() == 0)
        p.pop_back();
}
static int deg(const Poly &p)
{
    return (int)p.size() - 1;
}
static Poly padd(const Poly &a, const Poly &b)
{
    Poly r(std::max(a.size(), b.size()));
    for (size_t i = 0; i < r.size(); i++)
        r[i] = (i < a.size() ? a[i] : mpq_class(0)) + (i < b.size() ? b[i] : mpq_class(0));
    trim(r);
    return r;
}
static Poly pscale(const Poly &a, const mpq_class &s)
{
    Poly r = a;
    for (auto &c : r)
        c *= s;
    trim(r);
    return r;
}
static Poly pmul(const Poly &a, const Poly &b)
{
    if (a.empty() || b.empty())
        return {};
    Poly r(a.size() + b.size() - 1);
    for (size_t i = 0; i < a.size(); i++)
        for (size_t j = 0; j < b.size(); j++)
            r[i + j] += a[i] * b[j];
    trim(r);
    return r;
}
static void pdivmod(Poly a, const Poly &b, Poly &q, Poly &r) // b != 0
{
    q.assign(a.size() >= b.size() ? a.size() - b.size() + 1 : 0, mpq_class(0));
    while (a.size() >= b.size() && !a.empty()) {
        mpq_class f = a.back() / b.back();
        size_t sh = a.size() - b.size();
        q[sh] = f;
        for (size_t i = 0; i < b.size(); i++)
            a[sh + i] -= f * b[i];
        a.pop_back(); // leading term cancels exactly
        trim(a);
    }
    trim(q);
    r = a;
}
static Poly pmonic(Poly p)
{
    if (p.empty())
        return p;
    mpq_class l = p.back();
    for (auto &c : p)
        c /= l;
    return p;
}
static Poly pgcd(Poly a, Poly b)
{
    while (!b.empty()) {
        Poly q, r;
        pdivmod(a, b, q, r);
        a = b;
        b = r;
    }
    return pmonic(a);
}
static Poly pderiv(const Poly &p)
{
    Poly r;
    for (size_t i = 1; i < p.size(); i++)
        r.push_back(p[i] * (long)i);
    trim(r);
    return r;
}
static Poly psqfree(const Poly &p) // p != 0
{
    if (deg(p) <= 0)
        return p;
    Poly g = pgcd(p, pderiv(p)), q, r;
    pdivmod(p, g, q, r);
    return q;
}
static Poly ppow(const Poly &p, long k)
{
    Poly r = {mpq_class(1)};
    for (long i = 0; i < k; i++)
        r = pmul(r, p);
    return r;
}
static int qsgn(const mpq_class &q)
{
    return mpq_sgn(q.get_mpq_t());
}
// number of distinct real roots (Sturm), p != 0
static int sturm_count(const Poly &p)
{
    if (deg(p) <= 0)
        return 0;
    std::vector<Poly> seq = {p, pderiv(p)};
    while (!seq.back().empty()) {
        Poly q, r;
        pdivmod(seq[seq.size() - 2], seq.back(), q, r);
        if (r.empty())
            break;
        seq.push_back(pscale(r, mpq_class(-1)));
    }
    auto changes = [&](bool minus) {
        int last = 0, ch = 0;
        for (auto &s : seq) {
            if (s.empty())
                continue;
            int v = qsgn(s.back());
            if (minus && (deg(s) % 2))
                v = -v;
            if (last && v != last)
                ch++;
            last = v;
        }
        return ch;
    };
    return changes(true) - changes(false);
}
static std::string pstr(const Poly &p)
{
    if (p.empty())
        return "0";
    std::string o;
    for (size_t i = 0; i < p.size(); i++) {
        if (p[i] == 0)
            continue;
        if (!o.empty())
            o += " + ";
        o += "(" + p[i].get_str() + ")" + (i ? "*x^" + std::to_string(i) : "");
    }
    return o;
}

// ------------------------------------------------------------------ numeric helpers
static rq q2rq(const mpq_class &q)
{
    return strtoflt128(q.get_num().get_str().c_str(), nullptr) / strtoflt128(q.get_den().get_str().c_str(), nullptr);
}
static cq peval(const Poly &p, cq z, rq *scale = nullptr)
{
    cq r = 0;
    rq s = 0, za = absq(z), zp = 1;
    for (int i = deg(p); i >= 0; i--)
        r = r * z + mkc(q2rq(p[i]), 0);
    for (int i = 0; i <= deg(p); i++) {
        s += fabsq(q2rq(p[i])) * zp;
        zp *= za;
    }
    if (scale)
        *scale = s;
    return r;
}
// all roots of a square-free polynomial (simple roots => quadratic convergence of Weierstrass iteration)
static bool dk_roots(const Poly &p, std::vector<cq> &z)
{
    int m = deg(p);
    z.clear();
    if (m <= 0)
        return true;
    Poly pm = pmonic(p);
    rq R = 0;
    for (int i = 0; i < m; i++)
        R = fmaxq(R, fabsq(q2rq(pm[i])));
    R += 1;
    for (int k = 0; k < m; k++)
        z.push_back(mkc(R * cosq(2 * M_PIq * k / m + 0.4Q), R * sinq(2 * M_PIq * k / m + 0.4Q)) * mkc(0.6Q, 0));
    int calm = 0;
    for (int it = 0; it < 2000 && calm < 3; it++) {
        rq mx = 0;
        for (int k = 0; k < m; k++) {
            cq num = peval(pm, z[k]), den = mkc(1, 0);
            for (int j = 0; j < m; j++)
                if (j != k)
                    den *= (z[k] - z[j]);
            if (den == 0)
                return false;
            cq d = num / den;
            z[k] -= d;
            mx = fmaxq(mx, absq(d));
        }
        if (mx < 1e-31Q * R)
            calm++;
        else
            calm = 0;
    }
    if (calm < 3)
        return false;
    for (auto &v : z) {
        rq s;
        if (absq(v) < 1e-30Q)
            v = mkc(0, 0); // exact zero root (x | p)
        cq r = peval(pm, v, &s);
        if (absq(r) > 1e-28Q * s)
            return false;
        // snap negligible parts (real roots come out with |Im| ~ 1e-34)
        if (fabsq(im(v)) < 1e-28Q * (absq(v) + 1))
            v = mkc(re(v), 0);
        if (fabsq(re(v)) < 1e-28Q * (absq(v) + 1))
            v = mkc(0, im(v));
    }
    return true;
}
static bool veq(cq a, cq b)
{
    return absq(a - b) <= 1e-12Q * (1 + absq(a));
}
static bool vreal(cq a)
{
    return fabsq(im(a)) <= 1e-12Q * (1 + absq(a));
}
static bool has(const std::vector<cq> &v, cq a)
{
    for (auto &b : v)
        if (veq(a, b))
            return true;
    return false;
}
static void addval(std::vector<cq> &v, cq a)
{
    if (!has(v, a))
        v.push_back(a);
}

// ------------------------------------------------------------------ value sets
enum Kind { FIN, COFIN_C, COFIN_R }; // finite members | C minus finite | R minus finite
struct VSet {
    bool ok = true;
    std::string why; // reason when !ok
    Kind kind = FIN;
    std::vector<cq> vals; // members (FIN) or excluded points
    bool evaluated = true; // answer was a plain FiniteSet / EmptySet / domain atom (no unevaluated operator)
    bool nonnumber = false; // a FiniteSet element is nan/zoo/oo
};
static bool mem(const VSet &s, cq v)
{
    if (s.kind == FIN)
        return has(s.vals, v);
    if (s.kind == COFIN_R && !vreal(v))
        return false;
    return !has(s.vals, v);
}
static VSet fail(const std::string &w)
{
    VSet r;
    r.ok = false;
    r.why = w;
    return r;
}
static VSet vinter(const VSet &a, const VSet &b)
{
    VSet r;
    if (a.kind == FIN || b.kind == FIN) {
        const VSet &f = a.kind == FIN ? a : b, &o = a.kind == FIN ? b : a;
        for (auto &v : f.vals)
            if (mem(o, v))
                addval(r.vals, v);
        return r;
    }
    r.kind = (a.kind == COFIN_R || b.kind == COFIN_R) ? COFIN_R : COFIN_C;
    for (auto &v : a.vals)
        if (r.kind == COFIN_C || vreal(v))
            addval(r.vals, v);
    for (auto &v : b.vals)
        if (r.kind == COFIN_C || vreal(v))
            addval(r.vals, v);
    return r;
}
static VSet vunion(const VSet &a, const VSet &b)
{
    VSet r;
    if (a.kind == FIN && b.kind == FIN) {
        r.vals = a.vals;
        for (auto &v : b.vals)
            addval(r.vals, v);
        return r;
    }
    if (a.kind == FIN || b.kind == FIN) {
        const VSet &f = a.kind == FIN ? a : b, &o = a.kind == FIN ? b : a;
        if (o.kind == COFIN_R)
            for (auto &v : f.vals)
                if (!vreal(v))
                    return fail("union-not-representable");
        r.kind = o.kind;
        for (auto &v : o.vals)
            if (!has(f.vals, v))
                r.vals.push_back(v);
        return r;
    }
    if (a.kind != b.kind)
        return fail("union-not-representable");
    r.kind = a.kind;
    for (auto &v : a.vals)
        if (has(b.vals, v))
            r.vals.push_back(v);
    return r;
}
static VSet vminus(const VSet &a, const VSet &b) // a \ b
{
    VSet r;
    if (a.kind == FIN) {
        for (auto &v : a.vals)
            if (!mem(b, v))
                r.vals.push_back(v);
        return r;
    }
    if (b.kind == FIN) {
        r.kind = a.kind;
        r.vals = a.vals;
        for (auto &v : b.vals)
            if (a.kind == COFIN_C || vreal(v))
                addval(r.vals, v);
        return r;
    }
    if (a.kind == COFIN_C && b.kind == COFIN_R)
        return fail("complement-not-representable");
    for (auto &v : b.vals)
        if (mem(a, v))
            r.vals.push_back(v);
    return r;
}
static bool same_set(const VSet &a, const VSet &b)
{
    if (a.kind != b.kind)
        return false;
    for (auto &v : a.vals)
        if (!has(b.vals, v))
            return false;
    for (auto &v : b.vals)
        if (!has(a.vals, v))
            return false;
    return true;
}
static std::string vstr(const VSet &s)
{
    std::string o = s.kind == FIN ? "{" : s.kind == COFIN_C ? "C \\ {" : "R \\ {";
    for (size_t i = 0; i < s.vals.size(); i++)
        o += (i ? ", " : "") + cstr(s.vals[i], 12);
    return o + "}";
}

// image sets {expr(n) | n integer} are expanded for n in [-NR, NR]
static const int NR = 4;
struct Interp {
    std::vector<std::pair<RCP<const Basic>, RCP<const Basic>>> images; // (n symbol, expr)
};

// numeric meaning of a Set returned by the library; images != nullptr allows ImageSet/Union-of-ImageSet (trig)
static VSet interp(const Basic &s, Interp *images)
{
    static const Env empty;
    if (is_a<EmptySet>(s))
        return VSet();
    if (is_a<UniversalSet>(s) || is_a<Complexes>(s)) {
        VSet r;
        r.kind = COFIN_C;
        return r;
    }
    if (is_a<Reals>(s)) {
        VSet r;
        r.kind = COFIN_R;
        return r;
    }
    if (is_a<FiniteSet>(s)) {
        VSet r;
        for (auto &e : down_cast<const FiniteSet &>(s).get_container()) {
            Value v = refeval(*e, empty);
            if (!v.ok) {
                VSet f = fail("element:" + v.why);
                // nan/zoo/oo, or a Set / Boolean object sitting where a number should be
                f.nonnumber = (v.why == "nonfinite-leaf" || v.why.rfind("unsupported-node", 0) == 0 || v.why.rfind("boolean-node", 0) == 0);
                return f;
            }
            addval(r.vals, v.v);
        }
        return r;
    }
    if (is_a<Union>(s) || is_a<Intersection>(s)) {
        bool un = is_a<Union>(s);
        const set_set &cont = un ? down_cast<const Union &>(s).get_container() : down_cast<const Intersection &>(s).get_container();
        VSet acc;
        bool first = true;
        for (auto &m : cont) {
            VSet x = interp(*m, images);
            if (!x.ok)
                return x;
            if (first)
                acc = x;
            else
                acc = un ? vunion(acc, x) : vinter(acc, x);
            if (!acc.ok)
                return acc;
            first = false;
        }
        acc.evaluated = false;
        return acc;
    }
    if (is_a<Complement>(s)) {
        const Complement &c = down_cast<const Complement &>(s);
        VSet u = interp(*c.get_universe(), images), k = interp(*c.get_container(), images);
        if (!u.ok)
            return u;
        if (!k.ok)
            return k;
        VSet r = vminus(u, k);
        // "domain \ {poles}" is the natural closed form of a cofinite answer
        r.evaluated = (u.kind != FIN && u.vals.empty() && is_a<FiniteSet>(*c.get_container()));
        return r;
    }
    if (is_a<ImageSet>(s) && images) {
        const ImageSet &im_ = down_cast<const ImageSet &>(s);
        if (!is_a<Interval>(*im_.get_baseset()))
            return fail("imageset-base:" + type_code_name(im_.get_baseset()->get_type_code()));
        const Interval &iv = down_cast<const Interval &>(*im_.get_baseset());
        if (!(eq(*iv.get_start(), *NegInf) && eq(*iv.get_end(), *Inf)))
            return fail("imageset-base-interval");
        if (!is_a_sub<Symbol>(*im_.get_symbol()))
            return fail("imageset-symbol");
        std::string n = down_cast<const Symbol &>(*im_.get_symbol()).get_name();
        VSet r;
        for (int k = -NR; k <= NR; k++) {
            Env e;
            e.sym[n] = mkc(k, 0);
            Value v = refeval(*im_.get_expr(), e);
            if (!v.ok)
                return fail("image-element:" + v.why);
            addval(r.vals, v.v);
        }
        images->images.push_back({im_.get_symbol(), im_.get_expr()});
        return r;
    }
    return fail("unevaluated:" + type_code_name(s.get_type_code()));
}

// ------------------------------------------------------------------ rational-function model of an expression tree
struct RF {
    bool ok = true;
    Poly n, d = {mpq_class(1)}, poles = {mpq_class(1)}; // value n/d ; poles = product of every denominator met
};
static RF rf_model(const Basic &e, const std::string &xname)
{
    RF r;
    if (is_a<Integer>(e)) {
        r.n = {mpq_class(to_mpz(down_cast<const Integer &>(e).as_integer_class()))};
        trim(r.n);
        return r;
    }
    if (is_a<Rational>(e)) {
        r.n = {to_mpq(down_cast<const Rational &>(e).as_rational_class())};
        return r;
    }
    if (is_a<Symbol>(e)) {
        if (down_cast<const Symbol &>(e).get_name() != xname) {
            r.ok = false;
            return r;
        }
        r.n = {mpq_class(0), mpq_class(1)};
        return r;
    }
    if (is_a<Add>(e) || is_a<Mul>(e)) {
        bool ad = is_a<Add>(e);
        if (!ad)
            r.n = {mpq_class(1)};
        for (auto &a : e.get_args()) {
            RF x = rf_model(*a, xname);
            if (!x.ok)
                return x;
            if (ad) {
                r.n = padd(pmul(r.n, x.d), pmul(x.n, r.d));
                r.d = pmul(r.d, x.d);
            } else {
                r.n = pmul(r.n, x.n);
                r.d = pmul(r.d, x.d);
            }
            r.poles = pmul(r.poles, x.poles);
        }
        return r;
    }
    if (is_a<Pow>(e)) {
        const Pow &p = down_cast<const Pow &>(e);
        long k;
        if (!small_int(*p.get_exp(), k) || k > 8 || k < -8) {
            r.ok = false;
            return r;
        }
        RF b = rf_model(*p.get_base(), xname);
        if (!b.ok)
            return b;
        r.poles = b.poles;
        if (k >= 0) {
            r.n = ppow(b.n, k);
            r.d = ppow(b.d, k);
        } else {
            if (b.n.empty()) {
                r.ok = false; // 1/0
                return r;
            }
            r.n = ppow(b.d, -k);
            r.d = ppow(b.n, -k);
            r.poles = pmul(r.poles, b.n);
        }
        return r;
    }
    r.ok = false;
    return r;
}

struct Expect {
    bool ok = true;
    std::string why;
    VSet set;
    Poly num, poles;
    int n_distinct = 0, n_real = 0;
};
enum Dom { D_UNIV, D_REALS, D_COMPLEXES };
static const char *DOMN[] = {"UniversalSet", "Reals", "Complexes"};
static RCP<const Set> domset(int d)
{
    return d == D_UNIV ? (RCP<const Set>)universalset() : d == D_REALS ? (RCP<const Set>)reals() : (RCP<const Set>)complexes();
}

// exact solution set of f(x) = 0 for the rational expression f (as written), within the domain
static Expect expect_rational(const Basic &f, int dom)
{
    Expect E;
    RF m = rf_model(f, "x");
    if (!m.ok) {
        E.ok = false;
        E.why = "model-unsupported-node";
        return E;
    }
    E.num = m.n;
    E.poles = m.poles;
    Poly sp = psqfree(m.poles);
    std::vector<cq> z;
    if (m.n.empty()) { // identically zero where defined
        if (!dk_roots(sp, z)) {
            E.ok = false;
            E.why = "reference-roots-failed";
            return E;
        }
        E.set.kind = dom == D_REALS ? COFIN_R : COFIN_C;
        for (auto &v : z)
            if (dom != D_REALS || vreal(v))
                E.set.vals.push_back(v);
        if ((int)z.size() != deg(sp)) {
            E.ok = false;
            E.why = "reference-count-mismatch";
        }
        return E;
    }
    Poly s = psqfree(m.n), g = pgcd(s, sp), t, rem;
    pdivmod(s, g, t, rem);
    E.n_distinct = std::max(0, deg(t));
    E.n_real = sturm_count(t);
    if (!dk_roots(t, z)) {
        E.ok = false;
        E.why = "reference-roots-failed";
        return E;
    }
    int nreal = 0;
    for (auto &v : z)
        if (vreal(v))
            nreal++;
    // the exact counts (gcd over Q, Sturm) must agree with the numeric reference roots
    std::vector<cq> ded;
    for (auto &v : z)
        addval(ded, v);
    if ((int)ded.size() != E.n_distinct || nreal != E.n_real) {
        E.ok = false;
        E.why = "reference-count-mismatch";
        return E;
    }
    for (auto &v : z)
        if (dom != D_REALS || vreal(v))
            E.set.vals.push_back(v);
    return E;
}

// ------------------------------------------------------------------ implementation path class (signature only)
static std::string tname(const RCP<const Set> &s)
{
    return type_code_name(s->get_type_code());
}
static RCP<const Basic> bq(const mpq_class &q)
{
    return Rational::from_two_ints(q.get_num().get_si(), q.get_den().get_si());
}
static vec_basic bvec(const std::vector<mpq_class> &c)
{
    vec_basic v;
    for (auto &q : c)
        v.push_back(bq(q));
    return v;
}
// Mirrors only the *branch conditions* of solve_poly_{quadratic,cubic,quartic} (exact arithmetic) to name the code
// path; for paths that down_cast the result of a sub-solve the type of that sub-result is observed by calling the
// public sub-solver. Used for signatures, never for the verdict.
// The sub-solves are observed the way solve.cpp calls them: since the fix of the bad down_cast (sub-solves used to
// receive the caller's domain and could return EmptySet / Intersection) they run over the default domain.
static const RCP<const Set> subdom = universalset();
static std::string quad_class(const std::vector<mpq_class> &c)
{
    mpq_class b = c[1] / c[2], cc = c[0] / c[2];
    return cc == 0 ? "quadratic(c=0)" : b == 0 ? "quadratic(b=0)" : "quadratic";
}
static std::string cubic_class(const std::vector<mpq_class> &c, const RCP<const Set> &dom, bool &castbad)
{
    mpq_class a = c[3], b = c[2] / a, cc = c[1] / a, d = c[0] / a;
    if (d == 0) {
        std::vector<mpq_class> q = {cc, b, mpq_class(1)};
        std::string sub = "?";
        try {
            sub = tname(solve_poly_quadratic(bvec(q), subdom));
        } catch (std::exception &) {
            sub = "throw";
        }
        if (sub != "FiniteSet")
            castbad = true;
        return "cubic(d=0)>" + quad_class(q) + ":sub=" + sub;
    }
    mpq_class d0 = b * b - 3 * cc, d1 = 2 * b * b * b - 9 * b * cc + 27 * d, delta = (4 * d0 * d0 * d0 - d1 * d1) / 27;
    if (delta == 0)
        return d0 == 0 ? "cubic(delta=0,delta0=0)" : "cubic(delta=0)";
    return "cubic(general)";
}
static std::string sub_cubic(const std::vector<mpq_class> &c, const RCP<const Set> &dom, bool &castbad)
{
    bool inner = false;
    std::string cl = cubic_class(c, dom, inner);
    if (inner) {
        castbad = true;
        return cl;
    }
    std::string sub = "?";
    try {
        sub = tname(solve_poly_cubic(bvec(c), subdom));
    } catch (std::exception &) {
        sub = "throw";
    }
    if (sub != "FiniteSet")
        castbad = true;
    return cl + ":sub=" + sub;
}
static std::string path_class(const Poly &p, int domi, bool &castbad)
{
    castbad = false;
    RCP<const Set> dom = domset(domi);
    switch (deg(p)) {
        case -1:
        case 0:
            return "constant";
        case 1:
            return "linear";
        case 2:
            return quad_class(p);
        case 3:
            return cubic_class(p, dom, castbad);
        case 4: {
            mpq_class lc = p[4], a = p[3] / lc, b = p[2] / lc, c = p[1] / lc, d = p[0] / lc;
            if (d == 0)
                return "quartic(d=0)>" + sub_cubic({c, b, a, mpq_class(1)}, dom, castbad);
            mpq_class e = b - 3 * a * a / 8, ff = c + a * a * a / 8 - a * b / 2,
                      g = d + a * a * b / 16 - a * c / 4 - 3 * a * a * a * a / 256;
            if (g == 0)
                return "quartic(g=0)>" + sub_cubic({ff, e, mpq_class(0), mpq_class(1)}, dom, castbad);
            if (ff == 0) {
                std::vector<mpq_class> q = {g, e, mpq_class(1)};
                std::string sub = "?";
                try {
                    sub = tname(solve_poly_quadratic(bvec(q), subdom));
                } catch (std::exception &) {
                    sub = "throw";
                }
                if (sub != "FiniteSet")
                    castbad = true;
                return "quartic(ff=0)>" + quad_class(q) + ":sub=" + sub;
            }
            return "quartic(euler)";
        }
    }
    return "deg>4";
}

// ------------------------------------------------------------------ cases
struct Case {
    std::string family; // poly | rational
    std::string form;   // construction recipe (human readable)
    RCP<const Basic> f;
    int dom;
    Poly p; // poly family: the coefficient vector
};
static std::vector<Case> EQ; // poly + rational
static RCP<const Symbol> X;

static RCP<const Basic> poly_expr(const Poly &p)
{
    RCP<const Basic> r = zero;
    for (size_t i = 0; i < p.size(); i++)
        r = add(r, mul(bq(p[i]), pow(X, integer((int)i))));
    return r;
}

enum { K_JUDGED_EVALUATED, K_JUDGED_UNEVALUATED_FORM, K_UNDECIDED_SETFORM, K_UNDECIDED_ELEMENT, K_ORACLE_FAIL, K_REFUSED,
       K_MEMBERS_RESIDUAL_CHECKED, K_NONEMPTY_EXPECTED, K_CASTBAD_PATH, K_TRIG_JUDGED, K_TRIG_UNDECIDED, K_TRIG_MEMBERS,
       K_LIN_CHECKED, K_LIN_SINGULAR_SKIPPED };

// Mirrors the dispatch of solve() / solve_rational() (Mul -> factors; as_numer_denom -> solve(num), solve(den); else
// solve_poly) down to the polynomial sub-solves and reports the first one that lies on a path that down_casts a
// non-FiniteSet sub-result ("" if none).  Signature only.
static std::string rational_badcast_path(const RCP<const Basic> &e, int dom, int depth = 0)
{
    try {
        if (depth > 4 || is_a_Number(*e) || !has_symbol(*e, *X))
            return "";
        if (is_a<Mul>(*e)) {
            for (auto &a : e->get_args()) {
                std::string r = rational_badcast_path(a, dom, depth + 1);
                if (!r.empty())
                    return r;
            }
            return "";
        }
        RCP<const Basic> num, den;
        as_numer_denom(e, outArg(num), outArg(den));
        if (has_symbol(*den, *X)) {
            std::string r = rational_badcast_path(num, dom, depth + 1);
            return r.empty() ? rational_badcast_path(den, dom, depth + 1) : r;
        }
        RF m = rf_model(*num, "x");
        if (!m.ok || deg(m.d) != 0 || deg(m.n) < 3 || deg(m.n) > 4)
            return "";
        bool cb = false;
        std::string pc = path_class(m.n, dom, cb);
        return cb ? pc : "";
    } catch (std::exception &) {
        return "";
    }
}

static std::string eq_sigbase(const Case &cs)
{
    std::string path = cs.family;
    if (cs.family == "poly") {
        bool cb;
        path = "poly:" + path_class(cs.p, cs.dom, cb);
    } else {
        path = "rational:" + std::string(is_a<Mul>(*cs.f) ? "Mul" : is_a<Add>(*cs.f) ? "Add" : is_a<Pow>(*cs.f) ? "Pow" : "other");
        std::string bc = rational_badcast_path(cs.f, cs.dom);
        if (!bc.empty())
            path += ">" + bc;
        else if (!is_a<Mul>(*cs.f)) {
            // solve_rational computes solve(num) \ solve(den): observe the form of the denominator's solution set
            try {
                RCP<const Basic> num, den;
                as_numer_denom(cs.f, outArg(num), outArg(den));
                if (has_symbol(*den, *X)) {
                    std::string t = tname(solve(den, X, domset(cs.dom)));
                    if (t != "FiniteSet" && t != "EmptySet")
                        path += ":den=" + t;
                }
            } catch (std::exception &) {
            }
        }
    }
    return path + "[" + DOMN[cs.dom] + "]";
}

static void run_eq(const Case &cs, Ctx &c)
{
    c.eval();
    Expect E = expect_rational(*cs.f, cs.dom);
    std::string what = "solve(" + sstr(cs.f) + ", x, " + DOMN[cs.dom] + ")";
    if (!E.ok) {
        c.count(K_ORACLE_FAIL);
        c.outcome("oracle:" + E.why);
        if (getenv("VERIF_C30_DEBUG"))
            fprintf(stderr, "DBG oracle %s: %s\n", E.why.c_str(), what.c_str());
        return;
    }
    bool castbad = false;
    if (cs.family == "poly") {
        path_class(cs.p, cs.dom, castbad);
        if (castbad)
            c.count(K_CASTBAD_PATH);
    }
    if (!E.set.vals.empty() || E.set.kind != FIN)
        c.count(K_NONEMPTY_EXPECTED);
    RCP<const Set> s;
    try {
        s = solve(cs.f, X, domset(cs.dom));
    } catch (SymEngineException &x) {
        c.count(K_REFUSED);
        c.outcome(std::string("throw:") + x.what());
        return;
    }
    if (deg(E.num) >= 1)
        c.nontrivial();
    VSet got = interp(*s, nullptr);
    std::string shape = tname(s);
    if (!got.ok) {
        if (got.nonnumber) {
            c.violation(eq_sigbase(cs) + ":non-number-member", what + " returned " + sstr(s) + " which contains a member that is not a number (" + got.why + ")");
            return;
        }
        c.count(got.why.rfind("element:", 0) == 0 ? K_UNDECIDED_ELEMENT : K_UNDECIDED_SETFORM);
        c.outcome(shape + " undecided " + got.why);
        if (getenv("VERIF_C30_DEBUG"))
            fprintf(stderr, "DBG undecided %s: %s = %s\n", got.why.c_str(), what.c_str(), sstr(s).substr(0, 300).c_str());
        return;
    }
    c.count(got.evaluated ? K_JUDGED_EVALUATED : K_JUDGED_UNEVALUATED_FORM);
    c.outcome(shape + (got.kind == FIN ? "/" + std::to_string(got.vals.size()) : "/cofinite") + (got.evaluated ? "" : " (operator form)"));
    // 1. soundness: every member is a root (residual) and not a pole
    std::string expected = vstr(E.set) + " [numerator " + pstr(E.num) + ", denominators " + pstr(E.poles) + ", distinct roots "
                           + std::to_string(E.n_distinct) + ", real " + std::to_string(E.n_real) + "]";
    if (got.kind == FIN) {
        for (auto &v : got.vals) {
            rq sn, sp;
            cq rn = peval(E.num, v, &sn), rp = peval(E.poles, v, &sp);
            c.count(K_MEMBERS_RESIDUAL_CHECKED);
            if (absq(rp) <= 0x1p-60Q * sp) {
                c.violation(eq_sigbase(cs) + ":pole-returned",
                            what + " = " + sstr(s) + " contains " + cstr(v, 12) + " where a denominator of the expression vanishes; expected " + expected);
                return;
            }
            if (absq(rn) > 0x1p-60Q * sn || E.num.empty()) {
                if (E.num.empty())
                    break; // judged by set comparison below
                c.violation(eq_sigbase(cs) + ":non-root-returned",
                            what + " = " + sstr(s) + " contains " + cstr(v, 12) + " with residual " + qstr(absq(rn), 6) + "; expected " + expected);
                return;
            }
            if (cs.dom == D_REALS && !vreal(v)) {
                c.violation(eq_sigbase(cs) + ":non-real-member", what + " = " + sstr(s) + " contains non-real " + cstr(v, 12));
                return;
            }
        }
    }
    // 2. exactness: same set of values
    if (!same_set(got, E.set)) {
        std::string kind = got.kind != E.set.kind ? "wrong-kind" : "missing-root";
        if (got.kind == FIN && E.set.kind == FIN && got.vals.size() > E.set.vals.size())
            kind = "extra-member";
        c.violation(eq_sigbase(cs) + ":" + kind + (got.evaluated ? "" : "/operator-form"), what + " = " + sstr(s) + " denotes " + vstr(got) + "; expected " + expected);
        return;
    }
    if (c.index % 397 == 0)
        c.sample("{\"call\":" + jstr(what) + ",\"returned\":" + jstr(sstr(s).substr(0, 200)) + ",\"expected\":" + jstr(vstr(E.set)) + "}");
}

// ------------------------------------------------------------------ trig
struct TrigCase {
    std::string name;
    RCP<const Basic> f;
    int dom;
    std::string cls;                        // signature class (function family)
    std::vector<std::pair<cq, cq>> sols;    // reference: base solution, period (complex allowed)
    bool ref_ok = true;
};
static std::vector<TrigCase> TR;

static void run_trig(const TrigCase &t, Ctx &c)
{
    c.eval();
    c.nontrivial();
    std::string what = "solve(" + sstr(t.f) + ", x, " + DOMN[t.dom] + ")";
    std::string sigb = "trig:" + t.cls + "[" + DOMN[t.dom] + "]";
    RCP<const Set> s;
    try {
        s = solve(t.f, X, domset(t.dom));
    } catch (SymEngineException &x) {
        c.count(K_REFUSED);
        c.outcome(std::string("throw:") + x.what());
        return;
    }
    Interp im_;
    VSet got = interp(*s, &im_);
    if (!got.ok) {
        c.count(K_TRIG_UNDECIDED);
        c.outcome("trig " + tname(s) + " undecided " + got.why);
        return;
    }
    if (got.kind != FIN) {
        c.violation(sigb + ":wrong-kind", what + " = " + sstr(s) + " (a cofinite set)");
        return;
    }
    c.count(K_TRIG_JUDGED);
    c.outcome("trig " + tname(s) + " images=" + std::to_string(im_.images.size()) + " members=" + std::to_string(got.vals.size()));
    // soundness: members (n in [-NR,NR]) satisfy the equation
    for (auto &v : got.vals) {
        Env e;
        e.sym["x"] = v;
        Value r = refeval(*t.f, e);
        if (!r.ok) {
            if (r.why == "pole") {
                c.violation(sigb + ":pole-returned", what + " = " + sstr(s) + " contains " + cstr(v, 12) + " where the expression has a pole");
                return;
            }
            continue;
        }
        c.count(K_TRIG_MEMBERS);
        if (absq(r.v) > 1e-20Q * fmaxq(r.scale, 1)) {
            // symptom class: the member shifted by pi is a root (angle taken in the wrong quadrant)
            Env e2;
            e2.sym["x"] = v + mkc(M_PIq, 0);
            Value r2 = refeval(*t.f, e2);
            bool offpi = r2.ok && absq(r2.v) <= 1e-20Q * fmaxq(r2.scale, 1);
            c.violation((offpi ? "trig[" + std::string(DOMN[t.dom]) + "]:off-by-pi" : sigb) + ":non-root-returned",
                        what + " = " + sstr(s) + " contains " + cstr(v, 12) + " where the expression is " + cstr(r.v, 8)
                            + (offpi ? " (that member + pi is a root)" : ""));
            return;
        }
        if (t.dom == D_REALS && !vreal(v)) {
            c.violation(sigb + ":non-real-member", what + " = " + sstr(s) + " contains non-real " + cstr(v, 12));
            return;
        }
    }
    // completeness: every reference solution x_e + m*T (m = -1,0,1) is among the members for n in [-NR,NR]
    for (auto &st : t.sols)
        for (int m = -1; m <= 1; m++) {
            cq xe = st.first + st.second * mkc(m, 0);
            if (t.dom == D_REALS && !vreal(xe))
                continue;
            if (!has(got.vals, xe)) {
                bool offpi = has(got.vals, xe + mkc(M_PIq, 0)) || has(got.vals, xe - mkc(M_PIq, 0));
                c.violation((offpi ? "trig[" + std::string(DOMN[t.dom]) + "]:off-by-pi" : sigb) + ":missing-root",
                            what + " = " + sstr(s) + " does not contain the solution x = " + cstr(xe, 14)
                                + (offpi ? " (but contains that value shifted by pi)" : "") + " (members for n in [-4,4]: "
                                + vstr(got).substr(0, 400) + ")");
                return;
            }
        }
    if (c.index % 37 == 0)
        c.sample("{\"call\":" + jstr(what) + ",\"returned\":" + jstr(sstr(s).substr(0, 200)) + "}");
}

static void build_trig(bool thorough)
{
    auto i_ = [](long k) { return (RCP<const Basic>)integer(k); };
    auto Q = [](long a, long b) { return (RCP<const Basic>)Rational::from_two_ints(a, b); };
    struct Num {
        std::string n;
        RCP<const Basic> e;
        cq v;
    };
    std::vector<Num> as = {{"1", i_(1), mkc(1, 0)}, {"2", i_(2), mkc(2, 0)}, {"-1", i_(-1), mkc(-1, 0)}};
    std::vector<Num> bs = {{"1", i_(1), mkc(1, 0)}, {"2", i_(2), mkc(2, 0)}, {"-1", i_(-1), mkc(-1, 0)}, {"1/2", Q(1, 2), mkc(0.5Q, 0)}};
    std::vector<Num> cs_ = {{"0", i_(0), mkc(0, 0)}, {"1", i_(1), mkc(1, 0)}, {"pi/3", div(pi, i_(3)), mkc(M_PIq / 3, 0)}};
    std::vector<Num> ds = {{"0", i_(0), mkc(0, 0)},         {"1", i_(1), mkc(1, 0)},   {"-1", i_(-1), mkc(-1, 0)},
                           {"1/2", Q(1, 2), mkc(0.5Q, 0)},  {"2", i_(2), mkc(2, 0)},   {"1/3", Q(1, 3), mkc(1.0Q / 3, 0)},
                           {"I", I, mkc(0, 1)}};
    if (!thorough) {
        as.resize(2);
        bs.resize(3);
    }
    const char *FN[] = {"sin", "cos", "tan", "cot", "sec", "csc"};
    auto F = [&](int k, const RCP<const Basic> &y) -> RCP<const Basic> {
        switch (k) {
            case 0:
                return sin(y);
            case 1:
                return cos(y);
            case 2:
                return tan(y);
            case 3:
                return cot(y);
            case 4:
                return sec(y);
            default:
                return csc(y);
        }
    };
    // reference solutions y of F(y) = s in one period, with the period
    auto refsol = [&](int k, cq s, std::vector<cq> &ys, cq &P) {
        cq one_ = mkc(1, 0), pi_ = mkc(M_PIq, 0);
        P = (k == 2 || k == 3) ? pi_ : mkc(2 * M_PIq, 0);
        ys.clear();
        if (k == 4 || k == 5) { // sec y = s <=> cos y = 1/s ; csc y = s <=> sin y = 1/s
            if (s == 0)
                return;
            s = one_ / s;
            k = (k == 4) ? 1 : 0;
        }
        if (k == 3) { // cot y = t
            if (s == 0) {
                ys.push_back(pi_ / mkc(2, 0));
                return;
            }
            s = one_ / s;
            k = 2;
        }
        if (k == 0) {
            cq a = casinq(s);
            addval(ys, a);
            addval(ys, pi_ - a);
        } else if (k == 1) {
            cq a = cacosq(s);
            addval(ys, a);
            addval(ys, -a);
        } else {
            if (veq(s, mkc(0, 1)) || veq(s, mkc(0, -1)))
                return;
            addval(ys, catanq(s));
        }
    };
    // Over Reals every ImageSet answer runs into the unbounded recursion Reals::set_intersection <-> set_intersection (a crash
    // costs seconds: stack exhaustion + replay alone), so that domain gets a reduced menu: a = b = 1, c = 0 (quick: d in {0, 1/2}).
    for (int dom : {D_UNIV, D_REALS})
        for (int k = 0; k < 6; k++)
            for (auto &a : as)
                for (auto &b : bs)
                    for (auto &cc : cs_)
                        for (auto &d : ds) {
                            if (dom == D_REALS && (&a != &as[0] || &b != &bs[0] || &cc != &cs_[0]))
                                continue;
                            if (dom == D_REALS && !thorough && d.n != "0" && d.n != "1/2")
                                continue;
                            TrigCase t;
                            t.dom = dom;
                            t.cls = std::string(FN[k]) + ((b.n == "1" || b.n == "-1") ? "" : "(multiple-angle)");
                            RCP<const Basic> y = add(mul(b.e, X), cc.e);
                            t.f = sub(mul(a.e, F(k, y)), d.e);
                            t.name = a.n + "*" + FN[k] + "(" + b.n + "*x+" + cc.n + ") = " + d.n;
                            std::vector<cq> ys;
                            cq P;
                            refsol(k, d.v / a.v, ys, P);
                            for (auto &yv : ys)
                                t.sols.push_back({(yv - cc.v) / b.v, P / b.v});
                            TR.push_back(t);
                        }
    // a1 sin x + a2 cos x = d  (w = e^{ix}: (a2/2 + a1/(2i)) w^2 - d w + (a2/2 - a1/(2i)) = 0)
    for (int dom : {D_UNIV, D_REALS})
        for (auto a1 : {1, -1, 2})
            for (auto a2 : {1, 2})
                for (auto &d : ds) {
                    if (dom == D_REALS && (a1 != 1 || a2 != 1 || (!thorough && d.n != "0")))
                        continue;
                    TrigCase t;
                    t.dom = dom;
                    t.cls = "sin+cos";
                    t.f = sub(add(mul(i_(a1), sin(X)), mul(i_(a2), cos(X))), d.e);
                    t.name = std::to_string(a1) + "*sin(x)+" + std::to_string(a2) + "*cos(x) = " + d.n;
                    cq A = mkc(a2 / 2.0Q, -a1 / 2.0Q), C = mkc(a2 / 2.0Q, a1 / 2.0Q), B = -d.v;
                    cq disc = csqrtq(B * B - mkc(4, 0) * A * C);
                    std::vector<cq> ws;
                    addval(ws, (-B + disc) / (mkc(2, 0) * A));
                    addval(ws, (-B - disc) / (mkc(2, 0) * A));
                    for (auto &w : ws)
                        if (absq(w) > 1e-20Q)
                            t.sols.push_back({mkc(0, -1) * clogq(w), mkc(2 * M_PIq, 0)});
                    TR.push_back(t);
                }
    // products and hyperbolic functions (zeros known in closed form)
    struct Fix {
        std::string n, cls;
        RCP<const Basic> f;
        std::vector<std::pair<cq, cq>> sols;
    };
    cq pi_ = mkc(M_PIq, 0), ipi = mkc(0, M_PIq), h = mkc(0.5Q, 0);
    std::vector<Fix> fx = {
        {"sin(x)*cos(x)", "product", mul(sin(X), cos(X)), {{mkc(0, 0), pi_ * h}}},
        {"sin(x)**2", "power", pow(sin(X), i_(2)), {{mkc(0, 0), pi_}}},
        {"cos(x)**2 + cos(x)", "polynomial-in-cos", add(pow(cos(X), i_(2)), cos(X)), {{pi_ * h, pi_}, {pi_, pi_ * mkc(2, 0)}}},
        {"sin(x) + tan(x)", "sin+tan", add(sin(X), tan(X)), {{mkc(0, 0), pi_}}},
        {"sin(x)**2 + cos(x)**2", "identity", add(pow(sin(X), i_(2)), pow(cos(X), i_(2))), {}},
        {"sinh(x)", "hyperbolic", sinh(X), {{mkc(0, 0), ipi}}},
        {"cosh(x) - 1", "hyperbolic", sub(cosh(X), one), {{mkc(0, 0), ipi * mkc(2, 0)}}},
        {"cosh(x)", "hyperbolic", cosh(X), {{ipi * h, ipi}}},
        {"tanh(x)", "hyperbolic", tanh(X), {{mkc(0, 0), ipi}}},
        {"sinh(x) - 1", "hyperbolic", sub(sinh(X), one), {{casinhq(mkc(1, 0)), ipi * mkc(2, 0)}, {ipi - casinhq(mkc(1, 0)), ipi * mkc(2, 0)}}},
    };
    for (int dom : {D_UNIV, D_REALS})
        for (auto &f : fx) {
            if (dom == D_REALS && !thorough && f.cls != "hyperbolic")
                continue;
            TrigCase t;
            t.dom = dom;
            t.cls = f.cls;
            t.f = f.f;
            t.name = f.n + " = 0";
            t.sols = f.sols;
            TR.push_back(t);
        }
}

// ------------------------------------------------------------------ main
int main(int argc, char **argv)
{
    init(argc, argv, "C30");
    bool thorough = opts().thorough();
    X = symbol("x");
    Run &R = run();

    // ---- polynomial family
    std::vector<mpq_class> alpha;
    auto enum_polys = [&](int d, const std::vector<mpq_class> &al, std::set<std::vector<std::string>> &seen, std::vector<Poly> &out) {
        // all coefficient vectors of exact degree d (d = 0 includes the zero polynomial), simplest first
        long n = 1;
        for (int i = 0; i <= d; i++)
            n *= al.size();
        for (long k = 0; k < n; k++) {
            Poly p(d + 1);
            long t = k;
            for (int i = 0; i <= d; i++) {
                p[i] = al[t % al.size()];
                t /= al.size();
            }
            if (d > 0 && p[d] == 0)
                continue;
            trim(p);
            std::vector<std::string> key_;
            for (auto &c : p)
                key_.push_back(c.get_str());
            if (seen.insert(key_).second)
                out.push_back(p);
        }
    };
    std::vector<mpq_class> A1 = {0, 1, -1}, A2 = {0, 1, -1, 2, -2},
                           AH = {0, 1, -1, 2, -2, mpq_class(1, 2), mpq_class(-1, 2)}, AH1 = {0, 1, -1, mpq_class(1, 2), mpq_class(-1, 2)};
    std::vector<Poly> polys;
    std::set<std::vector<std::string>> seen;
    for (int d = 0; d <= 3; d++)
        enum_polys(d, A2, seen, polys);
    enum_polys(4, A1, seen, polys);
    if (thorough) {
        enum_polys(4, A2, seen, polys);
        for (int d = 0; d <= 3; d++)
            enum_polys(d, AH, seen, polys);
        enum_polys(4, AH1, seen, polys);
    }
    // factored-form cubics and quartics: every multiset of 3 or 4 roots from {-2,..,3} (repeated roots, a root equal to
    // the mean of the roots -- the depressed quartic's g == 0 branch --, symmetric root sets -- its f == 0 branch) and
    // two real roots times an irreducible/irrational quadratic.  Their expanded coefficients lie outside the small
    // coefficient boxes above (added after seeded change C30 -- swapped coefficients in the g == 0 branch -- escaped them)
    {
        auto mulp = [](const Poly &a, const Poly &b) {
            Poly r(a.size() + b.size() - 1, mpq_class(0));
            for (size_t i = 0; i < a.size(); i++)
                for (size_t j = 0; j < b.size(); j++)
                    r[i + j] += a[i] * b[j];
            return r;
        };
        auto lin = [](int r) { return Poly{mpq_class(-r), mpq_class(1)}; };
        auto addp = [&](Poly p) {
            trim(p);
            std::vector<std::string> key_;
            for (auto &c : p)
                key_.push_back(c.get_str());
            if (seen.insert(key_).second)
                polys.push_back(p);
        };
        const int lo = -2, hi = thorough ? 4 : 3;
        for (int a = lo; a <= hi; a++)
            for (int b = a; b <= hi; b++)
                for (int c = b; c <= hi; c++) {
                    addp(mulp(mulp(lin(a), lin(b)), lin(c)));
                    for (int d = c; d <= hi; d++)
                        addp(mulp(mulp(lin(a), lin(b)), mulp(lin(c), lin(d))));
                }
        std::vector<Poly> quads = {{1, 0, 1}, {1, 1, 1}, {-2, 0, 1}, {2, -2, 1}};
        for (int a = lo; a <= hi; a++)
            for (int b = a; b <= hi; b++)
                for (auto &q : quads)
                    addp(mulp(mulp(lin(a), lin(b)), q));
    }
    size_t npoly = 0;
    for (auto &p : polys)
        for (int dom : {D_UNIV, D_REALS, D_COMPLEXES}) {
            Case cs;
            cs.family = "poly";
            cs.p = p;
            cs.dom = dom;
            cs.f = poly_expr(p);
            cs.form = "sum c_i*x^i, c=" + pstr(p);
            EQ.push_back(cs);
            npoly++;
        }
    // ---- rational family: linear factors over roots {0,1,-1,2}; products are expanded so that common factors survive
    {
        std::vector<long> roots = {0, 1, -1, 2};
        std::vector<std::pair<std::string, RCP<const Basic>>> nums, dens;
        nums.push_back({"1", one});
        for (size_t i = 0; i < roots.size(); i++) {
            RCP<const Basic> l = sub(X, integer(roots[i]));
            nums.push_back({"(x-" + std::to_string(roots[i]) + ")", l});
            dens.push_back({"(x-" + std::to_string(roots[i]) + ")", l});
        }
        for (size_t i = 0; i < roots.size(); i++)
            for (size_t j = i; j < roots.size(); j++) {
                RCP<const Basic> q = expand(mul(sub(X, integer(roots[i])), sub(X, integer(roots[j]))));
                std::string n = "expand((x-" + std::to_string(roots[i]) + ")(x-" + std::to_string(roots[j]) + "))";
                nums.push_back({n, q});
                dens.push_back({n, q});
            }
        nums.push_back({"(x^2+1)", add(pow(X, integer(2)), one)});
        nums.push_back({"(x^2-2)", sub(pow(X, integer(2)), integer(2))});
        dens.push_back({"(x^2+1)", add(pow(X, integer(2)), one)});
        dens.push_back({"(x^2-2)", sub(pow(X, integer(2)), integer(2))});
        for (int dom : {D_UNIV, D_REALS}) {
            for (auto &n : nums)
                for (auto &d : dens) {
                    Case cs;
                    cs.family = "rational";
                    cs.dom = dom;
                    cs.f = div(n.second, d.second);
                    cs.form = n.first + "/" + d.first;
                    EQ.push_back(cs);
                }
            // sums of two fractions (reach solve_rational), small numerators; optional constant
            size_t nn = thorough ? 7 : 5; // 1, the four linear factors (+2 quadratics)
            size_t nd = thorough ? dens.size() : 10;
            for (size_t i1 = 0; i1 < nn; i1++)
                for (size_t j1 = 0; j1 < nd; j1++)
                    for (size_t i2 = 0; i2 < nn; i2++)
                        for (size_t j2 = j1; j2 < nd; j2++)
                            for (int sgn_ : {1, -1}) {
                                if (j1 == j2 && i2 < i1)
                                    continue;
                                Case cs;
                                cs.family = "rational";
                                cs.dom = dom;
                                RCP<const Basic> t1 = div(nums[i1].second, dens[j1].second), t2 = div(nums[i2].second, dens[j2].second);
                                cs.f = sgn_ > 0 ? add(t1, t2) : sub(t1, t2);
                                cs.form = nums[i1].first + "/" + dens[j1].first + (sgn_ > 0 ? " + " : " - ") + nums[i2].first + "/" + dens[j2].first;
                                EQ.push_back(cs);
                            }
            // P/Q = c
            for (auto &n : nums)
                for (auto &d : dens)
                    for (long cst : {1, -2}) {
                        Case cs;
                        cs.family = "rational";
                        cs.dom = dom;
                        cs.f = sub(div(n.second, d.second), integer(cst));
                        cs.form = n.first + "/" + d.first + " - " + std::to_string(cst);
                        EQ.push_back(cs);
                    }
        }
    }
    build_trig(thorough);

    printf("[C30] E5: %zu polynomial cases (%zu polynomials x 3 domains), %zu rational cases, %zu trig cases\n", npoly, polys.size(),
           EQ.size() - npoly, TR.size());

    std::vector<std::string> cn = {"eq_judged_evaluated_answer",
                                   "eq_judged_operator_form_answer(Intersection/Union/Complement interpreted)",
                                   "eq_undecided_set_form(ConditionSet etc)",
                                   "eq_undecided_member_not_evaluable",
                                   "eq_oracle_failed",
                                   "refused(exception)",
                                   "eq_members_residual_checked",
                                   "eq_cases_with_nonempty_expected_set",
                                   "poly_cases_on_a_downcast_of_non_FiniteSet_path",
                                   "trig_judged",
                                   "trig_undecided(ConditionSet etc)",
                                   "trig_members_plugged_in",
                                   "linsolve_solutions_checked",
                                   "linsolve_singular_skipped"};

    CaseSet ce;
    ce.name = "equations";
    ce.n = EQ.size();
    ce.counter_names = cn;
    ce.hang_s = 30;
    ce.desc = [&](long long i) { return "solve(" + sstr(EQ[i].f) + ", x, " + DOMN[EQ[i].dom] + ") [" + EQ[i].family + ": " + EQ[i].form + "]"; };
    ce.crash_sig = [&](long long i, const std::string &oc) {
        std::string o = oc.rfind("crash", 0) == 0 ? "crash" : oc.rfind("state-dependent", 0) == 0 ? "crash" : oc;
        return eq_sigbase(EQ[i]) + ":" + o;
    };
    ce.body = [&](long long i, Ctx &c) {
        auto cpu = []() {
            struct timespec ts;
            clock_gettime(CLOCK_PROCESS_CPUTIME_ID, &ts);
            return ts.tv_sec + 1e-9 * ts.tv_nsec;
        };
        double t0 = cpu();
        run_eq(EQ[i], c);
        if (getenv("VERIF_C30_TIMING"))
            fprintf(stderr, "T %.4f %lld %s\n", cpu() - t0, i, ce.desc(i).substr(0, 150).c_str());
    };
    const char *only = getenv("VERIF_C30_ONLY"); // development aid: run one family
    auto want = [&](const char *n) { return !only || std::string(only) == n; };
    if (want("equations"))
        run_cases(ce);

    CaseSet ct;
    ct.name = "trig";
    ct.n = TR.size();
    ct.counter_names = cn;
    ct.hang_s = 30;
    ct.desc = [&](long long i) { return "solve(" + sstr(TR[i].f) + ", x, " + DOMN[TR[i].dom] + ") [" + TR[i].name + "]"; };
    ct.crash_sig = [&](long long i, const std::string &oc) {
        std::string o = oc.rfind("crash", 0) == 0 ? "crash" : oc.rfind("state-dependent", 0) == 0 ? "crash" : oc;
        return std::string("trig[") + DOMN[TR[i].dom] + "]:" + o;
    };
    ct.body = [&](long long i, Ctx &c) { run_trig(TR[i], c); };
    if (want("trig"))
        run_cases(ct);

    // ---- linsolve: 2x2 over [-2,2] (A and b), 3x3 over {-1,0,1}
    RCP<const Symbol> sx = symbol("x"), sy = symbol("y"), sz = symbol("z");
    auto lin_case = [&](int n, const std::vector<int> &A, const std::vector<int> &b, Ctx &c, const std::string &d) {
        // exact determinant
        mpq_class det;
        if (n == 2)
            det = A[0] * A[3] - A[1] * A[2];
        else
            det = A[0] * (A[4] * A[8] - A[5] * A[7]) - A[1] * (A[3] * A[8] - A[5] * A[6]) + A[2] * (A[3] * A[7] - A[4] * A[6]);
        if (det == 0) {
            c.count(K_LIN_SINGULAR_SKIPPED);
            return;
        }
        vec_sym syms = {sx, sy};
        if (n == 3)
            syms.push_back(sz);
        for (int form = 0; form < 3; form++) {
            c.eval();
            vec_basic sol;
            try {
                if (form == 0) {
                    DenseMatrix M(n, n + 1);
                    for (int i = 0; i < n; i++) {
                        for (int j = 0; j < n; j++)
                            M.set(i, j, integer(A[i * n + j]));
                        M.set(i, n, integer(b[i]));
                    }
                    sol = linsolve(M, syms);
                } else {
                    vec_basic eqs;
                    for (int i = 0; i < n; i++) {
                        RCP<const Basic> lhs = zero;
                        for (int j = 0; j < n; j++)
                            lhs = add(lhs, mul(integer(A[i * n + j]), syms[j]));
                        if (form == 1)
                            eqs.push_back(sub(lhs, integer(b[i]))); // expression = 0
                        else
                            eqs.push_back(Eq(lhs, integer(b[i])));
                    }
                    sol = linsolve(eqs, syms);
                }
            } catch (SymEngineException &x) {
                c.violation("linsolve:throws-on-regular-system", "linsolve form " + std::to_string(form) + " " + d + " threw " + x.what());
                return;
            }
            bool nt = false;
            for (int i = 0; i < n * n; i++)
                if (i % (n + 1) && A[i])
                    nt = true;
            if (nt)
                c.nontrivial();
            std::vector<mpq_class> xs;
            bool ok = (int)sol.size() == n;
            std::string ss;
            for (auto &e : sol) {
                GQ g;
                ss += sstr(e) + " ";
                if (!to_gq(*e, g) || g.im != 0)
                    ok = false;
                else
                    xs.push_back(g.re);
            }
            if (ok)
                for (int i = 0; i < n && ok; i++) {
                    mpq_class s = 0;
                    for (int j = 0; j < n; j++)
                        s += A[i * n + j] * xs[j];
                    if (s != b[i])
                        ok = false;
                }
            c.count(K_LIN_CHECKED);
            if (form == 0)
                c.outcome("linsolve " + std::to_string(n) + "x" + std::to_string(n) + (ok ? " ok" : " wrong"));
            if (!ok) {
                static const char *FORMN[] = {"augmented-matrix", "expressions", "equalities"};
                c.violation(std::string("linsolve:") + FORMN[form] + ":" + std::to_string(n) + "x" + std::to_string(n) + ":A*x!=b",
                            "linsolve(" + std::string(FORMN[form]) + ") " + d + " returned [ " + ss + "] which does not satisfy A*x = b (det = " + det.get_str() + ")");
                return;
            }
        }
    };
    auto dec2 = [&](long long i, std::vector<int> &A, std::vector<int> &b) {
        A.assign(4, 0);
        b.assign(2, 0);
        for (int k = 0; k < 4; k++) {
            A[k] = (int)(i % 5) - 2;
            i /= 5;
        }
        for (int k = 0; k < 2; k++) {
            b[k] = (int)(i % 5) - 2;
            i /= 5;
        }
    };
    std::vector<std::vector<int>> B3;
    for (int k = 0; k < 27; k++)
        B3.push_back({k % 3 - 1, (k / 3) % 3 - 1, (k / 9) % 3 - 1});
    if (!thorough)
        B3 = {{1, 0, -1}, {1, 1, 1}, {0, 0, 0}};
    auto dec3 = [&](long long i, std::vector<int> &A, std::vector<int> &b) {
        b = B3[i % B3.size()];
        i /= B3.size();
        A.assign(9, 0);
        for (int k = 0; k < 9; k++) {
            A[k] = (int)(i % 3) - 1;
            i /= 3;
        }
    };
    auto ldesc = [&](int n, const std::vector<int> &A, const std::vector<int> &b) {
        std::string o = "A=[";
        for (int i = 0; i < n * n; i++)
            o += (i ? (i % n ? "," : ";") : "") + std::to_string(A[i]);
        o += "] b=[";
        for (int i = 0; i < n; i++)
            o += (i ? "," : "") + std::to_string(b[i]);
        return o + "]";
    };
    CaseSet l2;
    l2.name = "linsolve2x2";
    l2.n = 625 * 25;
    l2.counter_names = cn;
    l2.desc = [&](long long i) {
        std::vector<int> A, b;
        dec2(i, A, b);
        return "linsolve " + ldesc(2, A, b);
    };
    l2.crash_sig = [&](long long, const std::string &oc) { return "linsolve:2x2:" + oc; };
    l2.body = [&](long long i, Ctx &c) {
        std::vector<int> A, b;
        dec2(i, A, b);
        lin_case(2, A, b, c, ldesc(2, A, b));
    };
    if (want("linsolve"))
        run_cases(l2);
    CaseSet l3;
    l3.name = "linsolve3x3";
    l3.n = 19683LL * B3.size();
    l3.counter_names = cn;
    l3.desc = [&](long long i) {
        std::vector<int> A, b;
        dec3(i, A, b);
        return "linsolve " + ldesc(3, A, b);
    };
    l3.crash_sig = [&](long long, const std::string &oc) { return "linsolve:3x3:" + oc; };
    l3.body = [&](long long i, Ctx &c) {
        std::vector<int> A, b;
        dec3(i, A, b);
        lin_case(3, A, b, c, ldesc(3, A, b));
    };
    if (want("linsolve"))
        run_cases(l3);

    R.states = polys.size() + (EQ.size() - npoly) + TR.size() + l2.n + l3.n;
    R.transitions = R.evaluations;
    R.bound_completed = thorough ? "polynomials: degree<=4 coefficients [-2,2], degree<=3 over {0,+-1/2,+-1,+-2}, quartics over {0,+-1/2,+-1}, all cubics/quartics with roots in a multiset of {-2..4} and (x-a)(x-b)*quadratic; "
                                   "rational: P/Q, P/Q-c, P1/Q1+-P2/Q2 over products of <=2 linear factors with roots {0,1,-1,2} and x^2+1, x^2-2; "
                                   "trig a*F(b*x+c)=d full menu; linsolve 2x2 [-2,2] (A,b), 3x3 {-1,0,1} (A, all 27 b)"
                                 : "polynomials: degree<=3 coefficients [-2,2], quartics over [-1,1], all cubics/quartics with roots in a multiset of {-2..3} and (x-a)(x-b)*quadratic; rational: P/Q, P/Q-c, P1/Q1+-P2/Q2 over products of <=2 "
                                   "linear factors with roots {0,1,-1,2} (reduced menu for sums); trig a*F(b*x+c)=d reduced menu; linsolve 2x2 [-2,2] (A,b), "
                                   "3x3 {-1,0,1} (A, 3 right-hand sides)";
    R.rule = "E5: every equation of the stated families x domains {UniversalSet, Reals(, Complexes)} is solved by the real library; the returned Set is "
             "interpreted into numeric members (RefEval 113-bit; Union/Intersection/Complement/ImageSet(n in [-4,4]) evaluated by their set semantics; "
             "ConditionSet = undecided, counted) and compared as a set of values with the exact solution set of the expression as written: mpq "
             "rational-function model read off the tree, distinct roots = deg squarefree part minus roots of denominators (gcd over Q), real roots = Sturm "
             "count, reference values by Weierstrass iteration; each member residual <= 2^-60*scale. Trig: members for n in [-4,4] plugged into the equation "
             "(|f| <= 1e-20*scale) and every closed-form reference solution x_e+m*T, m in {-1,0,1}, must be a member. linsolve: A*x == b exactly in mpq, three "
             "API forms. distinct_nontrivial = cases whose numerator has degree >= 1 / trig cases / systems with an off-diagonal entry";
    R.assumptions = {"libquadmath complex elementary functions; principal branches with arg(negative real)=+pi",
                     "ImageSet base interval(-oo,oo) of solve_trig is read as 'n integer' (documented TODO in solve.cpp)",
                     "value tolerance 1e-12 for set membership (roots of the enumerated polynomials are separated by > 1e-3)",
                     "ConditionSet answers are not judged (counted as undecided)"};
    return R.finish();
}
