// C24  Dense matrix algebra over exact numbers -- E5 finite tables vs exact Gaussian-rational linear algebra (DESIGN 5 C24)
//
// Every matrix of a few small (shape, entry alphabet) sets is pushed through every DenseMatrix algorithm named in the
// property; results are compared with a boring exact model (cofactor determinants, Gauss-Jordan rref, principal-minor
// characteristic polynomial).  Pivot-free algorithms are judged on inputs that meet their precondition (non-zero leading
// principal minors ...) and, outside it, only when they return finite numbers (then these must be right).  QR / Cholesky
// contain radicals and are judged numerically through RefEval (113-bit).  Built with ASan/UBSan: several algorithms index
// by computed pivots.
#include "common.h"
#include "key.h"
#include "refeval.h"
using namespace verif;

// crash-class cases are findings here: do not spawn the symbolizer for each (VERIF_ASAN_EXTRA=symbolize=1 to see frames)
extern "C" const char *__asan_default_options()
{
    return "quarantine_size_mb=16:symbolize=0";
}
extern "C" const char *__ubsan_default_options()
{
    return "symbolize=0";
}

#include "C24_model.inc"

struct Leaf {
    GQ g;
    RCP<const Basic> e;
    std::string name;
};
static Leaf leaf(long rn, long rd, long in, long id)
{
    Leaf l;
    l.g.re = mpq_class(rn, rd);
    l.g.im = mpq_class(in, id);
    l.g.re.canonicalize();
    l.g.im.canonicalize();
    RCP<const Number> re = Rational::from_two_ints(rn, rd), im = Rational::from_two_ints(in, id);
    l.e = Complex::from_two_nums(*re, *im);
    l.name = gq_str(l.g);
    return l;
}
static RCP<const Basic> gq_basic(const GQ &g)
{
    auto q = [](const mpq_class &v) -> RCP<const Number> {
        if (v.get_num().fits_slong_p() && v.get_den().fits_slong_p())
            return Rational::from_two_ints(v.get_num().get_si(), v.get_den().get_si());
        return Rational::from_two_ints(*integer(integer_class(v.get_num().get_str())), *integer(integer_class(v.get_den().get_str())));
    };
    RCP<const Number> re = q(g.re), im = q(g.im);
    return Complex::from_two_nums(*re, *im);
}
// fast exact conversion (exact.h goes through decimal strings; machine-size values are the common case here)
static bool fast_q(const rational_class &q, mpq_class &out)
{
    const integer_class &n = get_num(q), &d = get_den(q);
    if (mp_fits_slong_p(n) && mp_fits_slong_p(d)) {
        out = mpq_class(mp_get_si(n), mp_get_si(d));
        return true;
    }
    out = to_mpq(q);
    return true;
}
static bool fast_gq(const Basic &e, GQ &out)
{
    if (is_a<Integer>(e)) {
        const integer_class &i = down_cast<const Integer &>(e).as_integer_class();
        if (mp_fits_slong_p(i)) {
            out.re = mpq_class(mp_get_si(i));
            out.im = 0;
            return true;
        }
        return to_gq(e, out);
    }
    if (is_a<Rational>(e)) {
        out.im = 0;
        return fast_q(down_cast<const Rational &>(e).as_rational_class(), out.re);
    }
    if (is_a<Complex>(e)) {
        const Complex &c = down_cast<const Complex &>(e);
        return fast_q(c.real_, out.re) && fast_q(c.imaginary_, out.im);
    }
    return false;
}
static DenseMatrix to_dense(const GM &m)
{
    vec_basic v;
    for (auto &g : m.v)
        v.push_back(gq_basic(g));
    return DenseMatrix(m.r, m.c, v);
}
static bool has_nonfinite(const Basic &e)
{
    if (is_a<NaN>(e) || is_a<Infty>(e))
        return true;
    for (auto &a : e.get_args())
        if (has_nonfinite(*a))
            return true;
    return false;
}
enum Kind { EXACT, NONFINITE, SYMBOLIC, NULLENTRY, BADSHAPE };
static const char *KINDN[] = {"exact", "non-finite", "symbolic", "null-entry", "bad-shape"};
static Kind read_dense(const DenseMatrix &M, int r, int c, GM &out)
{
    if ((int)M.nrows() != r || (int)M.ncols() != c || M.m_.size() != (size_t)r * c)
        return BADSHAPE;
    out = GM(r, c);
    Kind k = EXACT;
    for (int i = 0; i < r * c; i++) {
        const RCP<const Basic> &e = M.m_[i];
        if (e.is_null())
            return NULLENTRY;
        if (fast_gq(*e, out.v[i]))
            continue;
        if (has_nonfinite(*e))
            k = NONFINITE;
        else if (k == EXACT)
            k = SYMBOLIC;
    }
    return k;
}
static std::string dstr(const DenseMatrix &M)
{
    std::string o = "[";
    for (unsigned i = 0; i < M.nrows(); i++) {
        o += i ? ";" : "";
        for (unsigned k = 0; k < M.ncols(); k++) {
            size_t q = i * M.ncols() + k;
            o += (k ? " " : "") + (q < M.m_.size() && !M.m_[q].is_null() ? sstr(M.m_[q]) : std::string("null"));
        }
    }
    return o + "]";
}

// ------------------------------------------------------------------ op registry / counters
static std::vector<std::string> OPS;
static std::map<std::string, int> OPID;
enum { K_EVAL = 40, K_JUDGED, K_SKIP_NONFINITE, K_REFUSED, K_PRE_OK, K_PRE_UNMET, K_NUMERIC, K_PAIRS };
static int opid(const std::string &op)
{
    auto it = OPID.find(op);
    if (it != OPID.end())
        return it->second;
    fprintf(stderr, "C24: unregistered op %s\n", op.c_str());
    exit(2);
}
static void reg(const std::string &op)
{
    OPID[op] = OPS.size();
    OPS.push_back(op);
    if (OPS.size() > 40) {
        fprintf(stderr, "C24: too many ops\n");
        exit(2);
    }
}

struct Out {
    std::vector<DenseMatrix> m; // outputs
    std::vector<std::pair<int, int>> shape;
};
// Run one library algorithm and judge it.
//  pre    : the input meets the algorithm's precondition (a correct exact answer is owed)
//  call   : executes the library, fills Out
//  verify : given the exact outputs returns "" or what is wrong
static void run_op(Ctx &c, const std::string &op, bool pre, const std::string &in, const std::function<void(Out &)> &call,
                   const std::function<std::string(const std::vector<GM> &)> &verify)
{
    c.eval();
    c.count(K_EVAL);
    c.count(pre ? K_PRE_OK : K_PRE_UNMET);
    Out o;
    try {
        call(o);
    } catch (SymEngineException &x) {
        if (pre)
            c.violation(op + ":throws-on-valid-input", op + " on " + in + " threw " + x.what());
        else {
            c.count(K_REFUSED);
            c.outcome(op + ":refused");
        }
        return;
    }
    std::vector<GM> g(o.m.size());
    Kind worst = EXACT;
    for (size_t i = 0; i < o.m.size(); i++) {
        Kind k = read_dense(o.m[i], o.shape[i].first, o.shape[i].second, g[i]);
        if (k > worst)
            worst = k;
    }
    auto shown_of = [&]() { // printing is expensive: only for reports
        std::string shown;
        for (size_t i = 0; i < o.m.size() && i < 6; i++)
            shown += (i ? ", " : "") + dstr(o.m[i]);
        if (o.m.size() > 6)
            shown += ", ... (" + std::to_string(o.m.size()) + " results)";
        return shown;
    };
    if (worst == BADSHAPE || worst == NULLENTRY) {
        c.violation(op + ":" + KINDN[worst], op + " on " + in + " returned " + shown_of());
        return;
    }
    if (worst != EXACT) {
        if (pre)
            c.violation(op + ":" + KINDN[worst] + "-result-on-valid-input", op + " on " + in + " returned " + shown_of());
        else {
            c.count(K_SKIP_NONFINITE);
            c.outcome(op + ":" + KINDN[worst] + "(precondition unmet)");
        }
        return;
    }
    std::string bad = verify(g);
    c.count(K_JUDGED);
    c.count(opid(op));
    if (bad.empty()) {
        c.outcome(op + (pre ? ":ok" : ":ok(precondition unmet)"));
        return;
    }
    c.violation(op + (pre ? ":wrong" : ":wrong(precondition-not-met,finite-result)"), op + " on " + in + " returned " + shown_of() + ": " + bad);
}

static void timed_run(CaseSet &cs)
{
    double t = now();
    run_cases(cs);
    run().counters["ms:" + cs.name] = (uint64_t)((now() - t) * 1000);
}

#include "C24_ops.inc"

int main(int argc, char **argv)
{
    init(argc, argv, "C24");
    bool thorough = opts().thorough();
    register_ops();
    Leaf L0 = leaf(0, 1, 0, 1), L1 = leaf(1, 1, 0, 1), Lm1 = leaf(-1, 1, 0, 1), L2 = leaf(2, 1, 0, 1), Lh = leaf(1, 2, 0, 1), LI = leaf(0, 1, 1, 1),
         L1I = leaf(1, 1, 1, 1);
    std::vector<Leaf> A5 = {L0, L1, Lm1, L2, Lh}, A3 = {L0, L1, Lm1}, A2 = {L0, L1}, AC = {L0, L1, LI, L1I}, A4 = {L0, L1, Lm1, L2}, A012 = {L0, L1, L2};
    // ---- main table: (shape, alphabet, structure)
    std::vector<MSet> sets;
    sets.push_back({1, 1, A5, FULL, ALL});
    sets.push_back({2, 2, A5, FULL, ALL});
    sets.push_back({2, 2, AC, FULL, ALL});
    sets.push_back({2, 3, A3, FULL, ALL});
    sets.push_back({3, 2, A3, FULL, ALL});
    sets.push_back({1, 3, A3, FULL, ALL});
    sets.push_back({3, 1, A3, FULL, ALL});
    if (!thorough) {
        sets.push_back({3, 3, A2, FULL, ALL});
        sets.push_back({3, 3, A012, SYMMETRIC, ALL});
        sets.push_back({4, 4, A2, ZERODIAG, CORE});
    } else {
        sets.push_back({3, 3, A2, FULL, ALL});
        sets.push_back({3, 3, A3, FULL, MID});
        sets.push_back({3, 3, A4, SYMMETRIC, MID});
        sets.push_back({3, 3, {L0, L1, LI}, SYMMETRIC, MID});
        sets.push_back({3, 4, A2, FULL, MID});
        sets.push_back({4, 3, A2, FULL, MID});
        sets.push_back({4, 4, A2, SYMMETRIC, MID});
        sets.push_back({4, 4, A2, ZERODIAG, CORE});
        sets.push_back({4, 4, A2, FULL, DET});
    }
    long long total = 0;
    for (auto &s : sets) {
        s.base = total;
        total += s.count();
    }
    static std::vector<MSet> *SETS;
    SETS = &sets;
    auto locate = [](long long i, long long &local) -> const MSet & {
        size_t k = 0;
        while (k + 1 < SETS->size() && i >= (*SETS)[k + 1].base)
            k++;
        local = i - (*SETS)[k].base;
        return (*SETS)[k];
    };
    std::vector<std::string> cn(48, "");
    for (size_t i = 0; i < OPS.size(); i++)
        cn[i] = "judged:" + OPS[i];
    for (size_t i = OPS.size(); i < 40; i++)
        cn[i] = "unused" + std::to_string(i);
    cn[K_EVAL] = "algorithm_evaluations";
    cn[K_JUDGED] = "results_judged_exactly_or_numerically";
    cn[K_SKIP_NONFINITE] = "skipped:precondition_unmet_and_result_not_finite";
    cn[K_REFUSED] = "refused:precondition_unmet_and_library_exception";
    cn[K_PRE_OK] = "evaluations_with_precondition_met";
    cn[K_PRE_UNMET] = "evaluations_with_precondition_unmet";
    cn[K_NUMERIC] = "results_judged_numerically(QR,cholesky)";
    cn[K_PAIRS] = "pair_cases";

    CaseSet cs;
    cs.name = "matrix";
    cs.n = total;
    cs.counter_names = cn;
    cs.hang_s = 300;
    cs.desc = [&](long long i) {
        long long l;
        const MSet &s = locate(i, l);
        return "all algorithms on " + gstr(s.decode(l));
    };
    cs.crash_sig = [&](long long i, const std::string &oc) {
        long long l;
        const MSet &s = locate(i, l);
        return std::string("matrix-algorithms(") + (s.r == s.c ? "square" : "rectangular") + "):" + crash_class(oc);
    };
    cs.body = [&](long long i, Ctx &c) {
        long long l;
        const MSet &s = locate(i, l);
        GM a = s.decode(l);
        all_ops(c, a, s.ops);
        if (i % 4001 == 9)
            c.sample("{\"matrix\":" + jstr(gstr(a)) + ",\"det\":" + (a.r == a.c ? jstr(gq_str(g_det(a))) : std::string("null")) + ",\"rank\":"
                     + std::to_string(g_rank(a)) + "}");
    };
    timed_run(cs);

    // ---- singular / wide inputs of the algorithms that have no guard (kept small: every failure is a process crash)
    std::vector<MSet> sing = {{2, 2, A2, FULL, ALL, true}, {1, 2, A012, FULL, ALL}};
    if (thorough)
        sing = {{2, 2, A2, FULL, ALL, true}, {3, 3, A2, SYMMETRIC, ALL, true}, {1, 2, A012, FULL, ALL}, {2, 3, A2, ZERODIAG, ALL}};
    long long stotal = 0;
    for (auto &s : sing) {
        s.base = stotal;
        stotal += s.count();
    }
    static std::vector<MSet> *SING;
    SING = &sing;
    auto slocate = [](long long i, long long &local) -> const MSet & {
        size_t k = 0;
        while (k + 1 < SING->size() && i >= (*SING)[k + 1].base)
            k++;
        local = i - (*SING)[k].base;
        return (*SING)[k];
    };
    CaseSet ss;
    ss.name = "unguarded";
    ss.n = stotal * 3;
    ss.counter_names = cn;
    ss.hang_s = 300;
    static const char *UG[3] = {"inverse_gauss_jordan", "fraction_free_gauss_jordan_solve(pivot)", "fraction_free_gauss_jordan_elimination"};
    ss.desc = [&](long long i) {
        long long l;
        const MSet &s = slocate(i / 3, l);
        return std::string(UG[i % 3]) + " on " + gstr(s.decode(l));
    };
    ss.crash_sig = [&](long long i, const std::string &oc) {
        long long l;
        const MSet &s = slocate(i / 3, l);
        return std::string(UG[i % 3]) + (s.r == s.c ? "(singular)" : "(more columns than rows)") + ":" + crash_class(oc);
    };
    ss.body = [&](long long i, Ctx &c) {
        long long l;
        const MSet &s = slocate(i / 3, l);
        quiet_stderr_once();
        unguarded_op(c, s.decode(l), i % 3);
    };
    timed_run(ss);

    // ---- pairs: sums, products, element-wise products
    std::vector<PSet> ps = {{2, 2, 2, A3}, {2, 3, 2, A2}, {1, 3, 1, A3}, {3, 1, 3, A3}};
    if (thorough)
        ps = {{2, 2, 2, A4}, {2, 2, 2, AC}, {2, 3, 2, A2}, {3, 2, 3, A2}, {1, 3, 1, A3}, {3, 1, 3, A3}, {3, 3, 1, A2}};
    long long ptotal = 0;
    for (auto &p : ps) {
        p.base = ptotal;
        ptotal += p.count();
    }
    static std::vector<PSet> *PS;
    PS = &ps;
    auto plocate = [](long long i, long long &local) -> const PSet & {
        size_t k = 0;
        while (k + 1 < PS->size() && i >= (*PS)[k + 1].base)
            k++;
        local = i - (*PS)[k].base;
        return (*PS)[k];
    };
    CaseSet pc;
    pc.name = "pairs";
    pc.n = ptotal;
    pc.counter_names = cn;
    pc.hang_s = 300;
    pc.desc = [&](long long i) {
        long long l;
        const PSet &p = plocate(i, l);
        GM a, b;
        p.decode(l, a, b);
        return "add/mul/elementwise on A=" + gstr(a) + " B=" + gstr(b);
    };
    pc.crash_sig = [&](long long, const std::string &oc) { return "pair-ops:" + crash_class(oc); };
    pc.body = [&](long long i, Ctx &c) {
        long long l;
        const PSet &p = plocate(i, l);
        GM a, b;
        p.decode(l, a, b);
        pair_ops(c, a, b);
        if (i % 50021 == 4)
            c.sample("{\"A\":" + jstr(gstr(a)) + ",\"B\":" + jstr(gstr(b)) + "}");
    };
    timed_run(pc);

    Run &R = run();
    R.states = total + stotal + ptotal;
    R.transitions = R.evaluations;
    std::string b;
    for (auto &s : sets)
        b += (b.empty() ? "" : ", ") + s.name();
    b += "; unguarded algorithms on ";
    for (auto &s : sing)
        b += s.name() + " ";
    b += "; pairs ";
    for (auto &p : ps)
        b += p.name() + " ";
    R.bound_completed = "every matrix of: " + b;
    R.rule = "E5: every matrix of each (shape, alphabet, structure) set x every DenseMatrix algorithm (det_bareis, det_berkowitz, char_poly, 4 inverses, "
             "8 solvers, LU, pivoted_LU, FFLU, FFLDU, LDL, cholesky, QR, rref x2, 6 eliminations, transpose/conjugate/scalar/row/column/join/delete "
             "operations), all pairs for sums/products; oracle = exact Gaussian-rational linear algebra (cofactor determinants, Gauss-Jordan, "
             "principal minors); factorizations must multiply back; pivot-free algorithms owe an answer only when their leading-minor "
             "precondition holds, otherwise they are judged only if the result is finite. distinct_nontrivial = cases with a non-zero determinant "
             "or rank >= 2";
    R.assumptions = {"GMP rational arithmetic", "RefEval (libquadmath) for entries containing radicals (QR, cholesky), tolerance 1e-25",
                     "eye/diag/ones/zeros, dot/cross, eigen_values, is_* predicates are not part of the property statement and not judged",
                     "entries are numbers; symbolic entries are out of scope"};
    return R.finish();
}
