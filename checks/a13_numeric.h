// a13_numeric.h -- shared by C13 / C14 / C15 (author a13).
//  * RealEval: independent real-domain reference evaluator with a running error budget for a
//    target floating-point format (float / double / x87 long double), including the boolean
//    nodes (relationals, logic, Contains, Piecewise) that core/refeval.h leaves out.
//  * TermPool: typed (value / boolean) E1 term enumeration, de-duplicated by the structural key.
// Everything is a structural recursion through public accessors; nothing here calls the
// evaluators / printers under test.
#ifndef A13_NUMERIC_H
#define A13_NUMERIC_H
#include "common.h"
#include "explore.h"
#include "refeval.h"

namespace a13
{
using namespace verif;

// ------------------------------------------------------------------ target formats
struct NumCfg {
    rq u;       // unit roundoff of the target format
    int pbits;  // significand bits
    rq illcond; // relative error budget above which a point is "ill-conditioned" (skipped)
    const char *name;
};
static const NumCfg CFG_FLOAT = {0x1p-24Q, 24, 0x1p-12Q, "float"};
static const NumCfg CFG_DOUBLE = {0x1p-53Q, 53, 0x1p-20Q, "double"};
static const NumCfg CFG_LDOUBLE = {0x1p-64Q, 64, 0x1p-20Q, "longdouble"};

typedef std::vector<std::pair<std::string, rq>> Point; // symbol name -> exact value

struct NV {
    bool ok = true;
    std::string why;
    rq v = 0;     // mathematical value (113-bit)
    rq err = 0;   // bound on the error a faithful evaluation in the target format may have (0 = exact)
    rq scale = 0; // largest intermediate magnitude
    bool isbool = false;
};
inline NV nv_fail(const std::string &w)
{
    NV r;
    r.ok = false;
    r.why = w;
    return r;
}

// v = N * 2^-q with N an integer, |v| < 2^m ; returns number of significand bits that surely suffice
inline bool dyadic(rq v, int &q, int &m)
{
    if (v == 0) {
        q = 0;
        m = 0;
        return true;
    }
    int ex;
    frexpq(v, &ex);
    m = ex;
    for (q = 0; q <= 70; q++) {
        rq t = ldexpq(v, q);
        if (t == truncq(t))
            return true;
    }
    return false;
}
inline int bits_of(rq v)
{
    int q, m;
    if (!dyadic(v, q, m))
        return 1000;
    return std::max(q + m, 1);
}
inline bool representable(rq v, int pbits)
{
    if (!finiteq(v))
        return false;
    return bits_of(v) <= pbits && fabsq(v) < 0x1p120Q && (v == 0 || fabsq(v) > 0x1p-120Q);
}

struct RealEval {
    const Point *pt;
    NumCfg cfg;
    long nodes = 0;
    // "what a reader of a 15-significant-digit decimal literal sees": RealDouble leaves and the numerator /
    // denominator of Rational leaves are rounded through "%.15g" (used only to ATTRIBUTE a mismatch, never to excuse it)
    bool literal15 = false;
    static double through15(double d)
    {
        char b[64];
        snprintf(b, sizeof b, "%.15g", d);
        return strtod(b, nullptr);
    }

    rq U() const
    {
        return cfg.u;
    }
    // a unary function on the reals: returns false when a lies outside the real domain / at a pole
    typedef std::function<bool(rq, rq &, std::string &)> Fn;

    NV unary(const NV &a, const Fn &f, int K, rq absfloor = 0)
    {
        if (!a.ok)
            return a;
        NV r;
        std::string why;
        rq v;
        if (!f(a.v, v, why))
            return nv_fail(why);
        if (!finiteq(v))
            return nv_fail("nonfinite");
        rq prop = 0;
        if (a.err > 0) {
            rq v1, v2;
            if (!f(a.v + a.err, v1, why) || !f(a.v - a.err, v2, why) || !finiteq(v1) || !finiteq(v2))
                return nv_fail("near-domain-edge");
            prop = 2 * fmaxq(fabsq(v1 - v), fabsq(v2 - v));
        }
        r.v = v;
        r.err = prop + K * U() * fabsq(v) + absfloor;
        r.scale = fmaxq(a.scale, fabsq(v));
        return r;
    }

    NV leaf(rq v, int K)
    {
        NV r;
        r.v = v;
        r.err = (K == 0 && representable(v, cfg.pbits)) ? 0 : std::max(K, 1) * U() * fabsq(v);
        r.scale = fabsq(v);
        return r;
    }

    NV powv(const NV &b, const NV &x, bool int_node, long n)
    {
        if (!b.ok)
            return b;
        if (!int_node && !x.ok)
            return x;
        NV r;
        r.scale = fmaxq(b.scale, int_node ? 0 : x.scale);
        if (int_node) {
            if (b.v == 0 && n < 0)
                return nv_fail("pole");
            if (n == 0) {
                r.v = 1;
                return r;
            }
            rq v = powq(b.v, (rq)n);
            if (!finiteq(v))
                return nv_fail("nonfinite");
            r.v = v;
            long an = n < 0 ? -n : n;
            if (b.err == 0 && n > 0 && (long)bits_of(b.v) * an <= cfg.pbits - 1) {
                r.err = 0;
            } else {
                rq prop = 0;
                if (b.err > 0) {
                    if (fabsq(b.v) <= b.err)
                        return n < 0 ? nv_fail("near-pole") : nv_fail("near-zero-base");
                    rq v1 = powq(b.v + b.err, (rq)n), v2 = powq(b.v - b.err, (rq)n);
                    if (!finiteq(v1) || !finiteq(v2))
                        return nv_fail("near-domain-edge");
                    prop = 2 * fmaxq(fabsq(v1 - v), fabsq(v2 - v));
                }
                r.err = prop + (rq)(an + 4) * U() * fabsq(v);
            }
            r.scale = fmaxq(r.scale, fabsq(v));
            return r;
        }
        // general exponent
        if (b.v == 0) {
            if (b.err > 0)
                return nv_fail("near-pow-branch-point");
            if (x.v - x.err > 0) {
                r.v = 0;
                r.err = 0;
                return r;
            }
            return nv_fail("0^nonpositive");
        }
        if (b.v < 0) {
            if (b.v + b.err >= 0)
                return nv_fail("near-pow-branch-point");
            if (!(x.err == 0 && x.v == truncq(x.v)))
                return nv_fail("nonreal");
        } else if (b.v - b.err <= 0)
            return nv_fail("near-pow-branch-point");
        rq v = powq(b.v, x.v);
        if (!finiteq(v))
            return nv_fail("nonfinite");
        rq prop = 0;
        if (b.err > 0 || x.err > 0) {
            for (int sb = -1; sb <= 1; sb += 2)
                for (int sx = -1; sx <= 1; sx += 2) {
                    rq w = powq(b.v + sb * b.err, x.v + sx * x.err);
                    if (!finiteq(w))
                        return nv_fail("near-domain-edge");
                    prop = fmaxq(prop, 2 * fabsq(w - v));
                }
        }
        r.v = v;
        r.err = prop + 4 * U() * fabsq(v);
        r.scale = fmaxq(r.scale, fabsq(v));
        return r;
    }

    // decide the sign of (l - r): +1, -1, 0 (exactly equal), 2 undecidable
    int cmp(const NV &l, const NV &r)
    {
        rq d = l.v - r.v;
        if (l.err == 0 && r.err == 0)
            return d > 0 ? 1 : d < 0 ? -1 : 0;
        if (fabsq(d) > 2 * (l.err + r.err))
            return d > 0 ? 1 : -1;
        return 2;
    }
    NV boolean(bool b, rq scale)
    {
        NV r;
        r.isbool = true;
        r.v = b ? 1 : 0;
        r.scale = scale;
        return r;
    }

    NV ev(const Basic &e)
    {
        nodes++;
        TypeID t = e.get_type_code();
        auto arg0 = [&]() { return ev(*e.get_args()[0]); };
        auto dom = [](bool c, std::string &why, const char *w) {
            if (!c)
                why = w;
            return c;
        };
        switch (t) {
            case SYMENGINE_INTEGER:
                return leaf(q_from_int(down_cast<const Integer &>(e).as_integer_class()), 0);
            case SYMENGINE_RATIONAL: {
                const rational_class &q = down_cast<const Rational &>(e).as_rational_class();
                if (literal15)
                    return leaf((rq)through15((double)q_from_int(get_num(q))) / (rq)through15((double)q_from_int(get_den(q))), 1);
                return leaf(q_from_rat(q), 0);
            }
            case SYMENGINE_REAL_DOUBLE: {
                double d = down_cast<const RealDouble &>(e).i;
                if (!std::isfinite(d))
                    return nv_fail("nonfinite-leaf");
                if (literal15)
                    d = through15(d);
                return leaf((rq)d, 0);
            }
            case SYMENGINE_SYMBOL:
            case SYMENGINE_DUMMY: {
                const std::string &n = down_cast<const Symbol &>(e).get_name();
                for (auto &p : *pt)
                    if (p.first == n)
                        return leaf(p.second, 0);
                return nv_fail("unbound-symbol " + n);
            }
            case SYMENGINE_CONSTANT: {
                const std::string &n = down_cast<const Constant &>(e).get_name();
                if (n == "pi")
                    return leaf(M_PIq, 2);
                if (n == "E")
                    return leaf(M_Eq, 2);
                if (n == "EulerGamma")
                    return leaf(0.57721566490153286060651209008240243104215933593992Q, 2);
                if (n == "Catalan")
                    return leaf(0.91596559417721901505460351493238411077414937428167Q, 2);
                if (n == "GoldenRatio")
                    return leaf((1 + sqrtq(5.0Q)) / 2, 2);
                return nv_fail("unknown-constant " + n);
            }
            case SYMENGINE_INFTY:
            case SYMENGINE_NOT_A_NUMBER:
                return nv_fail("nonfinite-leaf");
            case SYMENGINE_ADD: {
                const Add &ad = down_cast<const Add &>(e);
                NV c = ev(*ad.get_coef());
                if (!c.ok)
                    return c;
                NV r;
                rq sum = c.v, mag = fabsq(c.v), prop = c.err;
                int nt = 1, Q = 0, qq, mm;
                bool exact = c.err == 0 && dyadic(c.v, qq, mm);
                if (exact)
                    Q = qq;
                r.scale = c.scale;
                for (auto &p : ad.get_dict()) {
                    NV a = ev(*p.first);
                    if (!a.ok)
                        return a;
                    NV k = ev(*p.second);
                    if (!k.ok)
                        return k;
                    rq term = a.v * k.v;
                    sum += term;
                    mag += fabsq(term);
                    nt++;
                    r.scale = fmaxq(r.scale, fmaxq(a.scale, fabsq(term)));
                    prop += fabsq(k.v) * a.err + fabsq(a.v) * k.err + a.err * k.err;
                    if (a.err != 0 || k.err != 0 || bits_of(a.v) + bits_of(k.v) > cfg.pbits - 1 || !dyadic(term, qq, mm))
                        exact = false;
                    else
                        Q = std::max(Q, qq);
                }
                if (!finiteq(sum))
                    return nv_fail("nonfinite");
                if (exact) {
                    int ex;
                    frexpq(mag, &ex);
                    if (mag != 0 && Q + ex + 1 > cfg.pbits - 1)
                        exact = false;
                }
                r.v = sum;
                r.err = exact ? 0 : prop + (rq)(nt + 1) * U() * mag;
                r.scale = fmaxq(r.scale, mag);
                return r;
            }
            case SYMENGINE_MUL: {
                const Mul &m = down_cast<const Mul &>(e);
                std::vector<NV> f;
                f.push_back(ev(*m.get_coef()));
                if (!f[0].ok)
                    return f[0];
                for (auto &p : m.get_dict()) {
                    long n = 0;
                    bool si = small_int(*p.second, n);
                    NV b = ev(*p.first);
                    if (!b.ok)
                        return b;
                    NV x;
                    if (!si) {
                        x = ev(*p.second);
                        if (!x.ok)
                            return x;
                    }
                    NV pw = (si && n == 1) ? b : powv(b, x, si, n);
                    if (!pw.ok)
                        return pw;
                    f.push_back(pw);
                }
                NV r;
                rq v = 1;
                bool exact = true;
                int bits = 0;
                for (auto &x : f) {
                    v *= x.v;
                    r.scale = fmaxq(r.scale, x.scale);
                    if (x.err != 0)
                        exact = false;
                    bits += bits_of(x.v);
                }
                if (!finiteq(v))
                    return nv_fail("nonfinite");
                if (bits > cfg.pbits - 1)
                    exact = false;
                rq prop = 0;
                if (!exact) {
                    for (size_t i = 0; i < f.size(); i++) {
                        rq others = 1;
                        for (size_t j = 0; j < f.size(); j++)
                            if (j != i)
                                others *= fabsq(f[j].v) + f[j].err;
                        prop += f[i].err * others;
                    }
                    prop += (rq)(f.size() + 1) * U() * fabsq(v);
                }
                r.v = v;
                r.err = prop;
                r.scale = fmaxq(r.scale, fabsq(v));
                return r;
            }
            case SYMENGINE_POW: {
                const Pow &p = down_cast<const Pow &>(e);
                if (eq(*p.get_base(), *E)) {
                    NV x = ev(*p.get_exp());
                    return unary(
                        x,
                        [](rq a, rq &o, std::string &) {
                            o = expq(a);
                            return true;
                        },
                        4);
                }
                long n = 0;
                bool si = small_int(*p.get_exp(), n);
                NV b = ev(*p.get_base());
                NV x;
                if (!si)
                    x = ev(*p.get_exp());
                return powv(b, x, si, n);
            }
#define A13_UN(CODE, K, BODY)                                                                                                    \
    case CODE:                                                                                                                   \
        return unary(                                                                                                            \
            arg0(), [&](rq a, rq &o, std::string &why) -> bool { BODY }, K);
#define A13_INV(a) (1 / (a))
                A13_UN(SYMENGINE_SIN, 4, o = sinq(a); return true;)
                A13_UN(SYMENGINE_COS, 4, o = cosq(a); return true;)
                A13_UN(SYMENGINE_TAN, 4, o = tanq(a); return true;)
                A13_UN(SYMENGINE_COT, 6, if (!dom(tanq(a) != 0, why, "pole")) return false; o = 1 / tanq(a); return true;)
                A13_UN(SYMENGINE_CSC, 6, if (!dom(sinq(a) != 0, why, "pole")) return false; o = 1 / sinq(a); return true;)
                A13_UN(SYMENGINE_SEC, 6, if (!dom(cosq(a) != 0, why, "pole")) return false; o = 1 / cosq(a); return true;)
                A13_UN(SYMENGINE_ASIN, 4, if (!dom(fabsq(a) <= 1, why, "nonreal")) return false; o = asinq(a); return true;)
                A13_UN(SYMENGINE_ACOS, 4, if (!dom(fabsq(a) <= 1, why, "nonreal")) return false; o = acosq(a); return true;)
                A13_UN(SYMENGINE_ATAN, 4, o = atanq(a); return true;)
                A13_UN(SYMENGINE_ACOT, 6, if (!dom(a != 0, why, "pole")) return false; o = atanq(1 / a); return true;)
                A13_UN(SYMENGINE_ASEC, 6, if (!dom(fabsq(a) >= 1, why, "nonreal")) return false; o = acosq(1 / a); return true;)
                A13_UN(SYMENGINE_ACSC, 6, if (!dom(fabsq(a) >= 1, why, "nonreal")) return false; o = asinq(1 / a); return true;)
                A13_UN(SYMENGINE_SINH, 4, o = sinhq(a); return true;)
                A13_UN(SYMENGINE_COSH, 4, o = coshq(a); return true;)
                A13_UN(SYMENGINE_TANH, 4, o = tanhq(a); return true;)
                A13_UN(SYMENGINE_COTH, 6, if (!dom(a != 0, why, "pole")) return false; o = 1 / tanhq(a); return true;)
                A13_UN(SYMENGINE_CSCH, 6, if (!dom(a != 0, why, "pole")) return false; o = 1 / sinhq(a); return true;)
                A13_UN(SYMENGINE_SECH, 6, o = 1 / coshq(a); return true;)
                A13_UN(SYMENGINE_ASINH, 4, o = asinhq(a); return true;)
                A13_UN(SYMENGINE_ACOSH, 4, if (!dom(a >= 1, why, "nonreal")) return false; o = acoshq(a); return true;)
                A13_UN(SYMENGINE_ATANH, 4, if (!dom(fabsq(a) < 1, why, fabsq(a) == 1 ? "pole" : "nonreal")) return false; o = atanhq(a);
                       return true;)
                A13_UN(SYMENGINE_ACOTH, 6, if (!dom(fabsq(a) > 1, why, fabsq(a) == 1 ? "pole" : "nonreal")) return false;
                       o = atanhq(1 / a); return true;)
                A13_UN(SYMENGINE_ASECH, 6, if (!dom(a > 0 && a <= 1, why, a == 0 ? "pole" : "nonreal")) return false; o = acoshq(1 / a);
                       return true;)
                A13_UN(SYMENGINE_ACSCH, 6, if (!dom(a != 0, why, "pole")) return false; o = asinhq(1 / a); return true;)
                A13_UN(SYMENGINE_LOG, 4, if (!dom(a > 0, why, a == 0 ? "pole" : "nonreal")) return false; o = logq(a); return true;)
            case SYMENGINE_ABS: {
                NV a = arg0();
                if (!a.ok)
                    return a;
                a.v = fabsq(a.v);
                return a;
            }
            case SYMENGINE_GAMMA:
            case SYMENGINE_LOGGAMMA:
            case SYMENGINE_ERF:
            case SYMENGINE_ERFC: {
                auto f = [t](rq a, rq &o, std::string &why) -> bool {
                    if (t == SYMENGINE_GAMMA && a <= 0 && a == floorq(a)) {
                        why = "pole";
                        return false;
                    }
                    if (t == SYMENGINE_LOGGAMMA && a <= 0) {
                        why = "loggamma-nonpositive";
                        return false;
                    }
                    if (fabsq(a) > 1e4Q) {
                        why = "special-function-large-argument";
                        return false;
                    }
                    MP x(a), r;
                    if (t == SYMENGINE_GAMMA)
                        mpfr_gamma(r.x, x.x, MPFR_RNDN);
                    else if (t == SYMENGINE_LOGGAMMA)
                        mpfr_lngamma(r.x, x.x, MPFR_RNDN);
                    else if (t == SYMENGINE_ERF)
                        mpfr_erf(r.x, x.x, MPFR_RNDN);
                    else
                        mpfr_erfc(r.x, x.x, MPFR_RNDN);
                    if (!mpfr_number_p(r.x)) {
                        why = "nonfinite";
                        return false;
                    }
                    o = r.get();
                    return true;
                };
                return unary(arg0(), f, 16, t == SYMENGINE_LOGGAMMA ? 16 * U() : 0);
            }
            case SYMENGINE_ATAN2: {
                NV y = ev(*e.get_args()[0]);
                if (!y.ok)
                    return y;
                NV x = ev(*e.get_args()[1]);
                if (!x.ok)
                    return x;
                if (fabsq(x.v) <= x.err && fabsq(y.v) <= y.err)
                    return nv_fail("atan2(0,0)");
                if (x.v - x.err < 0 && fabsq(y.v) <= 2 * y.err)
                    return nv_fail("atan2-cut");
                if (x.v < 0 && y.v == 0)
                    return nv_fail("atan2-cut");
                NV r;
                r.v = atan2q(y.v, x.v);
                rq h = x.v * x.v + y.v * y.v;
                r.err = 2 * (fabsq(x.v) * y.err + fabsq(y.v) * x.err) / h + 4 * U() * fabsq(r.v);
                r.scale = fmaxq(fmaxq(x.scale, y.scale), fabsq(r.v));
                return r;
            }
            case SYMENGINE_MAX:
            case SYMENGINE_MIN: {
                NV r;
                bool first = true;
                for (auto &a : e.get_args()) {
                    NV x = ev(*a);
                    if (!x.ok)
                        return x;
                    if (first) {
                        r = x;
                        first = false;
                    } else {
                        r.err = fmaxq(r.err, x.err);
                        r.scale = fmaxq(r.scale, x.scale);
                        r.v = t == SYMENGINE_MAX ? fmaxq(r.v, x.v) : fminq(r.v, x.v);
                    }
                }
                return r;
            }
            case SYMENGINE_SIGN: {
                NV a = arg0();
                if (!a.ok)
                    return a;
                if (a.err != 0 && fabsq(a.v) <= 2 * a.err)
                    return nv_fail("near-discontinuity");
                NV r;
                r.v = a.v > 0 ? 1 : a.v < 0 ? -1 : 0;
                r.scale = a.scale;
                return r;
            }
            case SYMENGINE_FLOOR:
            case SYMENGINE_CEILING:
            case SYMENGINE_TRUNCATE: {
                NV a = arg0();
                if (!a.ok)
                    return a;
                auto f = [t](rq x) { return t == SYMENGINE_FLOOR ? floorq(x) : t == SYMENGINE_CEILING ? ceilq(x) : truncq(x); };
                if (fabsq(a.v) > 0x1p52Q)
                    return nv_fail("rounding-of-huge-value");
                if (a.err != 0 && (f(a.v - 2 * a.err) != f(a.v + 2 * a.err) || a.v - 2 * a.err == f(a.v - 2 * a.err) || a.v + 2 * a.err == f(a.v + 2 * a.err)))
                    return nv_fail("near-discontinuity");
                NV r;
                r.v = f(a.v);
                r.scale = a.scale;
                return r;
            }
            case SYMENGINE_BOOLEAN_ATOM:
                return boolean(down_cast<const BooleanAtom &>(e).get_val(), 0);
            case SYMENGINE_EQUALITY:
            case SYMENGINE_UNEQUALITY:
            case SYMENGINE_LESSTHAN:
            case SYMENGINE_STRICTLESSTHAN: {
                const Relational &rel = down_cast<const Relational &>(e);
                NV l = ev(*rel.get_arg1());
                if (!l.ok)
                    return l;
                NV r = ev(*rel.get_arg2());
                if (!r.ok)
                    return r;
                if (l.isbool || r.isbool)
                    return nv_fail("relational-of-booleans");
                int c = cmp(l, r);
                if (c == 2)
                    return nv_fail("near-discontinuity");
                bool b = t == SYMENGINE_EQUALITY ? c == 0 : t == SYMENGINE_UNEQUALITY ? c != 0 : t == SYMENGINE_LESSTHAN ? c <= 0 : c < 0;
                return boolean(b, fmaxq(l.scale, r.scale));
            }
            case SYMENGINE_AND:
            case SYMENGINE_OR:
            case SYMENGINE_XOR: {
                bool acc = t == SYMENGINE_AND;
                rq sc = 0;
                for (auto &a : e.get_args()) {
                    NV x = ev(*a);
                    if (!x.ok)
                        return x;
                    if (!x.isbool)
                        return nv_fail("logic-of-nonboolean");
                    bool b = x.v != 0;
                    sc = fmaxq(sc, x.scale);
                    acc = t == SYMENGINE_AND ? (acc && b) : t == SYMENGINE_OR ? (acc || b) : (acc != b);
                }
                return boolean(acc, sc);
            }
            case SYMENGINE_NOT: {
                NV x = arg0();
                if (!x.ok)
                    return x;
                if (!x.isbool)
                    return nv_fail("logic-of-nonboolean");
                return boolean(x.v == 0, x.scale);
            }
            case SYMENGINE_CONTAINS: {
                const Contains &ct = down_cast<const Contains &>(e);
                if (!is_a<Interval>(*ct.get_set()))
                    return nv_fail("contains-non-interval");
                const Interval &iv = down_cast<const Interval &>(*ct.get_set());
                NV x = ev(*ct.get_expr());
                if (!x.ok)
                    return x;
                bool lo_ok = true, hi_ok = true;
                if (!is_a<Infty>(*iv.get_start())) {
                    NV s = ev(*iv.get_start());
                    if (!s.ok)
                        return s;
                    int c = cmp(s, x);
                    if (c == 2)
                        return nv_fail("near-discontinuity");
                    lo_ok = iv.get_left_open() ? c < 0 : c <= 0;
                } else if (!down_cast<const Infty &>(*iv.get_start()).is_negative_infinity())
                    return nv_fail("interval-start-not-minus-oo");
                if (!is_a<Infty>(*iv.get_end())) {
                    NV s = ev(*iv.get_end());
                    if (!s.ok)
                        return s;
                    int c = cmp(x, s);
                    if (c == 2)
                        return nv_fail("near-discontinuity");
                    hi_ok = iv.get_right_open() ? c < 0 : c <= 0;
                } else if (!down_cast<const Infty &>(*iv.get_end()).is_positive_infinity())
                    return nv_fail("interval-end-not-plus-oo");
                return boolean(lo_ok && hi_ok, x.scale);
            }
            case SYMENGINE_PIECEWISE: {
                const Piecewise &pw = down_cast<const Piecewise &>(e);
                for (auto &pr : pw.get_vec()) {
                    NV c = ev(*pr.second);
                    if (!c.ok)
                        return c;
                    if (!c.isbool)
                        return nv_fail("piecewise-condition-not-boolean");
                    if (c.v != 0) {
                        NV r = ev(*pr.first);
                        if (r.ok)
                            r.scale = fmaxq(r.scale, c.scale);
                        return r;
                    }
                }
                return nv_fail("piecewise-no-branch-taken");
            }
            default:
                if (is_a<UnevaluatedExpr>(e))
                    return arg0();
                return nv_fail("unsupported-node " + type_code_name(t));
        }
    }
};

inline NV real_eval(const Basic &e, const Point &p, const NumCfg &cfg, bool literal15 = false)
{
    RealEval E;
    E.pt = &p;
    E.cfg = cfg;
    E.literal15 = literal15;
    NV r = E.ev(e);
    if (r.ok && !finiteq(r.v)) {
        r.ok = false;
        r.why = "nonfinite";
    }
    if (r.ok) {
        rq sc = fmaxq(r.scale, fabsq(r.v));
        if (r.err > cfg.illcond * fmaxq(sc, 0x1p-100Q)) {
            r.ok = false;
            r.why = "ill-conditioned";
        }
        if (r.ok && (fabsq(r.v) > 0x1p100Q || (r.v != 0 && fabsq(r.v) < 0x1p-100Q && !r.isbool))) {
            // far outside the range where every target format behaves like an unbounded-exponent format
            r.ok = false;
            r.why = "out-of-range";
        }
    }
    return r;
}

// verdict of one observed value against the reference: 0 pass, 1 mismatch
inline bool value_matches(rq got, const NV &ref)
{
    if (!finiteq(got))
        return false;
    rq tol = 4 * ref.err;
    return fabsq(got - ref.v) <= tol;
}

// coarse reason classes for counters
enum Skip { SK_NONREAL, SK_POLE, SK_NONFINITE, SK_DISCONT, SK_ILLCOND, SK_EDGE, SK_OTHER, SK_N };
static const char *SKIPNAME[SK_N] = {"points_skipped_nonreal", "points_skipped_pole", "points_skipped_nonfinite_or_out_of_range",
                                     "points_skipped_near_discontinuity", "points_skipped_ill_conditioned",
                                     "points_skipped_near_domain_edge", "points_skipped_other"};
inline int skip_class(const std::string &w)
{
    if (w == "nonreal" || w == "loggamma-nonpositive")
        return SK_NONREAL;
    if (w == "pole" || w == "0^nonpositive" || w == "atan2(0,0)")
        return SK_POLE;
    if (w == "nonfinite" || w == "out-of-range" || w == "nonfinite-leaf" || w == "special-function-large-argument")
        return SK_NONFINITE;
    if (w == "near-discontinuity" || w == "atan2-cut")
        return SK_DISCONT;
    if (w == "ill-conditioned")
        return SK_ILLCOND;
    if (w.rfind("near-", 0) == 0)
        return SK_EDGE;
    return SK_OTHER;
}

// type skeleton of an expression to the given depth (violation signatures)
inline std::string skel(const Basic &e, int depth = 2)
{
    std::string t = type_code_name(e.get_type_code());
    if (is_a<Pow>(e)) {
        const Pow &p = down_cast<const Pow &>(e);
        if (is_a<Integer>(*p.get_exp()) || is_a<Rational>(*p.get_exp()))
            t += "[" + p.get_exp()->__str__() + "]";
        else if (is_a_Number(*p.get_exp()))
            t += "[" + type_code_name(p.get_exp()->get_type_code()) + "]";
    }
    if (depth <= 0 || is_a_Atom(e))
        return t;
    std::vector<std::string> ks;
    for (auto &a : e.get_args())
        ks.push_back(skel(*a, depth - 1));
    if (is_a<Add>(e) || is_a<Mul>(e) || is_a<And>(e) || is_a<Or>(e) || is_a<Max>(e) || is_a<Min>(e))
        std::sort(ks.begin(), ks.end());
    std::string o = t + "(";
    for (size_t i = 0; i < ks.size(); i++)
        o += (i ? "," : "") + ks[i];
    return o + ")";
}

// ------------------------------------------------------------------ typed term pool
struct OpU {
    const char *name;
    RCP<const Basic> (*f)(const RCP<const Basic> &);
};
struct OpB {
    const char *name;
    std::function<RCP<const Basic>(const RCP<const Basic> &, const RCP<const Basic> &)> f;
};
inline RCP<const Basic> op_neg(const RCP<const Basic> &a)
{
    return neg(a);
}
inline RCP<const Basic> op_exp(const RCP<const Basic> &a)
{
    return exp(a);
}
inline RCP<const Basic> op_log(const RCP<const Basic> &a)
{
    return log(a);
}
inline const std::vector<OpU> &unary_ops()
{
    static const std::vector<OpU> U = {
        {"neg", op_neg},     {"sqrt", sqrt},   {"exp", op_exp},   {"log", op_log},   {"abs", abs},         {"sin", sin},
        {"cos", cos},        {"tan", tan},     {"sign", sign},    {"floor", floor},  {"ceiling", ceiling}, {"truncate", truncate},
        {"asin", asin},      {"acos", acos},   {"atan", atan},    {"sinh", sinh},    {"cosh", cosh},       {"tanh", tanh},
        {"asinh", asinh},    {"acosh", acosh}, {"atanh", atanh},  {"cot", cot},      {"csc", csc},         {"sec", sec},
        {"acot", acot},      {"asec", asec},   {"acsc", acsc},    {"coth", coth},    {"csch", csch},       {"sech", sech},
        {"acoth", acoth},    {"asech", asech}, {"acsch", acsch},  {"cbrt", cbrt},    {"gamma", gamma},     {"loggamma", loggamma},
        {"erf", erf},        {"erfc", erfc}};
    return U;
}
inline const std::vector<OpB> &binary_ops()
{
    static const std::vector<OpB> B = {
        {"add", [](const RCP<const Basic> &a, const RCP<const Basic> &b) { return add(a, b); }},
        {"sub", [](const RCP<const Basic> &a, const RCP<const Basic> &b) { return sub(a, b); }},
        {"mul", [](const RCP<const Basic> &a, const RCP<const Basic> &b) { return mul(a, b); }},
        {"div", [](const RCP<const Basic> &a, const RCP<const Basic> &b) { return div(a, b); }},
        {"pow", [](const RCP<const Basic> &a, const RCP<const Basic> &b) { return pow(a, b); }},
        {"atan2", [](const RCP<const Basic> &a, const RCP<const Basic> &b) { return atan2(a, b); }},
        {"max", [](const RCP<const Basic> &a, const RCP<const Basic> &b) { return max({a, b}); }},
        {"min", [](const RCP<const Basic> &a, const RCP<const Basic> &b) { return min({a, b}); }}};
    return B;
}
static const char *RELNAME[6] = {"Eq", "Ne", "Lt", "Le", "Gt", "Ge"};
inline RCP<const Basic> mkrel(int r, const RCP<const Basic> &a, const RCP<const Basic> &b)
{
    switch (r) {
        case 0:
            return Eq(a, b);
        case 1:
            return Ne(a, b);
        case 2:
            return Lt(a, b);
        case 3:
            return Le(a, b);
        case 4:
            return Gt(a, b);
        default:
            return Ge(a, b);
    }
}
inline RCP<const Boolean> asbool(const RCP<const Basic> &b)
{
    return rcp_static_cast<const Boolean>(b);
}
static const char *LOGNAME[3] = {"And", "Or", "Xor"};
inline RCP<const Basic> mklogic(int k, const RCP<const Basic> &a, const RCP<const Basic> &b)
{
    switch (k) {
        case 0:
            return logical_and({asbool(a), asbool(b)});
        case 1:
            return logical_or({asbool(a), asbool(b)});
        default:
            return logical_xor({asbool(a), asbool(b)});
    }
}
struct IntervalSpec {
    const char *name;
    RCP<const Set> s;
};
inline const std::vector<IntervalSpec> &intervals()
{
    static const std::vector<IntervalSpec> I = {{"[0,2]", interval(integer(0), integer(2), false, false)},
                                                {"(0,2)", interval(integer(0), integer(2), true, true)},
                                                {"[-3/2,oo)", interval(rcp_static_cast<const Number>(Rational::from_two_ints(-3, 2)), Inf, false, true)},
                                                {"(-oo,1/2)", interval(NegInf, rcp_static_cast<const Number>(Rational::from_two_ints(1, 2)), true, true)},
                                                {"(1/2,3]", interval(rcp_static_cast<const Number>(Rational::from_two_ints(1, 2)), integer(3), true, false)}};
    return I;
}
inline RCP<const Basic> mkpw2(const RCP<const Basic> &a, const RCP<const Basic> &c, const RCP<const Basic> &b)
{
    PiecewiseVec v;
    v.push_back({a, asbool(c)});
    v.push_back({b, boolTrue});
    return piecewise(v);
}

// A recipe: operation + operand state indices (into the pool's V or B list)
struct Recipe {
    enum Kind { UN, BIN, REL, CONT, NOT, LOGIC, PW2 } kind;
    int op;
    int a, b, c; // operand indices (a: V or B depending on kind)
};

struct PoolCfg {
    std::vector<std::pair<std::string, RCP<const Basic>>> leavesV, leavesB;
    int nun = 1000, nbin = 1000; // how many of the unary / binary value operators (prefix of the tables)
    int maxn = 2;
    bool pw_level2 = true;        // Piecewise transitions at n = 2
    size_t pw_leafcap = 1000;     // only the first pw_leafcap value leaves are used as Piecewise branches at n = 2
};

struct TermPool {
    StateSet V, B;
    std::vector<int> vend, bend; // vend[n] = |V_n| (states of depth <= n)
    uint64_t recipes = 0, refused = 0;

    std::string rname(const Recipe &r) const
    {
        auto v = [&](int i) { return V.S[i].recipe; };
        auto b = [&](int i) { return B.S[i].recipe; };
        switch (r.kind) {
            case Recipe::UN:
                return std::string(unary_ops()[r.op].name) + "(" + v(r.a) + ")";
            case Recipe::BIN:
                return std::string(binary_ops()[r.op].name) + "(" + v(r.a) + ", " + v(r.b) + ")";
            case Recipe::REL:
                return std::string(RELNAME[r.op]) + "(" + v(r.a) + ", " + v(r.b) + ")";
            case Recipe::CONT:
                return "Contains(" + v(r.a) + ", " + intervals()[r.op].name + ")";
            case Recipe::NOT:
                return "Not(" + b(r.a) + ")";
            case Recipe::LOGIC:
                return std::string(LOGNAME[r.op]) + "(" + b(r.a) + ", " + b(r.b) + ")";
            default:
                return "Piecewise((" + v(r.a) + ", " + b(r.c) + "), (" + v(r.b) + ", True))";
        }
    }
    RCP<const Basic> build(const Recipe &r) const
    {
        switch (r.kind) {
            case Recipe::UN:
                return unary_ops()[r.op].f(V.S[r.a].e);
            case Recipe::BIN:
                return binary_ops()[r.op].f(V.S[r.a].e, V.S[r.b].e);
            case Recipe::REL:
                return mkrel(r.op, V.S[r.a].e, V.S[r.b].e);
            case Recipe::CONT:
                return contains(V.S[r.a].e, intervals()[r.op].s);
            case Recipe::NOT:
                return logical_not(asbool(B.S[r.a].e));
            case Recipe::LOGIC:
                return mklogic(r.op, B.S[r.a].e, B.S[r.b].e);
            default:
                return mkpw2(V.S[r.a].e, B.S[r.c].e, V.S[r.b].e);
        }
    }
    static bool yields_bool(const Recipe &r)
    {
        return r.kind == Recipe::REL || r.kind == Recipe::CONT || r.kind == Recipe::NOT || r.kind == Recipe::LOGIC;
    }

    // all recipes whose operands have depths summing to n-1 (given the level boundaries)
    std::vector<Recipe> level_recipes(const PoolCfg &cfg, int n) const
    {
        std::vector<Recipe> out;
        int nun = std::min<int>(cfg.nun, unary_ops().size()), nbin = std::min<int>(cfg.nbin, binary_ops().size());
        auto vrange = [&](int d, int &lo, int &hi) {
            lo = d == 0 ? 0 : vend[d - 1];
            hi = vend[d];
        };
        auto brange = [&](int d, int &lo, int &hi) {
            lo = d == 0 ? 0 : bend[d - 1];
            hi = bend[d];
        };
        int lo, hi, lo2, hi2, lo3, hi3;
        // unary on depth n-1
        vrange(n - 1, lo, hi);
        for (int a = lo; a < hi; a++) {
            for (int o = 0; o < nun; o++)
                out.push_back({Recipe::UN, o, a, 0, 0});
            for (int k = 0; k < (int)intervals().size(); k++)
                out.push_back({Recipe::CONT, k, a, 0, 0});
        }
        brange(n - 1, lo, hi);
        for (int a = lo; a < hi; a++)
            out.push_back({Recipe::NOT, 0, a, 0, 0});
        // binary: depths i + j = n - 1
        for (int i = 0; i <= n - 1; i++) {
            int j = n - 1 - i;
            vrange(i, lo, hi);
            vrange(j, lo2, hi2);
            for (int a = lo; a < hi; a++)
                for (int b = lo2; b < hi2; b++) {
                    for (int o = 0; o < nbin; o++)
                        out.push_back({Recipe::BIN, o, a, b, 0});
                    for (int o = 0; o < 6; o++)
                        out.push_back({Recipe::REL, o, a, b, 0});
                }
            brange(i, lo, hi);
            brange(j, lo2, hi2);
            for (int a = lo; a < hi; a++)
                for (int b = lo2; b < hi2; b++)
                    for (int o = 0; o < 3; o++)
                        out.push_back({Recipe::LOGIC, o, a, b, 0});
        }
        // ternary Piecewise: depths i + j + k = n - 1
        if (n == 1 || cfg.pw_level2)
            for (int i = 0; i <= n - 1; i++)
                for (int j = 0; i + j <= n - 1; j++) {
                    int k = n - 1 - i - j;
                    vrange(i, lo, hi);
                    vrange(j, lo2, hi2);
                    brange(k, lo3, hi3);
                    for (int a = lo; a < hi; a++)
                        for (int b = lo2; b < hi2; b++) {
                            if (n >= 2 && ((i == 0 && (size_t)a >= cfg.pw_leafcap) || (j == 0 && (size_t)b >= cfg.pw_leafcap)))
                                continue;
                            for (int c = lo3; c < hi3; c++)
                                out.push_back({Recipe::PW2, 0, a, b, c});
                        }
                }
        return out;
    }
};

// Build the pool level by level.  Every constructor call is first executed inside run_cases
// (crash / hang isolation); the parent then re-executes only the calls that completed cleanly.
inline void build_pool(TermPool &P, const PoolCfg &cfg, const std::string &tag)
{
    for (auto &l : cfg.leavesV)
        P.V.add(l.second, l.first, 0);
    for (auto &l : cfg.leavesB)
        P.B.add(l.second, l.first, 0);
    P.vend = {(int)P.V.size()};
    P.bend = {(int)P.B.size()};
    for (int n = 1; n <= cfg.maxn; n++) {
        std::vector<Recipe> rs = P.level_recipes(cfg, n);
        CaseSet cs;
        cs.name = tag + ":construct-level-" + std::to_string(n);
        cs.n = rs.size();
        cs.counter_names = {"constructor_calls", "constructor_refused(exception)"};
        cs.desc = [&](long long i) { return P.rname(rs[i]); };
        cs.crash_sig = [&](long long i, const std::string &oc) {
            const Recipe &r = rs[i];
            return "construct:" + oc + ":" + std::string(r.kind == Recipe::UN ? unary_ops()[r.op].name : r.kind == Recipe::BIN ? binary_ops()[r.op].name : "other");
        };
        cs.body = [&](long long i, Ctx &c) {
            c.count(0);
            try {
                RCP<const Basic> e = P.build(rs[i]);
                (void)e;
            } catch (SymEngineException &) {
                c.count(1);
            }
        };
        run_cases(cs);
        if (replaying() && opts().only_check == cs.name)
            return;
        for (size_t i = 0; i < rs.size(); i++) {
            if (cs.bad.count(i))
                continue;
            P.recipes++;
            try {
                RCP<const Basic> e = P.build(rs[i]);
                if (is_a_Boolean(*e))
                    P.B.add(e, P.rname(rs[i]), n);
                else
                    P.V.add(e, P.rname(rs[i]), n);
            } catch (SymEngineException &) {
                P.refused++;
            }
        }
        P.vend.push_back(P.V.size());
        P.bend.push_back(P.B.size());
    }
}

// CPU seconds used so far by this process and its reaped children (wall time is useless on a shared box)
inline double cpu_s()
{
    struct rusage a, b;
    getrusage(RUSAGE_SELF, &a);
    getrusage(RUSAGE_CHILDREN, &b);
    auto f = [](const struct rusage &r) { return r.ru_utime.tv_sec + r.ru_stime.tv_sec + 1e-6 * (r.ru_utime.tv_usec + r.ru_stime.tv_usec); };
    return f(a) + f(b);
}
inline void phase_log(const char *pid, const std::string &what)
{
    static double last_cpu = 0, last_t = 0;
    double c = cpu_s(), t = now();
    if (last_t == 0)
        last_t = opts().t0;
    fprintf(stderr, "[%s] %-40s wall %6.1fs  cpu %7.1fs (= %.1fs on 16 idle cores)\n", pid, what.c_str(), t - last_t, c - last_cpu, (c - last_cpu) / 16);
    last_cpu = c;
    last_t = t;
}

inline bool depends_on_symbols(const Basic &e)
{
    if (is_a_sub<Symbol>(e))
        return true;
    for (auto &a : e.get_args())
        if (depends_on_symbols(*a))
            return true;
    return false;
}

} // namespace a13
#endif
