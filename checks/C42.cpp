// C42  C API and Expression wrapper agree with the core API -- E2 over handles (DESIGN 5 C42)
//
// Every exported C function that can be driven generically is called on *valid handles* (handles
// of the documented type) with every argument tuple of a finite pool, inside a C++ try block:
//   * a C++ exception reaching the driver is a violation (the C API must return an error code);
//   * a successful call must produce the result of the corresponding core C++ call, written here
//     independently from the header documentation (compared by structural key);
//   * a successful call must leave every output handle non-null, and never modify its inputs.
// Containers are compared with std::vector/set/map models over all op sequences of depth <= 4,
// dense/sparse matrix functions with element-wise core results, Expression operators with the
// core functions on all ordered pairs of the pool.
#include "common.h"
#include "key.h"
#include "explore.h"
#include <symengine/expression.h>
#include <symengine/cwrapper.h>
using namespace verif;

typedef RCP<const Basic> B;
struct HB {
    B m;
};
static inline B &H(basic_struct *s)
{
    return reinterpret_cast<HB *>(s)->m;
}
struct Hd {
    basic_struct *p;
    Hd()
    {
        p = basic_new_heap();
    }
    ~Hd()
    {
        basic_free_heap(p);
    }
    Hd(const Hd &) = delete;
    Hd &operator=(const Hd &) = delete;
};
static std::string hk(basic_struct *s)
{
    if (H(s).is_null())
        return "<NULL>";
    return key(*H(s));
}
static std::string kk(const B &b)
{
    if (b.is_null())
        return "<NULL>";
    return key(*b);
}
static std::string take(char *p)
{
    if (!p)
        return "<nullptr>";
    std::string s(p);
    basic_str_free(p);
    return s;
}
static std::string tname(const B &b)
{
    return b.is_null() ? "NULL" : type_code_name(b->get_type_code());
}
static std::string vec_keys(CVecBasic *v)
{
    std::string o = "[";
    Hd t;
    size_t n = vecbasic_size(v);
    for (size_t i = 0; i < n; i++) {
        vecbasic_get(v, i, t.p);
        o += hk(t.p) + ";";
    }
    return o + "]";
}
static std::string vec_keys(const vec_basic &v)
{
    std::string o = "[";
    for (auto &e : v)
        o += kk(e) + ";";
    return o + "]";
}
static std::string set_keys(CSetBasic *v)
{
    std::vector<std::string> ks;
    Hd t;
    size_t n = setbasic_size(v);
    for (size_t i = 0; i < n; i++) {
        setbasic_get(v, (int)i, t.p);
        ks.push_back(hk(t.p));
    }
    std::sort(ks.begin(), ks.end());
    std::string o = "{";
    for (auto &k : ks)
        o += k + ";";
    return o + "}";
}
static std::string set_keys(const set_basic &v)
{
    std::vector<std::string> ks;
    for (auto &e : v)
        ks.push_back(kk(e));
    std::sort(ks.begin(), ks.end());
    std::string o = "{";
    for (auto &k : ks)
        o += k + ";";
    return o + "}";
}
struct CVec {
    CVecBasic *p;
    CVec()
    {
        p = vecbasic_new();
    }
    CVec(std::initializer_list<basic_struct *> l)
    {
        p = vecbasic_new();
        for (auto h : l)
            vecbasic_push_back(p, h);
    }
    ~CVec()
    {
        vecbasic_free(p);
    }
};
struct CSet {
    CSetBasic *p;
    CSet()
    {
        p = setbasic_new();
    }
    ~CSet()
    {
        setbasic_free(p);
    }
};

// ---------------------------------------------------------------- argument classes (valid-handle guard)
enum { ANY, NUM, INT, RAT, SET, SYM, ADDT, MULT, FSYM, RDBL, CDBL, CPLX };
static bool in_class(int cls, const Basic &e)
{
    switch (cls) {
        case ANY:
            return true;
        case NUM:
            return dynamic_cast<const Number *>(&e) != nullptr;
        case INT:
            return is_a<Integer>(e);
        case RAT:
            return is_a<Rational>(e);
        case SET:
            return dynamic_cast<const Set *>(&e) != nullptr;
        case SYM:
            return is_a<Symbol>(e);
        case ADDT:
            return is_a<Add>(e);
        case MULT:
            return is_a<Mul>(e);
        case FSYM:
            return is_a<FunctionSymbol>(e);
        case RDBL:
            return is_a<RealDouble>(e);
        case CDBL:
            return is_a<ComplexDouble>(e);
        case CPLX:
            return dynamic_cast<const ComplexBase *>(&e) != nullptr;
    }
    return false;
}

// ---------------------------------------------------------------- the function menu
typedef std::vector<std::string> XS;
typedef std::function<int(basic_struct **o, basic_struct **i, XS &x)> CF;
typedef std::function<void(std::vector<B> &o, const std::vector<B> &i, XS &x)> KF;
struct Fn {
    std::string name;
    std::vector<int> in;
    int nout;
    CF c;
    KF k;
    bool d2;     // member of the restricted depth-2 menu
    bool small;  // arguments drawn from the reduced pool (ternary functions)
};
static std::vector<Fn> FN;
static void F(const std::string &name, std::vector<int> in, int nout, CF c, KF k, bool d2 = false, bool small = false)
{
    FN.push_back(Fn{name, in, nout, c, k, d2, small});
}
struct CoreRefusal : public SymEngineException {
    CoreRefusal() : SymEngineException("documented: error code expected") {}
};
struct Undecided {
};
static std::string its(long long v)
{
    return std::to_string(v);
}
static std::string uts(unsigned long long v)
{
    return std::to_string(v);
}
static mpz_class mpz_of(const B &b)
{
    return to_mpz(down_cast<const Integer &>(*b).as_integer_class());
}
static const Integer &INTG(const B &b)
{
    return down_cast<const Integer &>(*b);
}
static RCP<const Set> SETP(const B &b)
{
    return rcp_static_cast<const Set>(b);
}


#define UN(nm, d2)                                                                                                      \
    F("basic_" #nm, {ANY}, 1, [](basic_struct **o, basic_struct **i, XS &) { return (int)basic_##nm(o[0], i[0]); },      \
      [](std::vector<B> &o, const std::vector<B> &i, XS &) { o[0] = SymEngine::nm(i[0]); }, d2)
#define BIN(nm, d2)                                                                                                     \
    F("basic_" #nm, {ANY, ANY}, 1,                                                                                      \
      [](basic_struct **o, basic_struct **i, XS &) { return (int)basic_##nm(o[0], i[0], i[1]); },                       \
      [](std::vector<B> &o, const std::vector<B> &i, XS &) { o[0] = SymEngine::nm(i[0], i[1]); }, d2)
#define CONSTF(cfn, coreexpr)                                                                                           \
    F(#cfn, {}, 1,                                                                                                      \
      [](basic_struct **o, basic_struct **, XS &) {                                                                     \
          cfn(o[0]);                                                                                                    \
          return 0;                                                                                                     \
      },                                                                                                                \
      [](std::vector<B> &o, const std::vector<B> &, XS &) { o[0] = coreexpr; })
#define STRF(cfn, coreexpr)                                                                                             \
    F(#cfn, {ANY}, 0,                                                                                                   \
      [](basic_struct **, basic_struct **i, XS &x) {                                                                    \
          char *p = cfn(i[0]);                                                                                          \
          if (!p)                                                                                                       \
              return (int)SYMENGINE_RUNTIME_ERROR;                                                                      \
          x.push_back(take(p));                                                                                         \
          return 0;                                                                                                     \
      },                                                                                                                \
      [](std::vector<B> &, const std::vector<B> &i, XS &x) { x.push_back(coreexpr); }, true)
#define PRED(cfn, cls, coreexpr)                                                                                        \
    F(#cfn, {cls}, 0,                                                                                                   \
      [](basic_struct **, basic_struct **i, XS &x) {                                                                    \
          x.push_back(its(::cfn(i[0])));                                                                                \
          return 0;                                                                                                     \
      },                                                                                                                \
      [](std::vector<B> &, const std::vector<B> &i, XS &x) {                                                            \
          const Basic &e = *i[0];                                                                                       \
          (void)e;                                                                                                      \
          x.push_back(its((coreexpr) ? 1 : 0));                                                                         \
      })
#define INT2(cfn, corefn)                                                                                               \
    F(#cfn, {INT, INT}, 1, [](basic_struct **o, basic_struct **i, XS &) { return (int)cfn(o[0], i[0], i[1]); },         \
      [](std::vector<B> &o, const std::vector<B> &i, XS &) { o[0] = SymEngine::corefn(INTG(i[0]), INTG(i[1])); })
#define SET2(cfn, method)                                                                                               \
    F(#cfn, {SET, SET}, 1, [](basic_struct **o, basic_struct **i, XS &) { return (int)cfn(o[0], i[0], i[1]); },         \
      [](std::vector<B> &o, const std::vector<B> &i, XS &) { o[0] = SETP(i[0])->method(SETP(i[1])); }, true)
#define SETP2(cfn, method)                                                                                              \
    F(#cfn, {SET, SET}, 0,                                                                                              \
      [](basic_struct **, basic_struct **i, XS &x) {                                                                    \
          x.push_back(its(cfn(i[0], i[1]) ? 1 : 0));                                                                    \
          return 0;                                                                                                     \
      },                                                                                                                \
      [](std::vector<B> &, const std::vector<B> &i, XS &x) { x.push_back(its(SETP(i[0])->method(SETP(i[1])) ? 1 : 0)); })
#define SET1(cfn, corefn)                                                                                               \
    F(#cfn, {SET}, 1, [](basic_struct **o, basic_struct **i, XS &) { return (int)cfn(o[0], i[0]); },                    \
      [](std::vector<B> &o, const std::vector<B> &i, XS &) { o[0] = SymEngine::corefn(*SETP(i[0])); }, true)

static const char *PARSE_STR[] = {"x+y",   "2*x**2", "x^2",  "sin(x)/0", "1/0",    "(x",     "x+",  "",        "1e400", "f(x, y)",
                                  "3 @ 4",  "0**-1", "oo - oo",  "sqrt(-4)", "x = = y", "1.5", "pi*I", "[1]",  "x y"};
static const long LV[] = {0, 1, -1, 2, 4, -6, 3, LONG_MAX, LONG_MIN};
static const unsigned long ULV[] = {0, 1, 2, 4, 6, 3, ULONG_MAX};
static const char *INTSTR[] = {"0", "-12", "123456789012345678901234567890", "abc", "", "12x", "+5", " 7", "0x10", "1.5"};
static const double DV[] = {0.0, -0.0, 1.5, -2.25, 1e308, 5e-324, INFINITY, -INFINITY, NAN};
static const char *SYMN[] = {"x", "y", "", "a b", "x1", "pi", "I", "\xce\xb1"};

static void build_menu()
{
    // ---- one-argument functions basic -> basic (45)
    UN(expand, true);
    UN(neg, true);
    UN(abs, true);
    UN(erf, false);
    UN(erfc, false);
    UN(sin, true);
    UN(cos, true);
    UN(tan, false);
    UN(asin, false);
    UN(acos, false);
    UN(atan, false);
    UN(csc, false);
    UN(sec, false);
    UN(cot, false);
    UN(acsc, false);
    UN(asec, false);
    UN(acot, false);
    UN(sinh, false);
    UN(cosh, false);
    UN(tanh, false);
    UN(asinh, false);
    UN(acosh, false);
    UN(atanh, false);
    UN(csch, false);
    UN(sech, false);
    UN(coth, false);
    UN(acsch, false);
    UN(asech, false);
    UN(acoth, false);
    UN(lambertw, false);
    UN(zeta, false);
    UN(dirichlet_eta, false);
    UN(gamma, false);
    UN(loggamma, false);
    UN(sqrt, true);
    UN(cbrt, false);
    UN(exp, true);
    UN(log, true);
    UN(floor, true);
    UN(ceiling, false);
    UN(sign, true);
    // ---- two-argument functions
    BIN(add, true);
    BIN(sub, true);
    BIN(mul, true);
    BIN(div, true);
    BIN(pow, true);
    BIN(atan2, false);
    BIN(kronecker_delta, false);
    BIN(lowergamma, false);
    BIN(uppergamma, false);
    BIN(beta, false);
    BIN(polygamma, false);
    F("basic_diff", {ANY, ANY}, 1, [](basic_struct **o, basic_struct **i, XS &) { return (int)basic_diff(o[0], i[0], i[1]); },
      [](std::vector<B> &o, const std::vector<B> &i, XS &) {
          if (!is_a<Symbol>(*i[1]))
              throw CoreRefusal(); // documented: returns an error code for a non-symbol
          o[0] = i[0]->diff(rcp_static_cast<const Symbol>(i[1]));
      },
      true);
    F("basic_eq", {ANY, ANY}, 0,
      [](basic_struct **, basic_struct **i, XS &x) {
          x.push_back(its(basic_eq(i[0], i[1])));
          return 0;
      },
      [](std::vector<B> &, const std::vector<B> &i, XS &x) { x.push_back(its(eq(*i[0], *i[1]) ? 1 : 0)); }, true);
    F("basic_neq", {ANY, ANY}, 0,
      [](basic_struct **, basic_struct **i, XS &x) {
          x.push_back(its(basic_neq(i[0], i[1])));
          return 0;
      },
      [](std::vector<B> &, const std::vector<B> &i, XS &x) { x.push_back(its(neq(*i[0], *i[1]) ? 1 : 0)); }, true);
    F("basic_has_symbol", {ANY, SYM}, 0,
      [](basic_struct **, basic_struct **i, XS &x) {
          x.push_back(its(basic_has_symbol(i[0], i[1])));
          return 0;
      },
      [](std::vector<B> &, const std::vector<B> &i, XS &x) {
          set_basic fs = free_symbols(*i[0]);
          bool f = false;
          for (auto &s : fs)
              if (kk(s) == kk(i[1]))
                  f = true;
          x.push_back(its(f));
      },
      true);
    F("basic_assign", {ANY}, 1, [](basic_struct **o, basic_struct **i, XS &) { return (int)basic_assign(o[0], i[0]); },
      [](std::vector<B> &o, const std::vector<B> &i, XS &) { o[0] = i[0]; });
    F("basic_get_type", {ANY}, 0,
      [](basic_struct **, basic_struct **i, XS &x) {
          x.push_back(its((int)basic_get_type(i[0])));
          char *n = basic_get_class_from_id(basic_get_type(i[0]));
          x.push_back(its((int)basic_get_class_id(n)));
          x.push_back(take(n));
          return 0;
      },
      [](std::vector<B> &, const std::vector<B> &i, XS &x) {
          x.push_back(its((int)i[0]->get_type_code()));
          x.push_back(its((int)i[0]->get_type_code()));
          x.push_back(type_code_name(i[0]->get_type_code()));
      });
    F("basic_hash", {ANY}, 0,
      [](basic_struct **, basic_struct **i, XS &x) {
          x.push_back(uts(basic_hash(i[0])));
          return 0;
      },
      [](std::vector<B> &, const std::vector<B> &i, XS &x) { x.push_back(uts(i[0]->hash())); });
    // ---- predicates (oracle: RTTI / exact type, not the library's is_a helpers)
    PRED(is_a_Number, ANY, dynamic_cast<const Number *>(&e) != nullptr);
    PRED(is_a_Integer, ANY, typeid(e) == typeid(Integer));
    PRED(is_a_Rational, ANY, typeid(e) == typeid(Rational));
    PRED(is_a_Symbol, ANY, typeid(e) == typeid(Symbol));
    PRED(is_a_Complex, ANY, typeid(e) == typeid(Complex));
    PRED(is_a_RealDouble, ANY, typeid(e) == typeid(RealDouble));
    PRED(is_a_ComplexDouble, ANY, typeid(e) == typeid(ComplexDouble));
    PRED(is_a_RealMPFR, ANY, false);
    PRED(is_a_ComplexMPC, ANY, false);
    PRED(is_a_Set, ANY, dynamic_cast<const Set *>(&e) != nullptr);
    PRED(number_is_zero, NUM, down_cast<const Number &>(e).is_zero());
    PRED(number_is_negative, NUM, down_cast<const Number &>(e).is_negative());
    PRED(number_is_positive, NUM, down_cast<const Number &>(e).is_positive());
    PRED(number_is_complex, NUM, down_cast<const Number &>(e).is_complex());
    // ---- printers: nullptr iff the core printer throws
    STRF(basic_str, i[0]->__str__());
    STRF(basic_str_julia, julia_str(*i[0]));
    STRF(basic_str_mathml, mathml(*i[0]));
    STRF(basic_str_latex, latex(*i[0]));
    STRF(basic_str_ccode, ccode(*i[0]));
    STRF(basic_str_cudacode, cudacode(*i[0]));
    STRF(basic_str_metalcode, metalcode(*i[0]));
    STRF(basic_str_jscode, jscode(*i[0]));
    for (int prec = -1; prec < 3; prec++) {
        F("basic_str_*code_settings[" + its(prec) + "]", {ANY}, 0,
          [prec](basic_struct **, basic_struct **i, XS &x) {
              BasicCodePrinterSettings *st = nullptr;
              if (prec >= 0) {
                  st = basic_code_printer_settings_new();
                  basic_code_printer_settings_set_precision(st, (BasicCodePrinterPrecision)prec);
              }
              char *a = basic_str_ccode_settings(i[0], st), *b = basic_str_cudacode_settings(i[0], st),
                   *c = basic_str_metalcode_settings(i[0], st);
              if (st)
                  basic_code_printer_settings_free(st);
              if (!a && !b && !c)
                  return (int)SYMENGINE_RUNTIME_ERROR;
              x.push_back(take(a));
              x.push_back(take(b));
              x.push_back(take(c));
              return 0;
          },
          [prec](std::vector<B> &, const std::vector<B> &i, XS &x) {
              CodePrinterPrecision p = prec == 1 ? CodePrinterPrecision::Float
                                                 : prec == 2 ? CodePrinterPrecision::Half : CodePrinterPrecision::Double;
              int thrown = 0;
              auto one = [&](const std::function<std::string()> &f) {
                  try {
                      x.push_back(f());
                  } catch (SymEngineException &) {
                      x.push_back("<nullptr>");
                      thrown++;
                  }
              };
              // no settings object: each printer's own default precision
              one([&] { return prec < 0 ? ccode(*i[0]) : ccode(*i[0], p); });
              one([&] { return prec < 0 ? cudacode(*i[0]) : cudacode(*i[0], p); });
              one([&] { return prec < 0 ? metalcode(*i[0]) : metalcode(*i[0], p); });
              if (thrown == 3)
                  throw CoreRefusal();
          });
    }
    // ---- serialisation
    F("basic_dumps+basic_loads", {ANY}, 1,
      [](basic_struct **o, basic_struct **i, XS &x) {
          unsigned long n = 0;
          char *p = basic_dumps(i[0], &n);
          if (!p)
              return (int)SYMENGINE_RUNTIME_ERROR;
          x.push_back(n > 0 ? "nonempty" : "empty"); // the byte string itself contains object ids: not comparable between two calls
          int rc = basic_loads(o[0], p, n);
          basic_str_free(p);
          return rc;
      },
      [](std::vector<B> &o, const std::vector<B> &i, XS &x) {
          std::string d = i[0]->dumps();
          x.push_back(d.size() > 0 ? "nonempty" : "empty");
          o[0] = Basic::loads(d); // the core composition (whether loads(dumps(e)) == e is C19/C20's subject)
      },
      true);
    for (const char *s : {"", "garbage", "\x01\x02\x03\x04\x05\x06\x07\x08"}) {
        std::string str(s);
        F("basic_loads[" + jstr(str) + "]", {}, 1,
          [str](basic_struct **o, basic_struct **, XS &) { return (int)basic_loads(o[0], str.data(), str.size()); },
          [str](std::vector<B> &o, const std::vector<B> &, XS &) { o[0] = Basic::loads(str); });
    }
    // ---- constant setters
    CONSTF(basic_const_zero, integer(0));
    CONSTF(basic_const_one, integer(1));
    CONSTF(basic_const_minus_one, integer(-1));
    CONSTF(basic_const_I, Complex::from_two_nums(*integer(0), *integer(1)));
    CONSTF(basic_const_pi, constant("pi"));
    CONSTF(basic_const_E, constant("E"));
    CONSTF(basic_const_EulerGamma, constant("EulerGamma"));
    CONSTF(basic_const_Catalan, constant("Catalan"));
    CONSTF(basic_const_GoldenRatio, constant("GoldenRatio"));
    CONSTF(basic_const_infinity, Infty::from_int(1));
    CONSTF(basic_const_neginfinity, Infty::from_int(-1));
    CONSTF(basic_const_complex_infinity, Infty::from_int(0));
    CONSTF(basic_const_nan, Nan);
    CONSTF(bool_set_true, boolean(true));
    CONSTF(bool_set_false, boolean(false));
    CONSTF(basic_set_emptyset, emptyset());
    CONSTF(basic_set_universalset, universalset());
    CONSTF(basic_set_complexes, complexes());
    CONSTF(basic_set_reals, reals());
    CONSTF(basic_set_rationals, rationals());
    CONSTF(basic_set_integers, integers());
    for (const char *s : {"foo", "pi", ""}) {
        std::string str(s);
        F("basic_const_set[" + str + "]", {}, 1,
          [str](basic_struct **o, basic_struct **, XS &) {
              basic_const_set(o[0], str.c_str());
              return 0;
          },
          [str](std::vector<B> &o, const std::vector<B> &, XS &) { o[0] = constant(str); });
    }
    for (const char *s : SYMN) {
        std::string str(s);
        F("symbol_set[" + jstr(str) + "]", {}, 1, [str](basic_struct **o, basic_struct **, XS &) { return (int)symbol_set(o[0], str.c_str()); },
          [str](std::vector<B> &o, const std::vector<B> &, XS &) { o[0] = symbol(str); });
    }
    for (const char *s : PARSE_STR) {
        std::string str(s);
        F("basic_parse[" + jstr(str) + "]", {}, 1, [str](basic_struct **o, basic_struct **, XS &) { return (int)basic_parse(o[0], str.c_str()); },
          [str](std::vector<B> &o, const std::vector<B> &, XS &) { o[0] = parse(str); });
        for (int flag : {1, 0, -1, 2})
            F("basic_parse2[" + jstr(str) + "," + its(flag) + "]", {}, 1,
              [str, flag](basic_struct **o, basic_struct **, XS &) { return (int)basic_parse2(o[0], str.c_str(), flag); },
              [str, flag](std::vector<B> &o, const std::vector<B> &, XS &) { o[0] = parse(str, flag > 0); }); // "> 0 default, <= 0 otherwise"
    }
    // ---- number setters/getters
    for (long v : LV) {
        F("integer_set_si[" + its(v) + "]", {}, 1, [v](basic_struct **o, basic_struct **, XS &) { return (int)integer_set_si(o[0], v); },
          [v](std::vector<B> &o, const std::vector<B> &, XS &) { o[0] = integer(integer_class(mpz_class(v).get_str())); });
        for (long w : LV)
            F("rational_set_si[" + its(v) + "," + its(w) + "]", {}, 1,
              [v, w](basic_struct **o, basic_struct **, XS &) { return (int)rational_set_si(o[0], v, w); },
              [v, w](std::vector<B> &o, const std::vector<B> &, XS &) {
                  o[0] = Rational::from_two_ints(*integer(integer_class(mpz_class(v).get_str())), *integer(integer_class(mpz_class(w).get_str())));
              });
    }
    for (unsigned long v : ULV) {
        F("integer_set_ui[" + uts(v) + "]", {}, 1, [v](basic_struct **o, basic_struct **, XS &) { return (int)integer_set_ui(o[0], v); },
          [v](std::vector<B> &o, const std::vector<B> &, XS &) { o[0] = integer(integer_class(mpz_class(v).get_str())); });
        for (unsigned long w : ULV)
            F("rational_set_ui[" + uts(v) + "," + uts(w) + "]", {}, 1,
              [v, w](basic_struct **o, basic_struct **, XS &) { return (int)rational_set_ui(o[0], v, w); },
              [v, w](std::vector<B> &o, const std::vector<B> &, XS &) {
                  o[0] = Rational::from_two_ints(*integer(integer_class(mpz_class(v).get_str())), *integer(integer_class(mpz_class(w).get_str())));
              });
    }
    for (const char *s : INTSTR) {
        std::string str(s);
        F("integer_set_str[" + jstr(str) + "]", {}, 1, [str](basic_struct **o, basic_struct **, XS &) { return (int)integer_set_str(o[0], str.c_str()); },
          [str](std::vector<B> &o, const std::vector<B> &, XS &) {
              mpz_class z;
              if (z.set_str(str, 10) != 0)
                  throw Undecided(); // not a decimal integer: the header documents nothing; counted, not judged
              o[0] = integer(integer_class(z.get_str()));
          });
    }
    for (double d : DV)
        F("real_double_set_d[" + hexd(d) + "]", {}, 1, [d](basic_struct **o, basic_struct **, XS &) { return (int)real_double_set_d(o[0], d); },
          [d](std::vector<B> &o, const std::vector<B> &, XS &) { o[0] = real_double(d); });
    F("integer_set_mpz(integer_get_mpz)", {INT}, 1,
      [](basic_struct **o, basic_struct **i, XS &x) {
          mpz_t z;
          mpz_init(z);
          int rc = integer_get_mpz(z, i[0]);
          x.push_back(mpz_class(z).get_str());
          if (rc == 0)
              rc = integer_set_mpz(o[0], z);
          mpz_clear(z);
          return rc;
      },
      [](std::vector<B> &o, const std::vector<B> &i, XS &x) {
          x.push_back(mpz_of(i[0]).get_str());
          o[0] = i[0];
      });
    F("integer_get_si/ui", {INT}, 0,
      [](basic_struct **, basic_struct **i, XS &x) {
          x.push_back(its(integer_get_si(i[0])));
          x.push_back(uts(integer_get_ui(i[0])));
          return 0;
      },
      [](std::vector<B> &, const std::vector<B> &i, XS &x) {
          mpz_class z = mpz_of(i[0]);
          // documented range only; outside it GMP semantics (low bits of |z| with the sign) are the model
          mpz_class a = abs(z);
          unsigned long lo = mpz_get_ui(a.get_mpz_t());
          long si = z.fits_slong_p() ? z.get_si() : (sgn(z) < 0 ? -(long)(lo & (unsigned long)LONG_MAX) : (long)(lo & (unsigned long)LONG_MAX));
          x.push_back(its(si));
          x.push_back(uts(lo));
      });
    F("rational_set_mpq(rational_get_mpq)", {RAT}, 1,
      [](basic_struct **o, basic_struct **i, XS &x) {
          mpq_t q;
          mpq_init(q);
          int rc = rational_get_mpq(q, i[0]);
          x.push_back(mpq_class(q).get_str());
          if (rc == 0)
              rc = rational_set_mpq(o[0], q);
          mpq_clear(q);
          return rc;
      },
      [](std::vector<B> &o, const std::vector<B> &i, XS &x) {
          x.push_back(to_mpq(down_cast<const Rational &>(*i[0]).as_rational_class()).get_str());
          o[0] = i[0];
      });
    F("complex_set_mpq[1/2,-3/4]", {}, 1,
      [](basic_struct **o, basic_struct **, XS &) {
          mpq_class a(1, 2), b(-3, 4);
          return (int)complex_set_mpq(o[0], a.get_mpq_t(), b.get_mpq_t());
      },
      [](std::vector<B> &o, const std::vector<B> &, XS &) {
          o[0] = Complex::from_two_nums(*Rational::from_two_ints(1, 2), *Rational::from_two_ints(-3, 4));
      });
    F("complex_set_mpq[2,0]", {}, 1,
      [](basic_struct **o, basic_struct **, XS &) {
          mpq_class a(2), b(0);
          return (int)complex_set_mpq(o[0], a.get_mpq_t(), b.get_mpq_t());
      },
      [](std::vector<B> &o, const std::vector<B> &, XS &) { o[0] = integer(2); });
    F("real_double_get_d", {RDBL}, 0,
      [](basic_struct **, basic_struct **i, XS &x) {
          x.push_back(hexd(real_double_get_d(i[0])));
          return 0;
      },
      [](std::vector<B> &, const std::vector<B> &i, XS &x) { x.push_back(hexd(down_cast<const RealDouble &>(*i[0]).i)); });
    F("complex_double_get", {CDBL}, 0,
      [](basic_struct **, basic_struct **i, XS &x) {
          dcomplex d = complex_double_get(i[0]);
          x.push_back(hexd(d.real) + "," + hexd(d.imag));
          return 0;
      },
      [](std::vector<B> &, const std::vector<B> &i, XS &x) {
          std::complex<double> z = down_cast<const ComplexDouble &>(*i[0]).i;
          x.push_back(hexd(z.real()) + "," + hexd(z.imag()));
      });
    F("complex_base_real_part", {CPLX}, 1, [](basic_struct **o, basic_struct **i, XS &) { return (int)complex_base_real_part(o[0], i[0]); },
      [](std::vector<B> &o, const std::vector<B> &i, XS &) {
          if (is_a<Complex>(*i[0])) {
              const Complex &c = down_cast<const Complex &>(*i[0]);
              o[0] = Rational::from_mpq(c.real_);
          } else
              o[0] = real_double(down_cast<const ComplexDouble &>(*i[0]).i.real());
      });
    F("complex_base_imaginary_part", {CPLX}, 1,
      [](basic_struct **o, basic_struct **i, XS &) { return (int)complex_base_imaginary_part(o[0], i[0]); },
      [](std::vector<B> &o, const std::vector<B> &i, XS &) {
          if (is_a<Complex>(*i[0])) {
              const Complex &c = down_cast<const Complex &>(*i[0]);
              o[0] = Rational::from_mpq(c.imaginary_);
          } else
              o[0] = real_double(down_cast<const ComplexDouble &>(*i[0]).i.imag());
      });
    F("rational_set", {ANY, ANY}, 1, [](basic_struct **o, basic_struct **i, XS &) { return (int)rational_set(o[0], i[0], i[1]); },
      [](std::vector<B> &o, const std::vector<B> &i, XS &) {
          if (!is_a<Integer>(*i[0]) || !is_a<Integer>(*i[1]))
              throw CoreRefusal(); // documented SYMENGINE_RUNTIME_ERROR
          o[0] = Rational::from_two_ints(INTG(i[0]), INTG(i[1]));
      });
    F("complex_set", {NUM, NUM}, 1, [](basic_struct **o, basic_struct **i, XS &) { return (int)complex_set(o[0], i[0], i[1]); },
      [](std::vector<B> &o, const std::vector<B> &i, XS &) {
          o[0] = Complex::from_two_nums(down_cast<const Number &>(*i[0]), down_cast<const Number &>(*i[1]));
      });
    F("complex_set_rat", {RAT, RAT}, 1, [](basic_struct **o, basic_struct **i, XS &) { return (int)complex_set_rat(o[0], i[0], i[1]); },
      [](std::vector<B> &o, const std::vector<B> &i, XS &) {
          o[0] = Complex::from_two_rats(down_cast<const Rational &>(*i[0]), down_cast<const Rational &>(*i[1]));
      });
    // ---- sets
    for (int lo = 0; lo < 2; lo++)
        for (int ro = 0; ro < 2; ro++)
            F("basic_set_interval[" + its(lo) + its(ro) + "]", {NUM, NUM}, 1,
              [lo, ro](basic_struct **o, basic_struct **i, XS &) { return (int)basic_set_interval(o[0], i[0], i[1], lo, ro); },
              [lo, ro](std::vector<B> &o, const std::vector<B> &i, XS &) {
                  o[0] = interval(rcp_static_cast<const Number>(i[0]), rcp_static_cast<const Number>(i[1]), lo, ro);
              });
    SET2(basic_set_union, set_union);
    SET2(basic_set_intersection, set_intersection);
    SET2(basic_set_complement, set_complement);
    F("basic_set_contains", {SET, ANY}, 1, [](basic_struct **o, basic_struct **i, XS &) { return (int)basic_set_contains(o[0], i[0], i[1]); },
      [](std::vector<B> &o, const std::vector<B> &i, XS &) { o[0] = SETP(i[0])->contains(i[1]); }, true);
    SETP2(basic_set_is_subset, is_subset);
    SETP2(basic_set_is_proper_subset, is_proper_subset);
    SETP2(basic_set_is_superset, is_superset);
    SETP2(basic_set_is_proper_superset, is_proper_superset);
    SET1(basic_set_inf, inf);
    SET1(basic_set_sup, sup);
    SET1(basic_set_boundary, boundary);
    SET1(basic_set_interior, interior);
    SET1(basic_set_closure, closure);
    // ---- number theory (Integer handles only)
    INT2(ntheory_gcd, gcd);
    INT2(ntheory_lcm, lcm);
    INT2(ntheory_mod, mod);
    INT2(ntheory_quotient, quotient);
    INT2(ntheory_mod_f, mod_f);
    INT2(ntheory_quotient_f, quotient_f);
    F("ntheory_gcd_ext", {INT, INT}, 3, [](basic_struct **o, basic_struct **i, XS &) { return (int)ntheory_gcd_ext(o[0], o[1], o[2], i[0], i[1]); },
      [](std::vector<B> &o, const std::vector<B> &i, XS &) {
          RCP<const Integer> g, s, t;
          gcd_ext(outArg(g), outArg(s), outArg(t), INTG(i[0]), INTG(i[1]));
          o[0] = g;
          o[1] = s;
          o[2] = t;
      });
    F("ntheory_quotient_mod", {INT, INT}, 2, [](basic_struct **o, basic_struct **i, XS &) { return (int)ntheory_quotient_mod(o[0], o[1], i[0], i[1]); },
      [](std::vector<B> &o, const std::vector<B> &i, XS &) {
          RCP<const Integer> q, r;
          quotient_mod(outArg(q), outArg(r), INTG(i[0]), INTG(i[1]));
          o[0] = q;
          o[1] = r;
      });
    F("ntheory_quotient_mod_f", {INT, INT}, 2,
      [](basic_struct **o, basic_struct **i, XS &) { return (int)ntheory_quotient_mod_f(o[0], o[1], i[0], i[1]); },
      [](std::vector<B> &o, const std::vector<B> &i, XS &) {
          RCP<const Integer> q, r;
          quotient_mod_f(outArg(q), outArg(r), INTG(i[0]), INTG(i[1]));
          o[0] = q;
          o[1] = r;
      });
    F("ntheory_mod_inverse", {INT, INT}, 0,
      [](basic_struct **, basic_struct **i, XS &x) {
          Hd b;
          integer_set_si(b.p, -777); // a C caller's pre-initialised handle
          int r = ntheory_mod_inverse(b.p, i[0], i[1]);
          x.push_back(its(r));
          if (H(b.p).is_null())
              x.push_back("<NULL>");
          else if (r != 0)
              x.push_back(hk(b.p));
          return 0;
      },
      [](std::vector<B> &, const std::vector<B> &i, XS &x) {
          // oracle: GMP
          mpz_class a = mpz_of(i[0]), m = mpz_of(i[1]), r;
          if (m == 0)
              throw Undecided();
          int ok = mpz_invert(r.get_mpz_t(), a.get_mpz_t(), m.get_mpz_t());
          x.push_back(its(ok ? 1 : 0));
          if (ok)
              x.push_back("I:" + r.get_str());
      });
    F("ntheory_nextprime", {INT}, 1, [](basic_struct **o, basic_struct **i, XS &) { return (int)ntheory_nextprime(o[0], i[0]); },
      [](std::vector<B> &o, const std::vector<B> &i, XS &) {
          mpz_class a = mpz_of(i[0]), r;
          mpz_nextprime(r.get_mpz_t(), a.get_mpz_t());
          o[0] = integer(integer_class(r.get_str()));
      });
    for (unsigned long n : {0ul, 1ul, 2ul, 10ul, 93ul, 100ul}) {
        F("ntheory_fibonacci[" + uts(n) + "]", {}, 1, [n](basic_struct **o, basic_struct **, XS &) { return (int)ntheory_fibonacci(o[0], n); },
          [n](std::vector<B> &o, const std::vector<B> &, XS &) {
              mpz_class r;
              mpz_fib_ui(r.get_mpz_t(), n);
              o[0] = integer(integer_class(r.get_str()));
          });
        F("ntheory_lucas[" + uts(n) + "]", {}, 1, [n](basic_struct **o, basic_struct **, XS &) { return (int)ntheory_lucas(o[0], n); },
          [n](std::vector<B> &o, const std::vector<B> &, XS &) {
              mpz_class r;
              mpz_lucnum_ui(r.get_mpz_t(), n);
              o[0] = integer(integer_class(r.get_str()));
          });
        F("ntheory_fibonacci2[" + uts(n) + "]", {}, 2, [n](basic_struct **o, basic_struct **, XS &) { return (int)ntheory_fibonacci2(o[0], o[1], n); },
          [n](std::vector<B> &o, const std::vector<B> &, XS &) {
              mpz_class r, s;
              mpz_fib2_ui(r.get_mpz_t(), s.get_mpz_t(), n);
              o[0] = integer(integer_class(r.get_str()));
              o[1] = integer(integer_class(s.get_str()));
          });
        F("ntheory_lucas2[" + uts(n) + "]", {}, 2, [n](basic_struct **o, basic_struct **, XS &) { return (int)ntheory_lucas2(o[0], o[1], n); },
          [n](std::vector<B> &o, const std::vector<B> &, XS &) {
              mpz_class r, s;
              mpz_lucnum2_ui(r.get_mpz_t(), s.get_mpz_t(), n);
              o[0] = integer(integer_class(r.get_str()));
              o[1] = integer(integer_class(s.get_str()));
          });
    }
    for (unsigned long n : {0ul, 1ul, 5ul, 20ul, 25ul})
        F("ntheory_factorial[" + uts(n) + "]", {}, 1, [n](basic_struct **o, basic_struct **, XS &) { return (int)ntheory_factorial(o[0], n); },
          [n](std::vector<B> &o, const std::vector<B> &, XS &) {
              mpz_class r;
              mpz_fac_ui(r.get_mpz_t(), n);
              o[0] = integer(integer_class(r.get_str()));
          });
    for (unsigned long k : {0ul, 1ul, 2ul, 5ul})
        F("ntheory_binomial[" + uts(k) + "]", {INT}, 1, [k](basic_struct **o, basic_struct **i, XS &) { return (int)ntheory_binomial(o[0], i[0], k); },
          [k](std::vector<B> &o, const std::vector<B> &i, XS &) {
              mpz_class a = mpz_of(i[0]), r;
              mpz_bin_ui(r.get_mpz_t(), a.get_mpz_t(), k);
              o[0] = integer(integer_class(r.get_str()));
          });
    // ---- evaluation / structure
    for (unsigned long bits : {53ul, 100ul})
        for (int dom : {0, 1, 2})
            F("basic_evalf[" + uts(bits) + "," + its(dom) + "]", {ANY}, 1,
              [bits, dom](basic_struct **o, basic_struct **i, XS &) { return (int)basic_evalf(o[0], i[0], bits, dom); },
              [bits, dom](std::vector<B> &o, const std::vector<B> &i, XS &) {
                  o[0] = evalf(*i[0], bits, dom == 0 ? EvalfDomain::Complex : dom == 1 ? EvalfDomain::Real : EvalfDomain::Symbolic);
              },
              bits == 53 && dom < 2);
    F("basic_as_numer_denom", {ANY}, 2, [](basic_struct **o, basic_struct **i, XS &) { return (int)basic_as_numer_denom(o[0], o[1], i[0]); },
      [](std::vector<B> &o, const std::vector<B> &i, XS &) {
          B n, d;
          as_numer_denom(i[0], outArg(n), outArg(d));
          o[0] = n;
          o[1] = d;
      },
      true);
    F("basic_add_as_two_terms", {ADDT}, 2, [](basic_struct **o, basic_struct **i, XS &) { return (int)basic_add_as_two_terms(o[0], o[1], i[0]); },
      [](std::vector<B> &o, const std::vector<B> &i, XS &) {
          B a, b;
          down_cast<const Add &>(*i[0]).as_two_terms(outArg(a), outArg(b));
          o[0] = a;
          o[1] = b;
      },
      true);
    F("basic_mul_as_two_terms", {MULT}, 2, [](basic_struct **o, basic_struct **i, XS &) { return (int)basic_mul_as_two_terms(o[0], o[1], i[0]); },
      [](std::vector<B> &o, const std::vector<B> &i, XS &) {
          B a, b;
          down_cast<const Mul &>(*i[0]).as_two_terms(outArg(a), outArg(b));
          o[0] = a;
          o[1] = b;
      },
      true);
    F("basic_coeff", {ANY, ANY, ANY}, 1, [](basic_struct **o, basic_struct **i, XS &) { return (int)basic_coeff(o[0], i[0], i[1], i[2]); },
      [](std::vector<B> &o, const std::vector<B> &i, XS &) { o[0] = coeff(*i[0], *i[1], *i[2]); }, false, true);
    F("basic_subs2", {ANY, ANY, ANY}, 1, [](basic_struct **o, basic_struct **i, XS &) { return (int)basic_subs2(o[0], i[0], i[1], i[2]); },
      [](std::vector<B> &o, const std::vector<B> &i, XS &) {
          map_basic_basic m;
          m[i[1]] = i[2];
          o[0] = i[0]->subs(m);
      },
      false, true);
    F("basic_get_args", {ANY}, 0,
      [](basic_struct **, basic_struct **i, XS &x) {
          CVec v;
          int rc = basic_get_args(i[0], v.p);
          x.push_back(vec_keys(v.p));
          return rc;
      },
      [](std::vector<B> &, const std::vector<B> &i, XS &x) { x.push_back(vec_keys(i[0]->get_args())); }, true);
    F("basic_free_symbols", {ANY}, 0,
      [](basic_struct **, basic_struct **i, XS &x) {
          CSet s;
          int rc = basic_free_symbols(i[0], s.p);
          x.push_back(set_keys(s.p));
          return rc;
      },
      [](std::vector<B> &, const std::vector<B> &i, XS &x) { x.push_back(set_keys(free_symbols(*i[0]))); }, true);
    F("basic_function_symbols", {ANY}, 0,
      [](basic_struct **, basic_struct **i, XS &x) {
          CSet s;
          int rc = basic_function_symbols(s.p, i[0]);
          x.push_back(set_keys(s.p));
          return rc;
      },
      [](std::vector<B> &, const std::vector<B> &i, XS &x) { x.push_back(set_keys(atoms<FunctionSymbol>(*i[0]))); }, true);
    F("function_symbol_get_name", {FSYM}, 0,
      [](basic_struct **, basic_struct **i, XS &x) {
          x.push_back(take(function_symbol_get_name(i[0])));
          return 0;
      },
      [](std::vector<B> &, const std::vector<B> &i, XS &x) { x.push_back(down_cast<const FunctionSymbol &>(*i[0]).get_name()); });
    // ---- functions taking containers built from the arguments
#define VEC2(cfn, coreexpr)                                                                                             \
    F(#cfn "[a,b]", {ANY, ANY}, 1,                                                                                      \
      [](basic_struct **o, basic_struct **i, XS &) {                                                                    \
          CVec v{i[0], i[1]};                                                                                           \
          return (int)cfn(o[0], v.p);                                                                                   \
      },                                                                                                                \
      [](std::vector<B> &o, const std::vector<B> &i, XS &) {                                                            \
          vec_basic v{i[0], i[1]};                                                                                      \
          o[0] = coreexpr;                                                                                              \
      })
    VEC2(basic_max, SymEngine::max(v));
    VEC2(basic_min, SymEngine::min(v));
    VEC2(basic_add_vec, SymEngine::add(v));
    VEC2(basic_mul_vec, SymEngine::mul(v));
    for (const char *s : {"f", ""}) {
        std::string str(s);
        F("function_symbol_set[" + jstr(str) + ";a,b]", {ANY, ANY}, 1,
          [str](basic_struct **o, basic_struct **i, XS &) {
              CVec v{i[0], i[1]};
              return (int)function_symbol_set(o[0], str.c_str(), v.p);
          },
          [str](std::vector<B> &o, const std::vector<B> &i, XS &) { o[0] = function_symbol(str, vec_basic{i[0], i[1]}); });
    }
    F("basic_set_finiteset{a,b}", {ANY, ANY}, 1,
      [](basic_struct **o, basic_struct **i, XS &) {
          CSet s;
          setbasic_insert(s.p, i[0]);
          setbasic_insert(s.p, i[1]);
          return (int)basic_set_finiteset(o[0], s.p);
      },
      [](std::vector<B> &o, const std::vector<B> &i, XS &) { o[0] = finiteset(set_basic{i[0], i[1]}); });
    F("basic_subs{a->b}", {ANY, ANY, ANY}, 1,
      [](basic_struct **o, basic_struct **i, XS &) {
          CMapBasicBasic *m = mapbasicbasic_new();
          mapbasicbasic_insert(m, i[1], i[2]);
          int rc = basic_subs(o[0], i[0], m);
          mapbasicbasic_free(m);
          return rc;
      },
      [](std::vector<B> &o, const std::vector<B> &i, XS &) {
          map_basic_basic m;
          m[i[1]] = i[2];
          o[0] = i[0]->subs(m);
      },
      false, true);
    F("basic_solve_poly", {ANY, SYM}, 0,
      [](basic_struct **, basic_struct **i, XS &x) {
          CSet s;
          int rc = basic_solve_poly(s.p, i[0], i[1]);
          x.push_back(set_keys(s.p));
          return rc;
      },
      [](std::vector<B> &, const std::vector<B> &i, XS &x) {
          RCP<const Set> s = solve_poly(i[0], rcp_static_cast<const Symbol>(i[1]));
          if (!is_a<FiniteSet>(*s))
              throw CoreRefusal(); // documented: "if the set of solutions is finite"
          x.push_back(set_keys(down_cast<const FiniteSet &>(*s).get_container()));
      });
    {
        // fixed systems in x, y: regular, singular, inconsistent, non-linear, symbolic coefficients
        static const char *SYS[][2] = {{"x + y - 1", "x - y"}, {"2*x + y", "y - 3"}, {"x + y", "2*x + 2*y"}, {"x + y - 1", "x + y - 2"}, {"0", "0"},
                                       {"x", "x"},             {"x*y", "x"},       {"sin(x)", "y"},        {"a*x + y", "x - b*y - 1"}, {"x/2 - y/3", "y - 1/7"},
                                       {"y", "x"}};
        for (auto &sy : SYS) {
            std::string e1 = sy[0], e2 = sy[1];
            F("vecbasic_linsolve[" + e1 + " ; " + e2 + "]", {}, 0,
              [e1, e2](basic_struct **, basic_struct **, XS &x) {
                  Hd sx, sy2, h1, h2;
                  symbol_set(sx.p, "x");
                  symbol_set(sy2.p, "y");
                  basic_parse(h1.p, e1.c_str());
                  basic_parse(h2.p, e2.c_str());
                  CVec sys{h1.p, h2.p}, sym{sx.p, sy2.p}, sol;
                  int rc = vecbasic_linsolve(sol.p, sys.p, sym.p);
                  x.push_back(vec_keys(sol.p));
                  return rc;
              },
              [e1, e2](std::vector<B> &, const std::vector<B> &, XS &x) {
                  vec_sym sy3{symbol("x"), symbol("y")};
                  x.push_back(vec_keys(linsolve(vec_basic{parse(e1), parse(e2)}, sy3)));
              });
        }
    }
    F("basic_cse[a,b]", {ANY, ANY}, 0,
      [](basic_struct **, basic_struct **i, XS &x) {
          CVec ex{i[0], i[1]}, rs, re, red;
          int rc = basic_cse(rs.p, re.p, red.p, ex.p);
          x.push_back(vec_keys(rs.p));
          x.push_back(vec_keys(re.p));
          x.push_back(vec_keys(red.p));
          return rc;
      },
      [](std::vector<B> &, const std::vector<B> &i, XS &x) {
          vec_pair rep;
          vec_basic red, a, b;
          cse(rep, red, vec_basic{i[0], i[1]});
          for (auto &p : rep) {
              a.push_back(p.first);
              b.push_back(p.second);
          }
          x.push_back(vec_keys(a));
          x.push_back(vec_keys(b));
          x.push_back(vec_keys(red));
      });
    for (int cs = 0; cs < 2; cs++)
        F("lambda_real_double_visitor[x,y;a;cse=" + its(cs) + "]", {ANY}, 0,
          [cs](basic_struct **, basic_struct **i, XS &x) {
              Hd sx, sy;
              symbol_set(sx.p, "x");
              symbol_set(sy.p, "y");
              CVec args{sx.p, sy.p}, ex{i[0]};
              CLambdaRealDoubleVisitor *v = lambda_real_double_visitor_new();
              struct G {
                  CLambdaRealDoubleVisitor *v;
                  ~G()
                  {
                      lambda_real_double_visitor_free(v);
                  }
              } g{v};
              lambda_real_double_visitor_init(v, args.p, ex.p, cs);
              double in[2] = {0.75, -1.25}, out = 0;
              lambda_real_double_visitor_call(v, &out, in);
              x.push_back(hexd(out));
              return 0;
          },
          [cs](std::vector<B> &, const std::vector<B> &i, XS &x) {
              LambdaRealDoubleVisitor v;
              v.init(vec_basic{symbol("x"), symbol("y")}, vec_basic{i[0]}, cs);
              double in[2] = {0.75, -1.25}, out = 0;
              v.call(&out, in);
              x.push_back(hexd(out));
          });
    F("misc:version/component/ascii_art", {}, 0,
      [](basic_struct **, basic_struct **, XS &x) {
          x.push_back(symengine_version());
          x.push_back(its(symengine_have_component("mpfr")) + its(symengine_have_component("nonsense")));
          x.push_back(take(ascii_art_str()));
          CVectorInt *v = vectorint_new();
          vectorint_push_back(v, 5);
          vectorint_push_back(v, -7);
          x.push_back(its(vectorint_get(v, 0)) + "," + its(vectorint_get(v, 1)));
          vectorint_free(v);
          // placement variants and stack handles
          alignas(16) char buf[64];
          x.push_back(its(vectorint_placement_new_check(buf, sizeof buf)) + its(vectorint_placement_new_check(buf, 1)) + its(vectorint_placement_new_check(buf + 1, sizeof buf - 1)));
          CVectorInt *pv = vectorint_placement_new(buf);
          vectorint_push_back(pv, 42);
          x.push_back(its(vectorint_get(pv, 0)));
          vectorint_placement_free(pv);
          basic st;
          basic_new_stack(st);
          integer_set_si(st, 9);
          x.push_back(hk(st));
          basic_free_stack(st);
          return 0;
      },
      [](std::vector<B> &, const std::vector<B> &, XS &x) {
          x.push_back(SYMENGINE_VERSION);
          x.push_back("00");
          x.push_back(ascii_art());
          x.push_back("5,-7");
          x.push_back("012"); // fits / too small / misaligned
          x.push_back("42");
          x.push_back("I:9");
      });
}

// ---------------------------------------------------------------- pool of handle values
static StateSet SS;          // pool first, then depth-1 results
static std::vector<int> SMALL; // reduced pool for ternary functions
static long long NPOOL = 0;

static void build_pool()
{
    B x = symbol("x"), y = symbol("y");
    auto Q = [](long a, long b) { return Rational::from_two_ints(a, b); };
    B big = integer(integer_class("1180591620717411303425")); // 2^70+1
    std::vector<std::pair<std::string, B>> P = {
        {"0", integer(0)},
        {"1", integer(1)},
        {"-1", integer(-1)},
        {"2", integer(2)},
        {"-2", integer(-2)},
        {"3", integer(3)},
        {"2^70+1", big},
        {"1/2", Q(1, 2)},
        {"-2/3", Q(-2, 3)},
        {"I", I},
        {"1+2/3*I", Complex::from_two_nums(*integer(1), *Q(2, 3))},
        {"0.5", real_double(0.5)},
        {"-2.0", real_double(-2.0)},
        {"0.0", real_double(0.0)},
        {"1.0+2.0i", complex_double(std::complex<double>(1.0, 2.0))},
        {"x", x},
        {"y", y},
        {"pi", pi},
        {"E", E},
        {"oo", Inf},
        {"-oo", NegInf},
        {"zoo", ComplexInf},
        {"nan", Nan},
        {"x+y", add(x, y)},
        {"x+1", add(x, integer(1))},
        {"2*x", mul(integer(2), x)},
        {"x*y", mul(x, y)},
        {"x**2", pow(x, integer(2))},
        {"x**y", pow(x, y)},
        {"1/x", div(integer(1), x)},
        {"sqrt(2)", sqrt(integer(2))},
        {"(x+1)**2", pow(add(x, integer(1)), integer(2))},
        {"f(x)", function_symbol("f", x)},
        {"sin(x)", sin(x)},
        {"log(x)", log(x)},
        {"abs(x)", abs(x)},
        {"True", boolTrue},
        {"x<y", Lt(x, y)},
        {"EmptySet", emptyset()},
        {"UniversalSet", universalset()},
        {"Reals", reals()},
        {"Integers", integers()},
        {"Complexes", complexes()},
        {"[0,1]", interval(integer(0), integer(1), false, false)},
        {"(0,1]", interval(integer(0), integer(1), true, false)},
        {"{1,x}", finiteset({integer(1), x})},
    };
    std::set<std::string> small = {"0", "1", "-1", "2", "1/2", "I", "0.5", "x", "y", "oo", "nan", "x+y", "2*x", "x**2", "sin(x)", "f(x)", "Reals", "True"};
    for (auto &p : P) {
        bool fresh;
        int id = SS.add(p.second, p.first, 0, &fresh);
        if (!fresh) {
            fprintf(stderr, "duplicate pool entry %s\n", p.first.c_str());
            exit(2);
        }
        if (small.count(p.first))
            SMALL.push_back(id);
    }
    NPOOL = SS.size();
}

// ---------------------------------------------------------------- enumeration plans
struct Plan {
    int fn;
    std::vector<std::vector<int>> cand; // candidate state indices per input
    int modes;                          // aliasing modes: 0 none; 1 + o*nin + j: output o is the handle of input j
    long long nargs, n, base;
};
struct Layer {
    std::vector<Plan> plans;
    long long total = 0;
    void add(Plan p)
    {
        p.nargs = 1;
        for (auto &c : p.cand)
            p.nargs *= (long long)c.size();
        p.n = p.nargs * p.modes;
        p.base = total;
        if (p.n > 0) {
            total += p.n;
            plans.push_back(p);
        }
    }
    // decode: plan, argument state indices, mode
    const Plan &decode(long long i, std::vector<int> &args, int &mode) const
    {
        size_t lo = 0, hi = plans.size();
        while (hi - lo > 1) {
            size_t mid = (lo + hi) / 2;
            if (plans[mid].base <= i)
                lo = mid;
            else
                hi = mid;
        }
        const Plan &p = plans[lo];
        long long j = i - p.base;
        mode = (int)(j / p.nargs);
        j %= p.nargs;
        args.assign(p.cand.size(), 0);
        for (int k = (int)p.cand.size() - 1; k >= 0; k--) {
            args[k] = p.cand[k][j % (long long)p.cand[k].size()];
            j /= (long long)p.cand[k].size();
        }
        return p;
    }
};

static std::string argtypes(const std::vector<int> &args)
{
    std::string o = "(";
    for (size_t k = 0; k < args.size(); k++)
        o += (k ? "," : "") + tname(SS.S[args[k]].e);
    return o + ")";
}
static std::string sigclass(const Fn &f)
{
    size_t p = f.name.find('[');
    return p == std::string::npos ? f.name : f.name.substr(0, p);
}
static std::string case_desc(const Layer &L, long long i)
{
    std::vector<int> a;
    int mode;
    const Plan &p = L.decode(i, a, mode);
    const Fn &f = FN[p.fn];
    std::string o = f.name + "(";
    for (size_t k = 0; k < a.size(); k++)
        o += (k ? ", " : "") + SS.S[a[k]].recipe;
    o += ")";
    if (mode > 0)
        o += " with output " + its((mode - 1) / (int)a.size()) + " aliasing input " + its((mode - 1) % (int)a.size());
    return o;
}

enum { K_OK_EQUAL, K_BOTH_ERR, K_C_ERR_CORE_OK, K_CODE_DIFFERS, K_UNDECIDED, K_ALIASED, K_OUT_CHANGED_ON_ERR, K_CALLS_D1, K_CALLS_D2 };
static std::vector<std::string> CN = {"calls_success_equal_to_core", "calls_error_code_and_core_throws", "calls_error_code_but_core_succeeds(allowed)",
                                      "error_code_differs_from_core_exception_code", "calls_not_judged(oracle_undecided)", "calls_with_aliased_output",
                                      "output_changed_although_error_returned", "calls_depth1", "calls_depth2"};

struct Obs {
    int rc = 0;
    bool threw = false, undecided = false;
    std::string what;
    XS v;
};

static void limit_memory()
{
    static bool done = false;
    if (done)
        return;
    done = true;
    struct rlimit rl;
    rl.rlim_cur = rl.rlim_max = 4ull << 30;
    setrlimit(RLIMIT_AS, &rl);
}

// one call on fresh handles; returns the keys of the successful outputs in outs (for state building)
static void exec_case(const Fn &f, const std::vector<int> &a, int mode, Ctx &c, const std::string &desc, bool record_sample)
{
    limit_memory();
    int nin = (int)a.size();
    std::vector<B> args;
    for (int k : a)
        args.push_back(SS.S[k].e);
    std::vector<std::unique_ptr<Hd>> ih, oh;
    std::vector<basic_struct *> ip(nin), op(f.nout);
    for (int j = 0; j < nin; j++) {
        ih.emplace_back(new Hd);
        H(ih[j]->p) = args[j];
        ip[j] = ih[j]->p;
    }
    for (int o = 0; o < f.nout; o++) {
        oh.emplace_back(new Hd);
        op[o] = oh[o]->p;
    }
    int ao = -1, aj = -1;
    if (mode > 0) {
        ao = (mode - 1) / nin;
        aj = (mode - 1) % nin;
        op[ao] = ip[aj];
        c.count(K_ALIASED);
    }
    std::string sig = sigclass(f) + (mode > 0 ? "[aliased]" : ""); // call site = defect class; argument kinds are in the description
    c.eval();
    // ---- the C call
    Obs C;
    try {
        C.rc = f.c(op.data(), ip.data(), C.v);
    } catch (std::exception &e) {
        C.threw = true;
        C.what = e.what();
    } catch (...) {
        C.threw = true;
        C.what = "(non-std exception)";
    }
    if (C.threw) {
        c.outcome("escape:" + sigclass(f));
        c.violation("escape:" + sigclass(f), desc + ": a C++ exception escaped from the C API: " + C.what.substr(0, 300));
        return;
    }
    // ---- the corresponding core call, on copies of the operands
    Obs K;
    std::vector<B> kout(f.nout);
    try {
        f.k(kout, args, K.v);
    } catch (Undecided &) {
        K.undecided = true;
    } catch (SymEngineException &e) {
        K.rc = e.error_code();
        K.what = e.what();
        if (K.rc == 0)
            K.rc = SYMENGINE_RUNTIME_ERROR;
    } catch (std::exception &e) {
        K.rc = SYMENGINE_RUNTIME_ERROR;
        K.what = e.what();
    }
    // inputs must not be modified (unless they double as outputs)
    for (int j = 0; j < nin; j++)
        if (!(mode > 0 && j == aj) && H(ip[j]).get() != args[j].get())
            c.violation("input-modified:" + sig, desc + ": input handle " + its(j) + " was changed by the call, now " + hk(ip[j]));
    if (K.undecided) {
        c.count(K_UNDECIDED);
        c.outcome("undecided:" + sigclass(f));
        return;
    }
    if (C.rc != 0) {
        // error code: allowed by the statement; outputs should be untouched
        for (int o = 0; o < f.nout; o++) {
            const Basic *was = (o == ao) ? args[aj].get() : nullptr;
            if (H(op[o]).get() != was) {
                c.count(K_OUT_CHANGED_ON_ERR);
                if (getenv("C42_DEBUG"))
                    fprintf(stderr, "OUTCHANGED %s: rc=%d output %d now %s\n", desc.c_str(), C.rc, o, hk(op[o]).substr(0, 60).c_str());
            }
        }
        if (K.rc != 0) {
            c.count(K_BOTH_ERR);
            if (K.rc != C.rc && K.what != "documented: error code expected") {
                c.count(K_CODE_DIFFERS);
                if (getenv("C42_DEBUG"))
                    fprintf(stderr, "CODEDIFF %s: C rc=%d core rc=%d (%s)\n", desc.c_str(), C.rc, K.rc, K.what.substr(0, 80).c_str());
            }
            c.outcome("err" + its(C.rc) + ":" + sigclass(f));
        } else {
            c.count(K_C_ERR_CORE_OK);
            c.outcome("c-error-core-ok:" + sigclass(f));
        }
        c.nontrivial();
        return;
    }
    // success: all outputs must be valid handles
    XS cv;
    for (int o = 0; o < f.nout; o++) {
        cv.push_back(hk(op[o]));
        if (H(op[o]).is_null()) {
            c.violation("null-output:" + sig, desc + ": returned success but output handle " + its(o) + " holds no object");
            return;
        }
    }
    if (K.rc != 0) {
        c.outcome("ok-but-core-throws:" + sigclass(f));
        c.violation("success-but-core-throws:" + sig, desc + ": the C call reported success (outputs " + (cv.empty() ? "" : cv[0]) + (C.v.empty() ? "" : " " + C.v[0].substr(0, 80))
                                                          + ") but the corresponding core call throws: " + K.what.substr(0, 200));
        return;
    }
    XS kv;
    for (int o = 0; o < f.nout; o++)
        kv.push_back(kk(kout[o]));
    cv.insert(cv.end(), C.v.begin(), C.v.end());
    kv.insert(kv.end(), K.v.begin(), K.v.end());
    if (cv != kv) {
        std::string d;
        for (size_t t = 0; t < std::max(cv.size(), kv.size()); t++) {
            std::string l = t < cv.size() ? cv[t] : "(missing)", r = t < kv.size() ? kv[t] : "(missing)";
            if (l != r) {
                d = "value " + its(t) + ": C API gives " + l.substr(0, 200) + " but the core API gives " + r.substr(0, 200);
                break;
            }
        }
        c.outcome("mismatch:" + sigclass(f));
        c.violation("mismatch:" + sig, desc + ": " + d);
        return;
    }
    c.count(K_OK_EQUAL);
    std::string oc = "ok:" + sigclass(f);
    if (f.nout > 0)
        oc += "->" + tname(H(op[0]));
    else if (!cv.empty() && cv[0].size() < 6)
        oc += "=" + cv[0];
    c.outcome(oc);
    if (f.nout > 0 && (nin == 0 || H(op[0]).get() != args[0].get()))
        c.nontrivial();
    else if (f.nout == 0)
        c.nontrivial();
    if (record_sample)
        c.sample("{\"call\":" + jstr(desc) + ",\"rc\":0,\"result\":" + jstr(cv.empty() ? "" : cv[0].substr(0, 100)) + "}");
}

static void run_layer(Layer &L, const std::string &name, int depth_counter, std::set<long long> *bad_out)
{
    CaseSet cs;
    cs.name = name;
    cs.n = L.total;
    cs.hang_s = 30;
    cs.counter_names = CN;
    cs.desc = [&](long long i) { return case_desc(L, i); };
    cs.crash_sig = [&](long long i, const std::string &oc) {
        std::vector<int> a;
        int mode;
        const Plan &p = L.decode(i, a, mode);
        std::string cls = oc.find("hang") != std::string::npos ? "hang" : "crash";
        return cls + ":" + sigclass(FN[p.fn]);
    };
    cs.body = [&](long long i, Ctx &c) {
        std::vector<int> a;
        int mode;
        const Plan &p = L.decode(i, a, mode);
        c.count(depth_counter);
        exec_case(FN[p.fn], a, mode, c, case_desc(L, i), i % 4001 == 0);
    };
    run_cases(cs);
    if (bad_out)
        *bad_out = cs.bad;
}

// ---------------------------------------------------------------- containers vs std models (E2, all op sequences of length <= 4)
enum { KC_OPS, KC_TRUNC, KC_FINAL };
static std::vector<std::string> CNC = {"container_ops_executed", "container_sequences_truncated(op_not_enabled)", "container_final_derived_calls"};

static void run_vec_sequences(int depth)
{
    B x = symbol("x"), y = symbol("y");
    std::vector<B> V = {x, integer(1), add(x, y)};
    const char *VN[] = {"x", "1", "x+y"};
    const int NOPS = 3 + 9 + 3; // push v | set i v | erase i
    auto opname = [&](int op) {
        if (op < 3)
            return std::string("push_back(") + VN[op] + ")";
        if (op < 12)
            return "set(" + its((op - 3) / 3) + "," + VN[(op - 3) % 3] + ")";
        return "erase(" + its(op - 12) + ")";
    };
    CaseSet cs;
    cs.name = "vecbasic-seq";
    cs.n = 1;
    for (int d = 0; d < depth; d++)
        cs.n *= NOPS;
    cs.counter_names = CNC;
    auto seq = [&](long long i) {
        std::vector<int> s(depth);
        for (int d = depth - 1; d >= 0; d--) {
            s[d] = i % NOPS;
            i /= NOPS;
        }
        return s;
    };
    cs.desc = [&](long long i) {
        std::string o = "vecbasic_new";
        for (int op : seq(i))
            o += "; " + opname(op);
        return o;
    };
    cs.crash_sig = [&](long long, const std::string &oc) { return "crash:vecbasic-sequence:" + oc; };
    cs.body = [&](long long i, Ctx &c) {
        limit_memory();
        CVec v;
        std::vector<B> m;
        Hd h, g;
        std::string done = "vecbasic_new";
        try {
            for (int op : seq(i)) {
                int rc = 0;
                if (op < 3) {
                    H(h.p) = V[op];
                    rc = vecbasic_push_back(v.p, h.p);
                    m.push_back(V[op]);
                } else if (op < 12) {
                    size_t k = (op - 3) / 3;
                    if (k >= m.size()) {
                        c.count(KC_TRUNC);
                        break;
                    }
                    H(h.p) = V[(op - 3) % 3];
                    rc = vecbasic_set(v.p, k, h.p);
                    m[k] = V[(op - 3) % 3];
                } else {
                    size_t k = op - 12;
                    if (k >= m.size()) {
                        c.count(KC_TRUNC);
                        break;
                    }
                    rc = vecbasic_erase(v.p, k);
                    m.erase(m.begin() + k);
                }
                c.eval();
                c.count(KC_OPS);
                done += "; " + opname(op);
                std::string got = vec_keys(v.p), want = vec_keys(m);
                if (rc != 0 || vecbasic_size(v.p) != m.size() || got != want) {
                    c.violation("vecbasic:" + opname(op).substr(0, opname(op).find('(')),
                                done + ": rc=" + its(rc) + " size=" + its(vecbasic_size(v.p)) + " contents " + got + "; std::vector model " + want);
                    return;
                }
            }
            c.outcome("vec:size" + its(m.size()));
            if (m.size() != 1)
                c.nontrivial();
            // derived calls on the final container
            if (!m.empty()) {
                c.count(KC_FINAL, 2);
                c.eval(2);
                int rc = basic_add_vec(g.p, v.p);
                B want = add(vec_basic(m.begin(), m.end()));
                if (rc != 0 || hk(g.p) != kk(want))
                    c.violation("vecbasic:basic_add_vec", done + "; basic_add_vec gives rc=" + its(rc) + " " + hk(g.p) + ", core add(vec) " + kk(want));
                rc = function_symbol_set(g.p, "g", v.p);
                want = function_symbol("g", vec_basic(m.begin(), m.end()));
                if (rc != 0 || hk(g.p) != kk(want))
                    c.violation("vecbasic:function_symbol_set", done + "; function_symbol_set gives rc=" + its(rc) + " " + hk(g.p) + ", core " + kk(want));
            }
        } catch (std::exception &e) {
            c.violation("escape:vecbasic-sequence", done + ": exception escaped: " + e.what());
        }
        if (i % 5003 == 0)
            c.sample("{\"sequence\":" + jstr(done) + ",\"final\":" + jstr(vec_keys(m)) + "}");
    };
    run_cases(cs);
}

static void run_set_sequences(int depth)
{
    B x = symbol("x"), y = symbol("y");
    std::vector<B> V = {x, integer(1), add(x, y), add(y, x)}; // the last two are equal but distinct objects
    const char *VN[] = {"x", "1", "x+y", "y+x"};
    const int NOPS = 12; // insert v | erase v | find v
    auto opname = [&](int op) { return std::string(op < 4 ? "insert(" : op < 8 ? "erase(" : "find(") + VN[op % 4] + ")"; };
    CaseSet cs;
    cs.name = "setbasic-seq";
    cs.n = 1;
    for (int d = 0; d < depth; d++)
        cs.n *= NOPS;
    cs.counter_names = CNC;
    auto seq = [&](long long i) {
        std::vector<int> s(depth);
        for (int d = depth - 1; d >= 0; d--) {
            s[d] = i % NOPS;
            i /= NOPS;
        }
        return s;
    };
    cs.desc = [&](long long i) {
        std::string o = "setbasic_new";
        for (int op : seq(i))
            o += "; " + opname(op);
        return o;
    };
    cs.crash_sig = [&](long long, const std::string &oc) { return "crash:setbasic-sequence:" + oc; };
    cs.body = [&](long long i, Ctx &c) {
        limit_memory();
        CSet s;
        std::map<std::string, B> m;
        Hd h, g;
        std::string done = "setbasic_new";
        try {
            for (int op : seq(i)) {
                const B &val = V[op % 4];
                H(h.p) = val;
                std::string k = kk(val);
                int got, want;
                if (op < 4) {
                    got = setbasic_insert(s.p, h.p);
                    want = m.count(k) ? 0 : 1;
                    m.emplace(k, val);
                } else if (op < 8) {
                    got = setbasic_erase(s.p, h.p);
                    want = m.erase(k) ? 1 : 0;
                } else {
                    got = setbasic_find(s.p, h.p);
                    want = m.count(k) ? 1 : 0;
                }
                c.eval();
                c.count(KC_OPS);
                done += "; " + opname(op);
                std::string ks = "{";
                for (auto &p : m)
                    ks += p.first + ";";
                ks += "}";
                std::string cks = set_keys(s.p);
                if (got != want || setbasic_size(s.p) != m.size() || cks != ks) {
                    c.violation("setbasic:" + opname(op).substr(0, opname(op).find('(')), done + ": returned " + its(got) + " size " + its(setbasic_size(s.p)) + " contents "
                                                                                              + cks + "; std::set model returns " + its(want) + " contents " + ks);
                    return;
                }
            }
            c.outcome("set:size" + its(m.size()));
            if (m.size() >= 2)
                c.nontrivial();
            c.count(KC_FINAL);
            c.eval();
            int rc = basic_set_finiteset(g.p, s.p);
            set_basic sb;
            for (auto &p : m)
                sb.insert(p.second);
            B want = finiteset(sb);
            if (rc != 0 || hk(g.p) != kk(want))
                c.violation("setbasic:basic_set_finiteset", done + "; basic_set_finiteset gives rc=" + its(rc) + " " + hk(g.p) + ", core " + kk(want));
        } catch (std::exception &e) {
            c.violation("escape:setbasic-sequence", done + ": exception escaped: " + e.what());
        }
        if (i % 5003 == 0)
            c.sample("{\"sequence\":" + jstr(done) + ",\"final_size\":" + its(m.size()) + "}");
    };
    run_cases(cs);
}

static void run_map_sequences(int depth)
{
    B x = symbol("x"), y = symbol("y");
    std::vector<B> Kx = {x, y, add(x, y), add(y, x)};
    std::vector<B> Vx = {integer(1), x, y};
    const char *KN[] = {"x", "y", "x+y", "y+x"}, *VN[] = {"1", "x", "y"};
    const int NOPS = 12 + 4;
    auto opname = [&](int op) {
        if (op < 12)
            return std::string("insert(") + KN[op / 3] + "," + VN[op % 3] + ")";
        return std::string("get(") + KN[op - 12] + ")";
    };
    B probe = add(add(x, mul(integer(2), y)), pow(add(x, y), integer(2)));
    CaseSet cs;
    cs.name = "mapbasicbasic-seq";
    cs.n = 1;
    for (int d = 0; d < depth; d++)
        cs.n *= NOPS;
    cs.counter_names = CNC;
    auto seq = [&](long long i) {
        std::vector<int> s(depth);
        for (int d = depth - 1; d >= 0; d--) {
            s[d] = i % NOPS;
            i /= NOPS;
        }
        return s;
    };
    cs.desc = [&](long long i) {
        std::string o = "mapbasicbasic_new";
        for (int op : seq(i))
            o += "; " + opname(op);
        return o;
    };
    cs.crash_sig = [&](long long, const std::string &oc) { return "crash:mapbasicbasic-sequence:" + oc; };
    cs.body = [&](long long i, Ctx &c) {
        limit_memory();
        CMapBasicBasic *mp = mapbasicbasic_new();
        std::map<std::string, std::pair<B, B>> m;
        Hd h, g, r;
        std::string done = "mapbasicbasic_new";
        try {
            for (int op : seq(i)) {
                done += "; " + opname(op);
                c.eval();
                c.count(KC_OPS);
                if (op < 12) {
                    H(h.p) = Kx[op / 3];
                    H(g.p) = Vx[op % 3];
                    mapbasicbasic_insert(mp, h.p, g.p);
                    std::string k = kk(Kx[op / 3]);
                    auto it = m.find(k);
                    if (it == m.end())
                        m.emplace(k, std::make_pair(Kx[op / 3], Vx[op % 3]));
                    else
                        it->second.second = Vx[op % 3];
                } else {
                    H(h.p) = Kx[op - 12];
                    integer_set_si(r.p, -777);
                    int got = mapbasicbasic_get(mp, h.p, r.p);
                    auto it = m.find(kk(Kx[op - 12]));
                    int want = it != m.end();
                    std::string wk = want ? kk(it->second.second) : "I:-777";
                    if (got != want || hk(r.p) != wk) {
                        c.violation("mapbasicbasic:get", done + ": returned " + its(got) + " value " + hk(r.p) + "; std::map model " + its(want) + " value " + wk);
                        mapbasicbasic_free(mp);
                        return;
                    }
                }
                if (mapbasicbasic_size(mp) != m.size()) {
                    c.violation("mapbasicbasic:size", done + ": size " + its(mapbasicbasic_size(mp)) + "; std::map model " + its(m.size()));
                    mapbasicbasic_free(mp);
                    return;
                }
            }
            c.outcome("map:size" + its(m.size()));
            if (m.size() >= 1)
                c.nontrivial();
            c.count(KC_FINAL);
            c.eval();
            H(h.p) = probe;
            int rc = basic_subs(r.p, h.p, mp);
            map_basic_basic mb;
            for (auto &p : m)
                mb[p.second.first] = p.second.second;
            B want = probe->subs(mb);
            if (rc != 0 || hk(r.p) != kk(want))
                c.violation("mapbasicbasic:basic_subs", done + "; basic_subs(x+2*y+(x+y)**2, map) gives rc=" + its(rc) + " " + hk(r.p) + ", core subs with the model map " + kk(want));
        } catch (std::exception &e) {
            c.violation("escape:mapbasicbasic-sequence", done + ": exception escaped: " + e.what());
        }
        mapbasicbasic_free(mp);
        if (i % 5003 == 0)
            c.sample("{\"sequence\":" + jstr(done) + ",\"final_size\":" + its(m.size()) + "}");
    };
    run_cases(cs);
}

// ---------------------------------------------------------------- dense / sparse matrices
struct MSpec {
    std::string name;
    unsigned r, c;
    std::vector<B> e;
};
static std::vector<MSpec> MP;
struct CMat {
    CDenseMatrix *p;
    CMat()
    {
        p = dense_matrix_new();
    }
    CMat(unsigned r, unsigned c)
    {
        p = dense_matrix_new_rows_cols(r, c);
    }
    explicit CMat(const MSpec &s)
    {
        CVecBasic *v = vecbasic_new();
        Hd h;
        for (auto &x : s.e) {
            H(h.p) = x;
            vecbasic_push_back(v, h.p);
        }
        p = dense_matrix_new_vec(s.r, s.c, v);
        vecbasic_free(v);
    }
    ~CMat()
    {
        dense_matrix_free(p);
    }
    CMat(const CMat &) = delete;
};
static std::string mkeys(const CDenseMatrix *m)
{
    unsigned long r = dense_matrix_rows(m), c = dense_matrix_cols(m);
    std::string o = its(r) + "x" + its(c) + "[";
    Hd h;
    for (unsigned long i = 0; i < r; i++)
        for (unsigned long j = 0; j < c; j++) {
            H(h.p) = B();
            dense_matrix_get_basic(h.p, m, i, j);
            o += hk(h.p) + ";";
        }
    return o + "]";
}
static std::string mkeys(const DenseMatrix &m)
{
    std::string o = its(m.nrows()) + "x" + its(m.ncols()) + "[";
    for (unsigned i = 0; i < m.nrows(); i++)
        for (unsigned j = 0; j < m.ncols(); j++)
            o += kk(m.m_[i * m.ncols() + j]) + ";";
    return o + "]";
}
static DenseMatrix core_of(const MSpec &s)
{
    return DenseMatrix(s.r, s.c, vec_basic(s.e.begin(), s.e.end()));
}
struct MCase {
    std::string desc, sig;
    std::function<int(std::string &)> c; // rc + observation
    std::function<std::string()> k;      // observation or throw
};
static std::vector<MCase> MC;

static void build_matrix_cases()
{
    B x = symbol("x"), y = symbol("y");
    auto N = [](long v) -> B { return integer(v); };
    MP = {{"[0]", 1, 1, {N(0)}},
          {"[x]", 1, 1, {x}},
          {"[[1,2],[3,4]]", 2, 2, {N(1), N(2), N(3), N(4)}},
          {"[[1,2],[2,4]]", 2, 2, {N(1), N(2), N(2), N(4)}},
          {"[[x,y],[y,x]]", 2, 2, {x, y, y, x}},
          {"[[2,1],[1,2]]", 2, 2, {N(2), N(1), N(1), N(2)}},
          {"[[1,0,x],[0,1,y]]", 2, 3, {N(1), N(0), x, N(0), N(1), y}},
          {"[[1,2],[3,4],[5,6]]", 3, 2, {N(1), N(2), N(3), N(4), N(5), N(6)}},
          {"[[2,0,1],[0,1,0],[1,0,3]]", 3, 3, {N(2), N(0), N(1), N(0), N(1), N(0), N(1), N(0), N(3)}},
          {"[[x*y],[x+y]]", 2, 1, {mul(x, y), add(x, y)}},
          {"[[x],[y]]", 2, 1, {x, y}},
          {"[[x],[1]]", 2, 1, {x, N(1)}},
          {"[[0,0],[0,0]]", 2, 2, {N(0), N(0), N(0), N(0)}},
          {"[[0.5,1.0],[2.0,4.0]]", 2, 2, {real_double(0.5), real_double(1.0), real_double(2.0), real_double(4.0)}},
          {"[[0,1],[1,0]]", 2, 2, {N(0), N(1), N(1), N(0)}}};
    const int nm = MP.size();
    auto sq = [&](int a) { return MP[a].r == MP[a].c; };
    auto shape = [&](int a) { return its(MP[a].r) + "x" + its(MP[a].c); };
#define MADD(d, s, ...) MC.push_back(MCase{d, s, __VA_ARGS__})
    for (int a = 0; a < nm; a++) {
        const std::string A = MP[a].name;
        if (sq(a)) {
            MADD("dense_matrix_det(" + A + ")", "dense_matrix_det", [=](std::string &out) -> int {
                CMat m(MP[a]);
                Hd h;
                int rc = dense_matrix_det(h.p, m.p);
                out = hk(h.p);
                return rc;
            }, [=]() -> std::string { return kk(core_of(MP[a]).det()); });
            MADD("dense_matrix_inv(" + A + ")", "dense_matrix_inv", [=](std::string &out) -> int {
                CMat m(MP[a]), s;
                int rc = dense_matrix_inv(s.p, m.p);
                out = mkeys(s.p);
                return rc;
            }, [=]() -> std::string {
                DenseMatrix D = core_of(MP[a]), R(MP[a].r, MP[a].c);
                D.inv(R);
                return mkeys(R);
            });
            MADD("dense_matrix_LU(" + A + ")", "dense_matrix_LU", [=](std::string &out) -> int {
                CMat m(MP[a]), l, u;
                int rc = dense_matrix_LU(l.p, u.p, m.p);
                out = mkeys(l.p) + mkeys(u.p);
                return rc;
            }, [=]() -> std::string {
                DenseMatrix D = core_of(MP[a]), L(MP[a].r, MP[a].c), U(MP[a].r, MP[a].c);
                D.LU(L, U);
                return mkeys(L) + mkeys(U);
            });
            MADD("dense_matrix_LDL(" + A + ")", "dense_matrix_LDL", [=](std::string &out) -> int {
                CMat m(MP[a]), l, u;
                int rc = dense_matrix_LDL(l.p, u.p, m.p);
                out = mkeys(l.p) + mkeys(u.p);
                return rc;
            }, [=]() -> std::string {
                DenseMatrix D = core_of(MP[a]), L(MP[a].r, MP[a].c), U(MP[a].r, MP[a].c);
                D.LDL(L, U);
                return mkeys(L) + mkeys(U);
            });
            MADD("dense_matrix_FFLU(" + A + ")", "dense_matrix_FFLU", [=](std::string &out) -> int {
                CMat m(MP[a]), l;
                int rc = dense_matrix_FFLU(l.p, m.p);
                out = mkeys(l.p);
                return rc;
            }, [=]() -> std::string {
                DenseMatrix D = core_of(MP[a]), L(MP[a].r, MP[a].c);
                D.FFLU(L);
                return mkeys(L);
            });
            MADD("dense_matrix_FFLDU(" + A + ")", "dense_matrix_FFLDU", [=](std::string &out) -> int {
                CMat m(MP[a]), l, d, u;
                int rc = dense_matrix_FFLDU(l.p, d.p, u.p, m.p);
                out = mkeys(l.p) + mkeys(d.p) + mkeys(u.p);
                return rc;
            }, [=]() -> std::string {
                DenseMatrix D = core_of(MP[a]), L(MP[a].r, MP[a].c), Dg(MP[a].r, MP[a].c), U(MP[a].r, MP[a].c);
                D.FFLDU(L, Dg, U);
                return mkeys(L) + mkeys(Dg) + mkeys(U);
            });
            for (int b = 0; b < nm; b++)
                if (MP[b].c == 1 && MP[b].r == MP[a].r)
                    MADD("dense_matrix_LU_solve(" + A + ", " + MP[b].name + ")", "dense_matrix_LU_solve", [=](std::string &out) -> int {
                        CMat m(MP[a]), bb(MP[b]), s;
                        int rc = dense_matrix_LU_solve(s.p, m.p, bb.p);
                        out = mkeys(s.p);
                        return rc;
                    }, [=]() -> std::string {
                        DenseMatrix D = core_of(MP[a]), Bm = core_of(MP[b]), X(MP[a].c, 1);
                        D.LU_solve(Bm, X);
                        return mkeys(X);
                    });
        }
        MADD("dense_matrix_transpose(" + A + ")", "dense_matrix_transpose", [=](std::string &out) -> int {
            CMat m(MP[a]), s;
            int rc = dense_matrix_transpose(s.p, m.p);
            out = mkeys(s.p);
            return rc;
        }, [=]() -> std::string {
            DenseMatrix D = core_of(MP[a]), R(MP[a].c, MP[a].r);
            D.transpose(R);
            return mkeys(R);
        });
        MADD("dense_matrix_str/set/rows/cols(" + A + ")", "dense_matrix_str", [=](std::string &out) -> int {
            CMat m(MP[a]), s;
            int rc = dense_matrix_set(s.p, m.p);
            out = take(dense_matrix_str(s.p)) + "|" + its(dense_matrix_rows(s.p)) + "x" + its(dense_matrix_cols(s.p)) + "|" + its(is_a_DenseMatrix(s.p)) + "|" + mkeys(s.p);
            return rc;
        }, [=]() -> std::string {
            DenseMatrix D = core_of(MP[a]);
            return D.__str__() + "|" + its(MP[a].r) + "x" + its(MP[a].c) + "|1|" + mkeys(D);
        });
        for (int b = 0; b < nm; b++) {
            const std::string Bn = MP[b].name;
            MADD("dense_matrix_eq(" + A + ", " + Bn + ")", "dense_matrix_eq", [=](std::string &out) -> int {
                CMat m(MP[a]), n(MP[b]);
                out = its(dense_matrix_eq(m.p, n.p));
                return 0;
            }, [=]() -> std::string { return its(MP[a].r == MP[b].r && MP[a].c == MP[b].c && mkeys(core_of(MP[a])) == mkeys(core_of(MP[b])) ? 1 : 0); });
            if (MP[a].r == MP[b].r && MP[a].c == MP[b].c)
                MADD("dense_matrix_add_matrix(" + A + ", " + Bn + ")", "dense_matrix_add_matrix", [=](std::string &out) -> int {
                    CMat m(MP[a]), n(MP[b]), s;
                    int rc = dense_matrix_add_matrix(s.p, m.p, n.p);
                    out = mkeys(s.p);
                    return rc;
                }, [=]() -> std::string {
                    DenseMatrix D = core_of(MP[a]), E2 = core_of(MP[b]), R(MP[a].r, MP[a].c);
                    D.add_matrix(E2, R);
                    return mkeys(R);
                });
            if (MP[a].c == MP[b].r)
                MADD("dense_matrix_mul_matrix(" + A + ", " + Bn + ")", "dense_matrix_mul_matrix", [=](std::string &out) -> int {
                    CMat m(MP[a]), n(MP[b]), s;
                    int rc = dense_matrix_mul_matrix(s.p, m.p, n.p);
                    out = mkeys(s.p);
                    return rc;
                }, [=]() -> std::string {
                    DenseMatrix D = core_of(MP[a]), E2 = core_of(MP[b]), R(MP[a].r, MP[b].c);
                    D.mul_matrix(E2, R);
                    return mkeys(R);
                });
            if (MP[a].r == MP[b].r)
                MADD("dense_matrix_row_join(" + A + ", " + Bn + ")", "dense_matrix_row_join", [=](std::string &out) -> int {
                    CMat m(MP[a]), n(MP[b]);
                    int rc = dense_matrix_row_join(m.p, n.p);
                    out = mkeys(m.p);
                    return rc;
                }, [=]() -> std::string {
                    // model: columns of B appended to the right of A
                    std::string o = its(MP[a].r) + "x" + its(MP[a].c + MP[b].c) + "[";
                    for (unsigned i = 0; i < MP[a].r; i++) {
                        for (unsigned j = 0; j < MP[a].c; j++)
                            o += kk(MP[a].e[i * MP[a].c + j]) + ";";
                        for (unsigned j = 0; j < MP[b].c; j++)
                            o += kk(MP[b].e[i * MP[b].c + j]) + ";";
                    }
                    return o + "]";
                });
            if (MP[a].c == MP[b].c)
                MADD("dense_matrix_col_join(" + A + ", " + Bn + ")", "dense_matrix_col_join", [=](std::string &out) -> int {
                    CMat m(MP[a]), n(MP[b]);
                    int rc = dense_matrix_col_join(m.p, n.p);
                    out = mkeys(m.p);
                    return rc;
                }, [=]() -> std::string {
                    std::string o = its(MP[a].r + MP[b].r) + "x" + its(MP[a].c) + "[";
                    for (auto &e : MP[a].e)
                        o += kk(e) + ";";
                    for (auto &e : MP[b].e)
                        o += kk(e) + ";";
                    return o + "]";
                });
            if (MP[a].c == 1 && MP[b].c == 1)
                MADD("dense_matrix_jacobian(" + A + ", " + Bn + ")", "dense_matrix_jacobian", [=](std::string &out) -> int {
                    CMat m(MP[a]), n(MP[b]), s(MP[a].r, MP[b].r);
                    int rc = dense_matrix_jacobian(s.p, m.p, n.p);
                    out = mkeys(s.p);
                    return rc;
                }, [=]() -> std::string {
                    DenseMatrix D = core_of(MP[a]), X = core_of(MP[b]), R(MP[a].r, MP[b].r);
                    jacobian(D, X, R);
                    return mkeys(R);
                });
        }
        std::vector<std::pair<std::string, B>> SC = {{"2", N(2)}, {"0", N(0)}, {"x", x}, {"oo", Inf}};
        for (auto &sc : SC) {
            B sv = sc.second;
            MADD("dense_matrix_add_scalar(" + A + ", " + sc.first + ")", "dense_matrix_add_scalar", [=](std::string &out) -> int {
                CMat m(MP[a]), s;
                Hd h;
                H(h.p) = sv;
                int rc = dense_matrix_add_scalar(s.p, m.p, h.p);
                out = mkeys(s.p);
                return rc;
            }, [=]() -> std::string {
                DenseMatrix D = core_of(MP[a]), R(MP[a].r, MP[a].c);
                D.add_scalar(sv, R);
                return mkeys(R);
            });
            MADD("dense_matrix_mul_scalar(" + A + ", " + sc.first + ")", "dense_matrix_mul_scalar", [=](std::string &out) -> int {
                CMat m(MP[a]), s;
                Hd h;
                H(h.p) = sv;
                int rc = dense_matrix_mul_scalar(s.p, m.p, h.p);
                out = mkeys(s.p);
                return rc;
            }, [=]() -> std::string {
                DenseMatrix D = core_of(MP[a]), R(MP[a].r, MP[a].c);
                D.mul_scalar(sv, R);
                return mkeys(R);
            });
            MADD("dense_matrix_diff(" + A + ", " + sc.first + ")", "dense_matrix_diff", [=](std::string &out) -> int {
                CMat m(MP[a]), s(MP[a].r, MP[a].c);
                Hd h;
                H(h.p) = sv;
                int rc = dense_matrix_diff(s.p, m.p, h.p);
                out = mkeys(s.p);
                return rc;
            }, [=]() -> std::string {
                if (!is_a<Symbol>(*sv))
                    throw CoreRefusal();
                DenseMatrix D = core_of(MP[a]), R(MP[a].r, MP[a].c);
                diff(D, rcp_static_cast<const Symbol>(sv), R);
                return mkeys(R);
            });
        }
        // element access, deletion, sub-matrices, resizing (in-range arguments)
        for (unsigned i = 0; i < MP[a].r; i++)
            for (unsigned j = 0; j < MP[a].c; j++)
                MADD("dense_matrix_set_basic/get_basic(" + A + ", " + its(i) + ", " + its(j) + ", y)", "dense_matrix_set_basic", [=](std::string &out) -> int {
                    CMat m(MP[a]);
                    Hd h, g;
                    symbol_set(h.p, "y");
                    int rc = dense_matrix_get_basic(g.p, m.p, i, j);
                    out = hk(g.p) + "|";
                    if (rc == 0)
                        rc = dense_matrix_set_basic(m.p, i, j, h.p);
                    out += mkeys(m.p);
                    return rc;
                }, [=]() -> std::string {
                    std::vector<B> e = MP[a].e;
                    std::string o = kk(e[i * MP[a].c + j]) + "|" + its(MP[a].r) + "x" + its(MP[a].c) + "[";
                    e[i * MP[a].c + j] = symbol("y");
                    for (auto &q : e)
                        o += kk(q) + ";";
                    return o + "]";
                });
        for (unsigned k = 0; k < MP[a].r; k++)
            MADD("dense_matrix_row_del(" + A + ", " + its(k) + ")", "dense_matrix_row_del", [=](std::string &out) -> int {
                CMat m(MP[a]);
                int rc = dense_matrix_row_del(m.p, k);
                out = mkeys(m.p);
                return rc;
            }, [=]() -> std::string {
                std::string o = its(MP[a].r - 1) + "x" + its(MP[a].r == 1 ? 0 : MP[a].c) + "[";
                if (MP[a].r > 1)
                    for (unsigned i = 0; i < MP[a].r; i++)
                        for (unsigned j = 0; j < MP[a].c; j++)
                            if (i != k)
                                o += kk(MP[a].e[i * MP[a].c + j]) + ";";
                return o + "]";
            });
        for (unsigned k = 0; k < MP[a].c; k++)
            MADD("dense_matrix_col_del(" + A + ", " + its(k) + ")", "dense_matrix_col_del", [=](std::string &out) -> int {
                CMat m(MP[a]);
                int rc = dense_matrix_col_del(m.p, k);
                out = mkeys(m.p);
                return rc;
            }, [=]() -> std::string {
                std::string o = its(MP[a].c == 1 ? 0 : MP[a].r) + "x" + its(MP[a].c - 1) + "[";
                if (MP[a].c > 1)
                    for (unsigned i = 0; i < MP[a].r; i++)
                        for (unsigned j = 0; j < MP[a].c; j++)
                            if (j != k)
                                o += kk(MP[a].e[i * MP[a].c + j]) + ";";
                return o + "]";
            });
        for (unsigned r1 = 0; r1 < MP[a].r; r1++)
            for (unsigned r2 = r1; r2 < MP[a].r; r2++)
                for (unsigned c1 = 0; c1 < MP[a].c; c1++)
                    for (unsigned c2 = c1; c2 < MP[a].c; c2++)
                        for (unsigned st = 1; st <= 2; st++) {
                            if (st == 2 && !(r2 - r1 >= 1 || c2 - c1 >= 1))
                                continue;
                            MADD("dense_matrix_submatrix(" + A + ", " + its(r1) + "," + its(c1) + "," + its(r2) + "," + its(c2) + ", step " + its(st) + "," + its(st) + ")",
                                 st == 1 ? "dense_matrix_submatrix" : "dense_matrix_submatrix[step>1]", [=](std::string &out) -> int {
                                     CMat m(MP[a]), s;
                                     int rc = dense_matrix_submatrix(s.p, m.p, r1, c1, r2, c2, st, st);
                                     out = mkeys(s.p);
                                     return rc;
                                 }, [=]() -> std::string {
                                     // model: rows r1..r2 and columns c1..c2 taken with the step sizes
                                     unsigned nr = (r2 - r1) / st + 1, nc = (c2 - c1) / st + 1;
                                     std::string o = its(nr) + "x" + its(nc) + "[";
                                     for (unsigned i = r1; i <= r2; i += st)
                                         for (unsigned j = c1; j <= c2; j += st)
                                             o += kk(MP[a].e[i * MP[a].c + j]) + ";";
                                     return o + "]";
                                 });
                        }
    }
    for (unsigned r = 1; r <= 3; r++)
        for (unsigned cc = 1; cc <= 3; cc++) {
            MADD("dense_matrix_ones/zeros(" + its(r) + "," + its(cc) + ")", "dense_matrix_ones", [=](std::string &out) -> int {
                CMat s, z;
                int rc = dense_matrix_ones(s.p, r, cc);
                if (rc == 0)
                    rc = dense_matrix_zeros(z.p, r, cc);
                out = mkeys(s.p) + mkeys(z.p);
                return rc;
            }, [=]() -> std::string {
                std::string o = its(r) + "x" + its(cc) + "[", z = o;
                for (unsigned i = 0; i < r * cc; i++) {
                    o += "I:1;";
                    z += "I:0;";
                }
                return o + "]" + z + "]";
            });
            for (int k = -2; k <= 2; k++)
                MADD("dense_matrix_eye(" + its(r) + "," + its(cc) + "," + its(k) + ")", "dense_matrix_eye", [=](std::string &out) -> int {
                    CMat s;
                    int rc = dense_matrix_eye(s.p, r, cc, k);
                    out = mkeys(s.p);
                    return rc;
                }, [=]() -> std::string {
                    std::string o = its(r) + "x" + its(cc) + "[";
                    for (int i = 0; i < (int)r; i++)
                        for (int j = 0; j < (int)cc; j++)
                            o += (j - i == k) ? "I:1;" : "I:0;";
                    return o + "]";
                });
        }
    for (unsigned r = 1; r <= 3; r++)
        for (unsigned cc = 1; cc <= 3; cc++)
            MADD("dense_matrix_rows_cols([[1,2],[3,4]] -> " + its(r) + "x" + its(cc) + ") then fill", "dense_matrix_rows_cols", [=](std::string &out) -> int {
                CMat m(MP[2]);
                int rc = dense_matrix_rows_cols(m.p, r, cc);
                Hd h;
                for (unsigned i = 0; i < r && rc == 0; i++)
                    for (unsigned j = 0; j < cc && rc == 0; j++) {
                        integer_set_si(h.p, 10 * i + j);
                        rc = dense_matrix_set_basic(m.p, i, j, h.p);
                    }
                out = mkeys(m.p);
                return rc;
            }, [=]() -> std::string {
                std::string o = its(r) + "x" + its(cc) + "[";
                for (unsigned i = 0; i < r; i++)
                    for (unsigned j = 0; j < cc; j++)
                        o += "I:" + its(10 * i + j) + ";";
                return o + "]";
            });
    for (int len = 1; len <= 2; len++)
        for (int k = -2; k <= 2; k++)
            MADD("dense_matrix_diag([x,y][:" + its(len) + "], " + its(k) + ")", "dense_matrix_diag", [=](std::string &out) -> int {
                Hd hx, hy;
                symbol_set(hx.p, "x");
                symbol_set(hy.p, "y");
                CVec v;
                vecbasic_push_back(v.p, hx.p);
                if (len == 2)
                    vecbasic_push_back(v.p, hy.p);
                CMat s;
                int rc = dense_matrix_diag(s.p, v.p, k);
                out = mkeys(s.p);
                return rc;
            }, [=]() -> std::string {
                int n = len + std::abs(k);
                std::string o = its(n) + "x" + its(n) + "[";
                const char *nm2[] = {"S:x;", "S:y;"};
                for (int i = 0; i < n; i++)
                    for (int j = 0; j < n; j++) {
                        int d = k >= 0 ? i : j; // position along the diagonal
                        o += (j - i == k && d < len) ? nm2[d] : "I:0;";
                    }
                return o + "]";
            });
    // sparse matrices: every sequence of <= 3 assignments into a 2x3 matrix vs a std::map model
    {
        std::vector<B> SV = {N(0), N(1), x};
        const char *SVN[] = {"0", "1", "x"};
        const int NOP = 18;
        for (int len = 1; len <= 3; len++) {
            long long tot = 1;
            for (int d = 0; d < len; d++)
                tot *= NOP;
            for (long long s = 0; s < tot; s++) {
                std::vector<int> ops;
                long long t = s;
                for (int d = 0; d < len; d++) {
                    ops.push_back(t % NOP);
                    t /= NOP;
                }
                std::string d = "sparse 2x3";
                for (int op : ops)
                    d += "; set(" + its(op / 3 / 3) + "," + its(op / 3 % 3) + "," + SVN[op % 3] + ")";
                MADD(d, "sparse_matrix_set_basic/get_basic", [=](std::string &out) -> int {
                    CSparseMatrix *m = sparse_matrix_new(), *m2 = sparse_matrix_new();
                    sparse_matrix_init(m);
                    sparse_matrix_rows_cols(m, 2, 3);
                    sparse_matrix_rows_cols(m2, 2, 3);
                    Hd h;
                    int rc = 0;
                    for (int op : ops) {
                        H(h.p) = SV[op % 3];
                        rc |= sparse_matrix_set_basic(m, op / 9, op / 3 % 3, h.p);
                        rc |= sparse_matrix_set_basic(m2, op / 9, op / 3 % 3, h.p);
                    }
                    out = "";
                    for (unsigned i = 0; i < 2; i++)
                        for (unsigned j = 0; j < 3; j++) {
                            rc |= sparse_matrix_get_basic(h.p, m, i, j);
                            out += hk(h.p) + ";";
                        }
                    out += "|eq=" + its(sparse_matrix_eq(m, m2)) + "|is=" + its(is_a_SparseMatrix(m)) + "|" + take(sparse_matrix_str(m));
                    sparse_matrix_free(m);
                    sparse_matrix_free(m2);
                    return rc;
                }, [=]() -> std::string {
                    std::map<std::pair<int, int>, B> model;
                    CSRMatrix M(2, 3);
                    for (int op : ops) {
                        model[{op / 9, op / 3 % 3}] = SV[op % 3];
                        M.set(op / 9, op / 3 % 3, SV[op % 3]);
                    }
                    std::string o;
                    for (int i = 0; i < 2; i++)
                        for (int j = 0; j < 3; j++) {
                            auto it = model.find({i, j});
                            o += (it == model.end() ? std::string("I:0") : kk(it->second)) + ";";
                        }
                    return o + "|eq=1|is=1|" + M.__str__();
                });
            }
        }
    }
#undef MADD
}

static void run_matrix_cases()
{
    CaseSet cs;
    cs.name = "matrix";
    cs.n = MC.size();
    cs.hang_s = 30;
    cs.counter_names = {"matrix_calls_success_equal", "matrix_calls_error_code_and_core_throws", "matrix_calls_error_code_but_core_succeeds(allowed)"};
    cs.desc = [&](long long i) { return MC[i].desc; };
    cs.crash_sig = [&](long long i, const std::string &oc) { return std::string(oc.find("hang") != std::string::npos ? "hang:" : "crash:") + MC[i].sig; };
    cs.body = [&](long long i, Ctx &c) {
        const MCase &m = MC[i];
        limit_memory(); // e.g. dense_matrix_eye with an out-of-range offset asks for a 2^32-element vector
        c.eval();
        std::string got, want, what;
        int rc = 0, krc = 0;
        try {
            rc = m.c(got);
        } catch (std::exception &e) {
            c.violation("escape:" + m.sig, m.desc + ": a C++ exception escaped from the C API: " + std::string(e.what()).substr(0, 200));
            return;
        }
        try {
            want = m.k();
        } catch (std::exception &e) {
            krc = 1;
            what = e.what();
        }
        if (rc != 0) {
            c.count(krc ? 1 : 2);
            c.outcome(std::string(krc ? "err:" : "c-error-core-ok:") + m.sig);
            c.nontrivial();
            return;
        }
        if (got.find("<NULL>") != std::string::npos) {
            c.violation("null-entry:" + m.sig, m.desc + ": returned success but the result has entries that hold no object: " + got.substr(0, 300) + " (expected " + want.substr(0, 300) + ")");
            return;
        }
        if (krc) {
            c.violation("success-but-core-throws:" + m.sig, m.desc + ": C call succeeded with " + got.substr(0, 200) + " but the core call throws " + what.substr(0, 200));
            return;
        }
        if (got != want) {
            c.violation("mismatch:" + m.sig, m.desc + ": C API gives " + got.substr(0, 400) + " but the core API / model gives " + want.substr(0, 400));
            return;
        }
        c.count(0);
        c.nontrivial();
        c.outcome("ok:" + m.sig + ":" + got.substr(0, 3));
        if (i % 211 == 0)
            c.sample("{\"call\":" + jstr(m.desc) + ",\"result\":" + jstr(got.substr(0, 120)) + "}");
    };
    run_cases(cs);
}

// ---------------------------------------------------------------- Expression operators vs core functions, all ordered pairs of the pool
static std::string obs(const std::function<std::string()> &f)
{
    try {
        return f();
    } catch (SymEngineException &e) {
        return "throws:" + its(e.error_code());
    } catch (std::exception &e) {
        return std::string("throws-std");
    }
}
static void run_expression_pairs()
{
    const long long n = NPOOL;
    B x = symbol("x");
    struct Op {
        const char *name;
        std::function<std::string(const B &, const B &)> wrap, core;
    };
    auto K = [](const Expression &e) { return kk(e.get_basic()); };
    std::vector<Op> OPS = {
        {"a+b", [&](const B &a, const B &b) { return K(Expression(a) + Expression(b)); }, [](const B &a, const B &b) { return kk(add(a, b)); }},
        {"a-b", [&](const B &a, const B &b) { return K(Expression(a) - Expression(b)); }, [](const B &a, const B &b) { return kk(sub(a, b)); }},
        {"a*b", [&](const B &a, const B &b) { return K(Expression(a) * Expression(b)); }, [](const B &a, const B &b) { return kk(mul(a, b)); }},
        {"a/b", [&](const B &a, const B &b) { return K(Expression(a) / Expression(b)); }, [](const B &a, const B &b) { return kk(div(a, b)); }},
        {"pow(a,b)", [&](const B &a, const B &b) { return K(pow(Expression(a), Expression(b))); }, [](const B &a, const B &b) { return kk(pow(a, b)); }},
        {"rcp+b", [&](const B &a, const B &b) { return K(a + Expression(b)); }, [](const B &a, const B &b) { return kk(add(a, b)); }},
        {"a-rcp", [&](const B &a, const B &b) { return K(Expression(a) - b); }, [](const B &a, const B &b) { return kk(sub(a, b)); }},
        {"rcp*b", [&](const B &a, const B &b) { return K(a * Expression(b)); }, [](const B &a, const B &b) { return kk(mul(a, b)); }},
        {"rcp/b", [&](const B &a, const B &b) { return K(a / Expression(b)); }, [](const B &a, const B &b) { return kk(div(a, b)); }},
        {"a+=b",
         [&](const B &a, const B &b) {
             Expression e(a);
             e += Expression(b);
             return K(e);
         },
         [](const B &a, const B &b) { return kk(add(a, b)); }},
        {"a-=b",
         [&](const B &a, const B &b) {
             Expression e(a);
             e -= Expression(b);
             return K(e);
         },
         [](const B &a, const B &b) { return kk(sub(a, b)); }},
        {"a*=b",
         [&](const B &a, const B &b) {
             Expression e(a);
             e *= b;
             return K(e);
         },
         [](const B &a, const B &b) { return kk(mul(a, b)); }},
        {"a/=b",
         [&](const B &a, const B &b) {
             Expression e(a);
             e /= Expression(b);
             return K(e);
         },
         [](const B &a, const B &b) { return kk(div(a, b)); }},
        {"a==b", [&](const B &a, const B &b) { return its(Expression(a) == Expression(b)) + its(Expression(a) == b) + its(unified_eq(Expression(a), Expression(b))); },
         [](const B &a, const B &b) {
             std::string r = its(eq(*a, *b));
             return r + r + r;
         }},
        {"a!=b", [&](const B &a, const B &b) { return its(Expression(a) != Expression(b)) + its(Expression(a) != b); },
         [](const B &a, const B &b) {
             std::string r = its(neq(*a, *b));
             return r + r;
         }},
        {"a.diff(b)", [&](const B &a, const B &b) { return is_a<Symbol>(*b) ? K(Expression(a).diff(rcp_static_cast<const Symbol>(b))) : K(Expression(a).diff(b)); },
         [](const B &a, const B &b) { return is_a<Symbol>(*b) ? kk(a->diff(rcp_static_cast<const Symbol>(b))) : kk(sdiff(a, b)); }},
        {"a.subs({x:b})",
         [&](const B &a, const B &b) {
             map_basic_basic m;
             m[x] = b;
             return K(Expression(a).subs(m));
         },
         [&](const B &a, const B &b) {
             map_basic_basic m;
             m[x] = b;
             return kk(a->subs(m));
         }},
        {"unified_compare(a,b)", [&](const B &a, const B &b) { return its(unified_compare(Expression(a), Expression(b))); },
         [](const B &a, const B &b) { return its(unified_compare(a, b)); }},
    };
    struct Un {
        const char *name;
        std::function<std::string(const B &)> wrap, core;
    };
    std::vector<Un> UNS = {
        {"-a", [&](const B &a) { return K(-Expression(a)); }, [](const B &a) { return kk(neg(a)); }},
        {"expand(a)", [&](const B &a) { return K(expand(Expression(a))); }, [](const B &a) { return kk(expand(a)); }},
        {"stream<<a",
         [&](const B &a) {
             std::ostringstream s;
             s << Expression(a);
             return s.str();
         },
         [](const B &a) { return a->__str__(); }},
        {"(double)a", [&](const B &a) { return hexd((double)Expression(a)); }, [](const B &a) { return hexd(eval_double(*a)); }},
        {"(complex<double>)a",
         [&](const B &a) {
             std::complex<double> z = (std::complex<double>)Expression(a);
             return hexd(z.real()) + "," + hexd(z.imag());
         },
         [](const B &a) {
             std::complex<double> z = eval_complex_double(*a);
             return hexd(z.real()) + "," + hexd(z.imag());
         }},
        {"Expression(str(a))", [&](const B &a) { return K(Expression(a->__str__())); }, [](const B &a) { return kk(parse(a->__str__())); }},
        {"copy/move/assign",
         [&](const B &a) {
             Expression e(a), f(e), g;
             g = f;
             Expression h(std::move(f));
             Expression k2;
             k2 = std::move(h);
             const B &r = k2;
             const Basic &br = g;
             return K(k2) + "|" + kk(r) + "|" + key(br);
         },
         [](const B &a) { return kk(a) + "|" + kk(a) + "|" + kk(a); }},
    };
    const long long nb = OPS.size(), nu = UNS.size();
    CaseSet cs;
    cs.name = "expression";
    cs.n = n * n * nb + n * nu + 1;
    cs.hang_s = 30;
    cs.counter_names = {"expression_ops_equal", "expression_ops_both_throw"};
    cs.desc = [&](long long i) {
        if (i < n * n * nb)
            return std::string(OPS[i % nb].name) + " with a=" + SS.S[i / nb / n].recipe + ", b=" + SS.S[i / nb % n].recipe;
        if (i < n * n * nb + n * nu) {
            long long j = i - n * n * nb;
            return std::string(UNS[j % nu].name) + " with a=" + SS.S[j / nu].recipe;
        }
        return std::string("Expression constructors from C++ scalars");
    };
    cs.crash_sig = [&](long long i, const std::string &oc) {
        std::string cls = oc.find("hang") != std::string::npos ? "hang" : "crash";
        if (i < n * n * nb)
            return cls + ":Expression:" + OPS[i % nb].name + "(" + tname(SS.S[i / nb / n].e) + "," + tname(SS.S[i / nb % n].e) + ")";
        if (i < n * n * nb + n * nu)
            return cls + ":Expression:" + UNS[(i - n * n * nb) % nu].name + "(" + tname(SS.S[(i - n * n * nb) / nu].e) + ")";
        return cls + ":Expression:constructors";
    };
    cs.body = [&](long long i, Ctx &c) {
        limit_memory();
        std::string got, want, name, types;
        c.eval();
        if (i < n * n * nb) {
            const Op &op = OPS[i % nb];
            const B &a = SS.S[i / nb / n].e, &b = SS.S[i / nb % n].e;
            got = obs([&] { return op.wrap(a, b); });
            want = obs([&] { return op.core(a, b); });
            name = op.name;
            types = "(" + tname(a) + "," + tname(b) + ")";
        } else if (i < n * n * nb + n * nu) {
            long long j = i - n * n * nb;
            const Un &op = UNS[j % nu];
            const B &a = SS.S[j / nu].e;
            got = obs([&] { return op.wrap(a); });
            want = obs([&] { return op.core(a); });
            name = op.name;
            types = "(" + tname(a) + ")";
        } else {
            name = "constructors";
            got = obs([&] {
                return K(Expression()) + K(Expression(7)) + K(Expression(-3L)) + K(Expression(2.5)) + K(Expression(std::complex<double>(1, 2))) + K(Expression(integer_class(12)))
                       + K(Expression(rational_class(3, 4))) + K(Expression(std::string("x + 1")));
            });
            want = "I:0I:7I:-3D:" + hexd(2.5) + "Z:" + hexd(1.0) + "," + hexd(2.0) + "I:12Q:3/4" + kk(add(x, integer(1)));
        }
        if (got != want) {
            c.violation("expression:" + name + types, cs.desc(i) + ": Expression gives " + got.substr(0, 300) + " but the core function gives " + want.substr(0, 300));
            return;
        }
        if (got.rfind("throws", 0) == 0)
            c.count(1);
        else {
            c.count(0);
            c.nontrivial();
        }
        c.outcome(name + ":" + got.substr(0, got.find_first_of(":(")));
        if (i % 3001 == 0)
            c.sample("{\"expression_op\":" + jstr(cs.desc(i)) + ",\"result\":" + jstr(got.substr(0, 100)) + "}");
    };
    run_cases(cs);
}

int main(int argc, char **argv)
{
    init(argc, argv, "C42");
    bool thorough = opts().thorough();
    build_menu();
    // lowergamma/uppergamma recurse once per unit of an integer first argument (stack overflow for 2^70+1, a defect of
    // the functions themselves, not of the wrapper): their arguments come from the reduced pool
    for (auto &f : FN)
        if (f.name == "basic_lowergamma" || f.name == "basic_uppergamma")
            f.small = true;
    build_pool();
    Run &R = run();

    // ---- depth 1: every menu function x every valid argument tuple of the pool x every aliasing mode
    Layer L1;
    for (size_t f = 0; f < FN.size(); f++) {
        Plan p;
        p.fn = (int)f;
        for (int cls : FN[f].in) {
            std::vector<int> cand;
            if (FN[f].small) {
                for (int s : SMALL)
                    if (in_class(cls, *SS.S[s].e))
                        cand.push_back(s);
            } else
                for (int s = 0; s < NPOOL; s++)
                    if (in_class(cls, *SS.S[s].e))
                        cand.push_back(s);
            p.cand.push_back(cand);
        }
        p.modes = 1 + (FN[f].nout > 0 ? FN[f].nout * (int)FN[f].in.size() : 0);
        L1.add(p);
    }
    if (getenv("C42_PROFILE")) {
        // developer aid: wall time per plan, each in its own child
        for (auto &p : L1.plans) {
            double t = now();
            pid_t pid = fork();
            if (pid == 0) {
                Shared sh;
                memset((void *)&sh, 0, sizeof sh);
                Ctx c;
                c.sh = &sh;
                c.out = fopen("/dev/null", "w");
                alarm(120);
                for (long long i = p.base; i < p.base + p.nargs; i++) {
                    std::vector<int> a;
                    int mode;
                    const Plan &q = L1.decode(i, a, mode);
                    exec_case(FN[q.fn], a, mode, c, "", false);
                }
                _exit(0);
            }
            int st = 0;
            waitpid(pid, &st, 0);
            double dt = now() - t;
            if (dt > 0.05 || !WIFEXITED(st))
                printf("PROFILE %-45s cases=%lld wall=%.2fs per_case=%.3fms status=%d\n", FN[p.fn].name.c_str(), p.nargs, dt, 1000 * dt / p.nargs, st);
        }
        return 0;
    }
    std::set<long long> bad1;
    run_layer(L1, "calls-depth1", K_CALLS_D1, &bad1);
    R.counters["menu_functions"] = FN.size();
    R.counters["pool_handles"] = NPOOL;
    std::string bound = "depth 1: " + std::to_string(FN.size()) + " menu entries x all valid argument tuples of a " + std::to_string(NPOOL) + "-handle pool x all output/input aliasings ("
                        + std::to_string(L1.total) + " calls)";

    // ---- containers, matrices, Expression
    int cdepth = thorough ? 4 : 3;
    if (!past_deadline())
        run_vec_sequences(cdepth);
    if (!past_deadline())
        run_set_sequences(cdepth);
    if (!past_deadline())
        run_map_sequences(cdepth);
    bound += "; CVecBasic/CSetBasic/CMapBasicBasic: all op sequences of length <= " + std::to_string(cdepth);
    build_matrix_cases();
    if (!past_deadline())
        run_matrix_cases();
    bound += "; " + std::to_string(MC.size()) + " dense/sparse matrix calls";
    if (!past_deadline())
        run_expression_pairs();
    bound += "; Expression operators on all ordered pairs of the pool";

    // ---- depth 2 (thorough): the restricted menu on every distinct result of a depth-1 call
    if (thorough && !past_deadline()) {
        // states: distinct successful results of depth-1 calls that were executed safely (quarantine)
        for (long long i = 0; i < L1.total; i++) {
            if (bad1.count(i))
                continue;
            std::vector<int> a;
            int mode;
            const Plan &p = L1.decode(i, a, mode);
            const Fn &f = FN[p.fn];
            if (mode != 0 || f.nout == 0 || f.in.empty() || !f.d2)
                continue; // successors of the restricted menu applied to pool handles (setters with huge scalars are not sources)
            std::vector<B> args, out(f.nout);
            for (int k : a)
                args.push_back(SS.S[k].e);
            XS xs;
            try {
                f.k(out, args, xs);
            } catch (...) {
                continue;
            }
            for (auto &o : out)
                if (!o.is_null())
                    SS.add(o, case_desc(L1, i), 1);
        }
        R.counters["states_after_depth1"] = SS.size();
        std::vector<int> fresh;
        for (int s = (int)NPOOL; s < (int)SS.size(); s++)
            fresh.push_back(s);
        Layer L2;
        for (size_t f = 0; f < FN.size(); f++) {
            if (!FN[f].d2 || FN[f].in.empty())
                continue;
            int nin = FN[f].in.size();
            // the new state in one position, handles of the reduced pool in the others
            for (int pos = 0; pos < nin; pos++) {
                Plan p;
                p.fn = (int)f;
                p.modes = 1;
                bool ok = true;
                for (int q = 0; q < nin; q++) {
                    std::vector<int> cand;
                    if (q == pos) {
                        for (int s : fresh)
                            if (in_class(FN[f].in[q], *SS.S[s].e))
                                cand.push_back(s);
                    } else
                        for (int s : SMALL)
                            if (in_class(FN[f].in[q], *SS.S[s].e))
                                cand.push_back(s);
                    if (cand.empty())
                        ok = false;
                    p.cand.push_back(cand);
                }
                if (ok)
                    L2.add(p);
            }
        }
        run_layer(L2, "calls-depth2", K_CALLS_D2, nullptr);
        bound += "; depth 2: restricted menu (" + std::to_string(L2.plans.size()) + " function/position plans) with one argument ranging over the " + std::to_string(fresh.size())
                 + " distinct results of depth-1 calls (" + std::to_string(L2.total) + " calls)";
    }
    R.states = SS.size();
    R.transitions = R.evaluations;
    R.bound_completed = bound;
    R.rule = "E2 over handles: every exported C function that can be driven generically (menu entries fix scalar/string parameters) is called inside a C++ try on valid handles "
             "(type-restricted accessors only on handles of the documented type; indices in range; matrix shapes compatible) for every argument tuple of the pool; an exception "
             "reaching the driver, a crash, a null output after success, a modified input, or success with a result different from the independently written core call is a "
             "violation; an error code is accepted. Containers: all op sequences vs std::vector/set/map of structural keys. distinct_nontrivial = calls that returned an error "
             "code or produced an object different from their first input.";
    R.assumptions = {"structural key (core/key.h) decides equality of results",
                     "the corresponding core call per C function is written from the header documentation, not from cwrapper.cpp",
                     "an error code is always an acceptable outcome (property statement); it is counted when the core call succeeds",
                     "out-of-range indices, mismatched matrix shapes and handles of the wrong type are outside 'valid handles' and are not exercised",
                     "basic_parse inputs that crash the parser (C18) and corrupted basic_loads buffers (C20) are left to those properties",
                     "real_mpfr_*/complex_mpc*/llvm_* functions are not compiled in the plain configuration"};
    return R.finish();
}
