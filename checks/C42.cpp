// C42  C API and Expression wrapper agree with the core API -- E2 over handles (DESIGN 5 C42)
//
// Every exported C function that can be driven generically is called on *valid handles* (handles
// of the documented type) with every argument tuple of a finite pool, inside a C++ try block:
//   * a C++ exception reaching the driver is a violation (the C API must return an error code);
//   * a successful call must produce the result of the corresponding core C++ call, written here
//     independently from the header documentation (compared by structural key);
//   * a successful call must leave every output handle non-null, and never modify its inputs.
// Containers are compared with std::vector/set/map models over all op sequences of depth <= 4,
// dense/sparse matrix functions with element-wise core results, Expression operators with the
// core functions on all ordered pairs of the pool.
#include "common.h"
#include "key.h"
#include "explore.h"
#include <symengine/expression.h>
#include <symengine/cwrapper.h>
using namespace verif;

typedef RCP<const Basic> B;
struct HB {
    B m;
};
static inline B &H(basic_struct *s)
{
    return reinterpret_cast<HB *>(s)->m;
}
struct Hd {
    basic_struct *p;
    Hd()
    {
        p = basic_new_heap();
    }
    ~Hd()
    {
        basic_free_heap(p);
    }
    Hd(const Hd &) = delete;
    Hd &operator=(const Hd &) = delete;
};
static std::string hk(basic_struct *s)
{
    if (H(s).is_null())
        return "<NULL>";
    return key(*H(s));
}
static std::string kk(const B &b)
{
    if (b.is_null())
        return "<NULL>";
    return key(*b);
}
static std::string take(char *p)
{
    if (!p)
        return "<nullptr>";
    std::string s(p);
    basic_str_free(p);
    return s;
}
static std::string tname(const B &b)
{
    return b.is_null() ? "NULL" : type_code_name(b->get_type_code());
}
static std::string vec_keys(CVecBasic *v)
{
    std::string o = "[";
    Hd t;
    size_t n = vecbasic_size(v);
    for (size_t i = 0; i < n; i++) {
        vecbasic_get(v, i, t.p);
        o += hk(t.p) + ";";
    }
    return o + "]";
}
static std::string vec_keys(const vec_basic &v)
{
    std::string o = "[";
    for (auto &e : v)
        o += kk(e) + ";";
    return o + "]";
}
static std::string set_keys(CSetBasic *v)
{
    std::vector<std::string> ks;
    Hd t;
    size_t n = setbasic_size(v);
    for (size_t i = 0; i < n; i++) {
        setbasic_get(v, (int)i, t.p);
        ks.push_back(hk(t.p));
    }
    std::sort(ks.begin(), ks.end());
    std::string o = "{";
    for (auto &k : ks)
        o += k + ";";
    return o + "}";
}
static std::string set_keys(const set_basic &v)
{
    std::vector<std::string> ks;
    for (auto &e : v)
        ks.push_back(kk(e));
    std::sort(ks.begin(), ks.end());
    std::string o = "{";
    for (auto &k : ks)
        o += k + ";";
    return o + "}";
}
struct CVec {
    CVecBasic *p;
    CVec()
    {
        p = vecbasic_new();
    }
    CVec(std::initializer_list<basic_struct *> l)
    {
        p = vecbasic_new();
        for (auto h : l)
            vecbasic_push_back(p, h);
    }
    ~CVec()
    {
        vecbasic_free(p);
    }
};
struct CSet {
    CSetBasic *p;
    CSet()
    {
        p = setbasic_new();
    }
    ~CSet()
    {
        setbasic_free(p);
    }
};

// ---------------------------------------------------------------- argument classes (valid-handle guard)
enum { ANY, NUM, INT, RAT, SET, SYM, ADDT, MULT, FSYM, RDBL, CDBL, CPLX };
static bool in_class(int cls, const Basic &e)
{
    switch (cls) {
        case ANY:
            return true;
        case NUM:
            return dynamic_cast<const Number *>(&e) != nullptr;
        case INT:
            return is_a<Integer>(e);
        case RAT:
            return is_a<Rational>(e);
        case SET:
            return dynamic_cast<const Set *>(&e) != nullptr;
        case SYM:
            return is_a<Symbol>(e);
        case ADDT:
            return is_a<Add>(e);
        case MULT:
            return is_a<Mul>(e);
        case FSYM:
            return is_a<FunctionSymbol>(e);
        case RDBL:
            return is_a<RealDouble>(e);
        case CDBL:
            return is_a<ComplexDouble>(e);
        case CPLX:
            return dynamic_cast<const ComplexBase *>(&e) != nullptr;
    }
    return false;
}

// ---------------------------------------------------------------- the function menu
typedef std::vector<std::string> XS;
typedef std::function<int(basic_struct **o, basic_struct **i, XS &x)> CF;
typedef std::function<void(std::vector<B> &o, const std::vector<B> &i, XS &x)> KF;
struct Fn {
    std::string name;
    std::vector<int> in;
    int nout;
    CF c;
    KF k;
    bool d2;     // member of the restricted depth-2 menu
    bool small;  // arguments drawn from the reduced pool (ternary functions)
};
static std::vector<Fn> FN;
static void F(const std::string &name, std::vector<int> in, int nout, CF c, KF k, bool d2 = false, bool small = false)
{
    FN.push_back(Fn{name, in, nout, c, k, d2, small});
}
struct CoreRefusal : public SymEngineException {
    CoreRefusal() : SymEngineException("documented: error code expected") {}
};
static std::string its(long long v)
{
    return std::to_string(v);
}
static std::string uts(unsigned long long v)
{
    return std::to_string(v);
}
static mpz_class mpz_of(const B &b)
{
    return to_mpz(down_cast<const Integer &>(*b).as_integer_class());
}
static const Integer &INTG(const B &b)
{
    return down_cast<const Integer &>(*b);
}
static RCP<const Set> SETP(const B &b)
{
    return rcp_static_cast<const Set>(b);
}

#include "C42_menu.inc"
