// C09  expand is value-preserving, complete, idempotent and decides identity -- E1 + exact polynomial model
// (DESIGN 5 C09).
//
// States: distinct canonical expressions reachable with <= n constructor calls add(a,b), mul(a,b), pow(a,k),
// k in {-3,-2,-1,2,3,4}, from the leaves {x, y, 1, -2, 1/2, I, f(x), sqrt(2), sqrt(1+x), x+1/x, y+1/x}.
// Oracle: every recipe is evaluated in an exact model: fractions of dictionaries with Gaussian-rational (mpq)
// coefficients over the generators x, y, f(x), s = sqrt(2) (s^2 = 2) and r = sqrt(1+x) (r^2 = 1+x); recipes that never
// invert a sum stay Laurent polynomials.  expand(e) is read back into the same kind of object by an independent tree
// walk and must equal the model of e exactly (fractions by cross-multiplication in the integral domain).
// Further: completeness (no Add stored as a term of an Add, no Add with a positive integer exponent, outside function
// arguments), idempotence expand(expand(e)) == expand(e), and for Laurent recipes the result must be *the* canonical
// form: its structural key must equal the key generated from the model dictionary (so equal polynomials expand to
// equal expressions) -- plus an explicit all-pairs table eq(expand a, expand b) <=> model(a) = model(b).
// RefEval is used only to self-check the model against every operand tree.
#include "common.h"
#include "explore.h"
#include "refeval.h"
using namespace verif;

// ------------------------------------------------------------------ exact model
struct Mono {
    int ex = 0, ey = 0, ef = 0, s = 0, r = 0; // s, r in {0,1}
    bool operator<(const Mono &o) const
    {
        return std::tie(ex, ey, ef, s, r) < std::tie(o.ex, o.ey, o.ef, o.s, o.r);
    }
    bool operator==(const Mono &o) const
    {
        return std::tie(ex, ey, ef, s, r) == std::tie(o.ex, o.ey, o.ef, o.s, o.r);
    }
};
typedef std::map<Mono, GQ> Poly;
static void padd_term(Poly &p, const Mono &m, const GQ &c)
{
    if (c.is_zero())
        return;
    auto it = p.find(m);
    if (it == p.end())
        p[m] = c;
    else {
        it->second = it->second + c;
        if (it->second.is_zero())
            p.erase(it);
    }
}
static Poly padd(const Poly &a, const Poly &b)
{
    Poly r = a;
    for (auto &t : b)
        padd_term(r, t.first, t.second);
    return r;
}
static Poly pmul(const Poly &a, const Poly &b)
{
    Poly out;
    for (auto &s : a)
        for (auto &t : b) {
            Mono m;
            m.ex = s.first.ex + t.first.ex;
            m.ey = s.first.ey + t.first.ey;
            m.ef = s.first.ef + t.first.ef;
            GQ c = s.second * t.second;
            int ss = s.first.s + t.first.s, rr = s.first.r + t.first.r;
            if (ss == 2) { // sqrt(2)^2 = 2
                c = c * GQ{2, 0};
                ss = 0;
            }
            m.s = ss;
            if (rr == 2) { // sqrt(1+x)^2 = 1 + x
                m.r = 0;
                padd_term(out, m, c);
                m.ex += 1;
                padd_term(out, m, c);
            } else {
                m.r = rr;
                padd_term(out, m, c);
            }
        }
    return out;
}
static Poly pconst(const GQ &c)
{
    Poly p;
    padd_term(p, Mono(), c);
    return p;
}
// Exact value of a recipe: a fraction n/d of dictionaries (the ring Q(i)[x,y,f,s,r]/(s^2-2, r^2-1-x) is an integral
// domain, so fractions compare by cross-multiplication).  laurent = the recipe never inverted a sum or the radical r:
// then d == 1 and n is a Laurent polynomial.
struct Model {
    bool ok = true;      // false only after a division by exact zero (pole)
    bool laurent = true;
    Poly n, d;
};
static bool is_one(const Poly &p)
{
    return p.size() == 1 && p.begin()->first == Mono() && p.begin()->second == GQ{1, 0};
}
static Model m_add(const Model &a, const Model &b)
{
    Model r;
    r.ok = a.ok && b.ok;
    r.laurent = a.laurent && b.laurent;
    if (!r.ok)
        return r;
    if (is_one(a.d) && is_one(b.d)) {
        r.n = padd(a.n, b.n);
        r.d = a.d;
    } else {
        r.n = padd(pmul(a.n, b.d), pmul(b.n, a.d));
        r.d = pmul(a.d, b.d);
    }
    return r;
}
static Model m_mul(const Model &a, const Model &b)
{
    Model r;
    r.ok = a.ok && b.ok;
    r.laurent = a.laurent && b.laurent;
    if (!r.ok)
        return r;
    r.n = pmul(a.n, b.n);
    r.d = pmul(a.d, b.d);
    return r;
}
static Poly ppow(const Poly &b, int k)
{
    Poly r = pconst(GQ{1, 0});
    for (int i = 0; i < k; i++)
        r = pmul(r, b);
    return r;
}
static Model m_pow(const Model &a, int k)
{
    Model r;
    r.ok = a.ok;
    r.laurent = a.laurent;
    if (!r.ok)
        return r;
    if (k >= 0) {
        r.n = ppow(a.n, k);
        r.d = ppow(a.d, k);
        return r;
    }
    if (a.n.empty()) { // 1/0
        r.ok = false;
        return r;
    }
    if (a.laurent && a.n.size() == 1 && a.n.begin()->first.r == 0) {
        // a single term without r is a unit of the Laurent ring
        Mono m = a.n.begin()->first;
        GQ c = gq_div(GQ{1, 0}, a.n.begin()->second);
        m.ex = -m.ex;
        m.ey = -m.ey;
        m.ef = -m.ef;
        if (m.s == 1) // 1/sqrt(2) = sqrt(2)/2
            c = c * GQ{mpq_class(1, 2), 0};
        Poly inv;
        inv[m] = c;
        r.n = ppow(inv, -k);
        r.d = a.d; // == 1
        return r;
    }
    r.laurent = false;
    r.n = ppow(a.d, -k);
    r.d = ppow(a.n, -k);
    return r;
}
static bool m_equal(const Model &a, const Model &b)
{
    if (is_one(a.d) && is_one(b.d))
        return a.n == b.n;
    return pmul(a.n, b.d) == pmul(b.n, a.d);
}
static std::string mono_str(const Mono &m)
{
    std::string o;
    auto f = [&](const char *n, int e) {
        if (e)
            o += std::string(o.empty() ? "" : "*") + n + (e == 1 ? "" : "^" + std::to_string(e));
    };
    f("x", m.ex);
    f("y", m.ey);
    f("f", m.ef);
    f("sqrt2", m.s);
    f("sqrt(1+x)", m.r);
    return o.empty() ? "1" : o;
}
static std::string poly_str(const Poly &p)
{
    if (p.empty())
        return "0";
    std::string o;
    for (auto &t : p)
        o += (o.empty() ? "" : " + ") + std::string("(") + gq_str(t.second) + ")*" + mono_str(t.first);
    return o;
}
static std::string model_str(const Model &m)
{
    if (!m.ok)
        return "(pole)";
    if (is_one(m.d))
        return poly_str(m.n);
    return "[" + poly_str(m.n) + "] / [" + poly_str(m.d) + "]";
}
static cq gq_val(const GQ &g)
{
    return mkc(strtoflt128(g.re.get_num().get_str().c_str(), nullptr) / strtoflt128(g.re.get_den().get_str().c_str(), nullptr),
               strtoflt128(g.im.get_num().get_str().c_str(), nullptr) / strtoflt128(g.im.get_den().get_str().c_str(), nullptr));
}
static cq ipow(cq b, int n)
{
    cq r = mkc(1, 0);
    for (int i = 0; i < (n < 0 ? -n : n); i++)
        r *= b;
    return n < 0 ? mkc(1, 0) / r : r;
}
// numeric value of a model dictionary (used only to self-check the model against the operand tree)
static cq poly_val(const Poly &p, const Env &env, rq &scale)
{
    cq x = env.sym.at("x"), y = env.sym.at("y");
    cq f = ref_undefined("f", {x});
    cq s = mkc(sqrtq(2.0Q), 0), r = csqrtq(mkc(1, 0) + x);
    cq acc = 0;
    for (auto &t : p) {
        cq v = gq_val(t.second) * ipow(x, t.first.ex) * ipow(y, t.first.ey) * ipow(f, t.first.ef);
        if (t.first.s)
            v *= s;
        if (t.first.r)
            v *= r;
        scale = fmaxq(scale, absq(v));
        acc += v;
    }
    return acc;
}

// ------------------------------------------------------------------ independent key generator for polynomials
static std::string num_key(const GQ &g)
{
    auto q = [](const mpq_class &v) { return v.get_num().get_str() + "/" + v.get_den().get_str(); };
    if (g.im == 0) {
        if (g.re.get_den() == 1)
            return "I:" + g.re.get_num().get_str();
        return "Q:" + q(g.re);
    }
    return "C:" + q(g.re) + "," + q(g.im);
}
// key.h key of the canonical expanded form of a dictionary over x, y, f(x), sqrt(2); r must be absent
static std::string canon_key(const Poly &p)
{
    auto mono_factors = [](const Mono &m) {
        std::vector<std::pair<std::string, std::string>> f; // base key, exponent key
        if (m.ex)
            f.push_back({"S:x", "I:" + std::to_string(m.ex)});
        if (m.ey)
            f.push_back({"S:y", "I:" + std::to_string(m.ey)});
        if (m.ef)
            f.push_back({"F:f(S:x,)", "I:" + std::to_string(m.ef)});
        if (m.s)
            f.push_back({"I:2", "Q:1/2"});
        return f;
    };
    auto term_key = [&](const Mono &m, const GQ &c) { // c * monomial as a stand-alone expression
        auto f = mono_factors(m);
        bool one = (c == GQ{1, 0});
        if (f.empty())
            return num_key(c);
        if (one && f.size() == 1) {
            if (f[0].second == "I:1")
                return f[0].first;
            return "Pow(" + f[0].first + "," + f[0].second + ",)";
        }
        std::vector<std::string> ks;
        for (auto &x : f)
            ks.push_back(x.first + "^" + x.second);
        std::sort(ks.begin(), ks.end());
        std::string o = "Mul(" + num_key(c) + ";";
        for (auto &k : ks)
            o += k + ",";
        return o + ")";
    };
    if (p.empty())
        return "I:0";
    if (p.size() == 1)
        return term_key(p.begin()->first, p.begin()->second);
    GQ c0{0, 0};
    std::vector<std::string> ks;
    for (auto &t : p) {
        if (t.first == Mono()) {
            c0 = t.second;
            continue;
        }
        ks.push_back(num_key(t.second) + "*" + term_key(t.first, GQ{1, 0}));
    }
    std::sort(ks.begin(), ks.end());
    std::string o = "Add(" + num_key(c0) + ";";
    for (auto &k : ks)
        o += k + ",";
    return o + ")";
}

// ------------------------------------------------------------------ reading an expanded tree back
static RCP<const Basic> X, Y, FX, ONE_PLUS_X;
enum ReadStatus { RD_OK, RD_UNKNOWN };
static Model m_gen(int which)
{
    Mono m;
    (which == 0 ? m.ex : which == 1 ? m.ey : which == 2 ? m.ef : which == 3 ? m.s : m.r) = 1;
    Model r;
    r.n[m] = GQ{1, 0};
    r.d = pconst(GQ{1, 0});
    return r;
}
static Model m_const(const GQ &g)
{
    Model r;
    r.n = pconst(g);
    r.d = pconst(GQ{1, 0});
    return r;
}
// independent walk over a result tree through public accessors; yields the exact fraction it denotes
struct Reader {
    ReadStatus st = RD_OK;
    std::string why;
    void fail(const std::string &w)
    {
        if (st == RD_OK) {
            st = RD_UNKNOWN;
            why = w;
        }
    }
    Model power(const Model &b, long k)
    {
        Model r = m_pow(b, (int)k);
        if (!r.ok)
            fail("division by exact zero");
        return r;
    }
    Model read_pow(const Basic &base, const Basic &ex)
    {
        if (is_a<Integer>(ex)) {
            long k = mp_get_si(down_cast<const Integer &>(ex).as_integer_class());
            Model b = read(base);
            if (st != RD_OK)
                return Model();
            return power(b, k);
        }
        if (is_a<Rational>(ex)) {
            const rational_class &q = down_cast<const Rational &>(ex).as_rational_class();
            if (get_den(q) == 2) {
                long k = mp_get_si(get_num(q)); // odd
                int which = -1;
                if (is_a<Integer>(base) && down_cast<const Integer &>(base).as_integer_class() == 2)
                    which = 3;
                else if (key(base) == key(*ONE_PLUS_X))
                    which = 4;
                if (which >= 0)
                    return power(m_gen(which), k);
            }
        }
        fail("power not in the generator set: " + key(base) + " ^ " + key(ex));
        return Model();
    }
    Model read(const Basic &e)
    {
        if (st != RD_OK)
            return Model();
        GQ g;
        if (to_gq(e, g))
            return m_const(g);
        if (is_a<Symbol>(e)) {
            const std::string &n = down_cast<const Symbol &>(e).get_name();
            if (n == "x")
                return m_gen(0);
            if (n == "y")
                return m_gen(1);
        }
        if (is_a<FunctionSymbol>(e) && key(e) == key(*FX))
            return m_gen(2);
        if (is_a<Pow>(e)) {
            const Pow &p = down_cast<const Pow &>(e);
            return read_pow(*p.get_base(), *p.get_exp());
        }
        if (is_a<Mul>(e)) {
            const Mul &m = down_cast<const Mul &>(e);
            GQ c;
            if (!to_gq(*m.get_coef(), c)) {
                fail("coefficient kind");
                return Model();
            }
            Model acc = m_const(c);
            for (auto &p : m.get_dict()) {
                Model f = read_pow(*p.first, *p.second);
                if (st != RD_OK)
                    return Model();
                acc = m_mul(acc, f);
            }
            return acc;
        }
        if (is_a<Add>(e)) {
            const Add &a = down_cast<const Add &>(e);
            GQ c;
            if (!to_gq(*a.get_coef(), c)) {
                fail("coefficient kind");
                return Model();
            }
            Model acc = m_const(c);
            for (auto &p : a.get_dict()) {
                GQ k;
                if (!to_gq(*p.second, k)) {
                    fail("coefficient kind");
                    return Model();
                }
                Model t = read(*p.first);
                if (st != RD_OK)
                    return Model();
                acc = m_add(acc, m_mul(m_const(k), t));
            }
            return acc;
        }
        fail("node " + type_code_name(e.get_type_code()));
        return Model();
    }
};

// completeness: "" when complete, otherwise what was found (outside function arguments)
static std::string incomplete(const Basic &e)
{
    if (is_a<Add>(e)) {
        for (auto &p : down_cast<const Add &>(e).get_dict()) {
            if (is_a<Add>(*p.first))
                return "sum-stored-as-term-of-sum";
            std::string w = incomplete(*p.first);
            if (!w.empty())
                return w;
        }
        return "";
    }
    auto pw = [&](const Basic &b, const Basic &x, bool in_mul) -> std::string {
        if (is_a<Add>(b) && is_a<Integer>(x) && down_cast<const Integer &>(x).is_positive())
            return in_mul ? "product-with-sum-factor" : "positive-integer-power-of-sum";
        return incomplete(b);
    };
    if (is_a<Mul>(e)) {
        for (auto &p : down_cast<const Mul &>(e).get_dict()) {
            std::string w = pw(*p.first, *p.second, true);
            if (!w.empty())
                return w;
        }
        return "";
    }
    if (is_a<Pow>(e))
        return pw(*down_cast<const Pow &>(e).get_base(), *down_cast<const Pow &>(e).get_exp(), false);
    return ""; // numbers, symbols, functions (arguments are not expanded by contract)
}

// input class for signatures
static void features(const Basic &e, bool &radsum, bool &recip)
{
    auto pw = [&](const Basic &b, const Basic &x) {
        if (is_a<Add>(b)) {
            if (!is_a<Integer>(x))
                radsum = true;
            else if (down_cast<const Integer &>(x).is_negative())
                recip = true;
        }
        features(b, radsum, recip);
    };
    if (is_a<Add>(e)) {
        for (auto &p : down_cast<const Add &>(e).get_dict())
            features(*p.first, radsum, recip);
    } else if (is_a<Mul>(e)) {
        for (auto &p : down_cast<const Mul &>(e).get_dict())
            pw(*p.first, *p.second);
    } else if (is_a<Pow>(e))
        pw(*down_cast<const Pow &>(e).get_base(), *down_cast<const Pow &>(e).get_exp());
}
static std::string input_class(const Basic &e)
{
    bool radsum = false, recip = false;
    features(e, radsum, recip);
    return radsum ? "input-with-radical-of-sum" : recip ? "input-with-reciprocal-of-sum" : "polynomial-input";
}
// syntactic (Laurent) polynomial over the atoms x, y [, f(x), sqrt(2)]: numbers, atoms, sums, products, integer powers;
// a negative exponent only on an atom.  This is the class for which the property promises a unique expanded form.
static bool syntactic_laurent(const Basic &e, bool &xy_only)
{
    if (is_a<Integer>(e) || is_a<Rational>(e) || is_a<Complex>(e))
        return true;
    if (is_a<Symbol>(e))
        return true;
    if (is_a<FunctionSymbol>(e)) {
        xy_only = false;
        return key(e) == key(*FX);
    }
    auto atom = [&](const Basic &b) { return is_a<Symbol>(b) || (is_a<FunctionSymbol>(b) && key(b) == key(*FX)); };
    auto pw = [&](const Basic &b, const Basic &x) {
        if (is_a<Integer>(b) && down_cast<const Integer &>(b).as_integer_class() == 2 && is_a<Rational>(x)
            && get_den(down_cast<const Rational &>(x).as_rational_class()) == 2) {
            xy_only = false; // sqrt(2)^k
            return true;
        }
        if (!is_a<Integer>(x))
            return false;
        if (down_cast<const Integer &>(x).is_negative() && !atom(b))
            return false;
        return syntactic_laurent(b, xy_only);
    };
    if (is_a<Add>(e)) {
        for (auto &p : down_cast<const Add &>(e).get_dict())
            if (!syntactic_laurent(*p.first, xy_only))
                return false;
        return true;
    }
    if (is_a<Mul>(e)) {
        for (auto &p : down_cast<const Mul &>(e).get_dict())
            if (!pw(*p.first, *p.second))
                return false;
        return true;
    }
    if (is_a<Pow>(e))
        return pw(*down_cast<const Pow &>(e).get_base(), *down_cast<const Pow &>(e).get_exp());
    return false;
}
// which expansion routine the top node of the input selects (part of the signature of value/canonical-form violations)
static std::string top_class(const Basic &e)
{
    if (is_a<Pow>(e)) {
        const Pow &p = down_cast<const Pow &>(e);
        if (!is_a<Add>(*p.get_base()))
            return "Pow(other)";
        if (!is_a<Integer>(*p.get_exp()))
            return "Pow(Add,non-integer)";
        const integer_class &n = down_cast<const Integer &>(*p.get_exp()).as_integer_class();
        return n == 2 ? "Pow(Add,2)" : n > 2 ? "Pow(Add,n>2)" : "Pow(Add,n<0)";
    }
    if (is_a<Mul>(e))
        return "Mul";
    if (is_a<Add>(e))
        return "Add";
    return "atom";
}
static bool contains_nonfinite(const Basic &e)
{
    if (is_a<Infty>(e) || is_a<NaN>(e))
        return true;
    for (auto &a : e.get_args())
        if (contains_nonfinite(*a))
            return true;
    return false;
}

// ------------------------------------------------------------------ states and transitions
enum { T_ADD, T_MUL, T_POW };
static const int POWK[] = {2, 3, -1, -2, 4, -3};
static const int NPOW = 6;
struct Tr {
    int op, a, b; // b = operand index, or exponent for T_POW
};
static StateSet SS;
static std::vector<Model> SM;
static std::vector<Env> G;

static std::string tr_recipe(const Tr &t)
{
    if (t.op == T_POW)
        return "pow(" + SS.S[t.a].recipe + ", " + std::to_string(t.b) + ")";
    return std::string(t.op == T_ADD ? "add(" : "mul(") + SS.S[t.a].recipe + ", " + SS.S[t.b].recipe + ")";
}
static RCP<const Basic> tr_apply(const Tr &t)
{
    if (t.op == T_POW)
        return pow(SS.S[t.a].e, integer(t.b));
    return t.op == T_ADD ? add(SS.S[t.a].e, SS.S[t.b].e) : mul(SS.S[t.a].e, SS.S[t.b].e);
}
static Model tr_model(const Tr &t)
{
    if (t.op == T_POW)
        return m_pow(SM[t.a], t.b);
    return t.op == T_ADD ? m_add(SM[t.a], SM[t.b]) : m_mul(SM[t.a], SM[t.b]);
}
// all transitions whose operand depths sum to L-1
static void transitions_of_layer(int L, std::vector<Tr> &out)
{
    int n = (int)SS.size();
    for (int a = 0; a < n; a++) {
        int da = SS.S[a].depth;
        if (da + 1 == L)
            for (int k = 0; k < NPOW; k++)
                out.push_back({T_POW, a, POWK[k]});
        for (int b = a; b < n; b++)
            if (da + SS.S[b].depth + 1 == L) {
                out.push_back({T_ADD, a, b});
                out.push_back({T_MUL, a, b});
            }
    }
}

enum {
    K_EXACT_LAURENT,
    K_EXACT_FRACTION,
    K_COMPLETE,
    K_IDEM,
    K_CANON,
    K_CANON_STRICT,
    K_SELFCHECK,
    K_SELFCHECK_ILL,
    K_NONFINITE,
    K_CHANGED,
    K_REFUSED
};
static std::vector<std::string> counter_names()
{
    return {"value_checked_exactly(Laurent dictionaries)",
            "value_checked_exactly(fractions of dictionaries, cross-multiplied)",
            "completeness_checked",
            "idempotence_checked",
            "canonical_key_checked(syntactic Laurent polynomials over x,y,f(x),sqrt2)",
            "canonical_key_checked(polynomials in x,y only)",
            "model_selfcheck_points(model value == RefEval of operand tree)",
            "model_selfcheck_points_ill_conditioned(not judged)",
            "inputs_skipped_nonfinite(zoo/nan)",
            "expand_changed_the_expression",
            "expand_refused(SymEngineException)"};
}

// does the tree contain (outside function arguments) a sum raised to an integer power <= -2 ?
static bool has_reciprocal_power_of_sum(const Basic &e)
{
    auto pw = [&](const Basic &b, const Basic &x) {
        if (is_a<Add>(b) && is_a<Integer>(x) && down_cast<const Integer &>(x).as_integer_class() <= -2)
            return true;
        return has_reciprocal_power_of_sum(b);
    };
    if (is_a<Add>(e)) {
        for (auto &p : down_cast<const Add &>(e).get_dict())
            if (has_reciprocal_power_of_sum(*p.first))
                return true;
    } else if (is_a<Mul>(e)) {
        for (auto &p : down_cast<const Mul &>(e).get_dict())
            if (pw(*p.first, *p.second))
                return true;
    } else if (is_a<Pow>(e))
        return pw(*down_cast<const Pow &>(e).get_base(), *down_cast<const Pow &>(e).get_exp());
    return false;
}

// the whole battery on one input expression e with exact model m
static void check_expand(const RCP<const Basic> &e, const Model &m, const std::string &recipe, Ctx &c)
{
    // everything here except the two expand() calls is the check's own exact arithmetic (fractions of Laurent
    // dictionaries can blow up for 16th powers): a wall-limit overrun there is "not judged", not a library hang
    c.oracle(true);
    if (contains_nonfinite(*e) || !m.ok) {
        c.count(K_NONFINITE);
        c.outcome("input-nonfinite");
        // tree non-finite while the exact model is finite: the oracle (or a constructor) is wrong -> self-check alarm.
        // The other direction is legitimate: the constructors need not see that a base is identically zero
        // (x + 1/x - (x + 1/x) keeps a nested sum), so 1/0 can hide in a finite-looking tree; such an input has no
        // value and the property says nothing about it: counted, not judged.
        if (contains_nonfinite(*e) && m.ok)
            c.violation("oracle-selfcheck:pole-disagreement",
                        recipe + " = " + sstr(e) + ": the constructed tree is non-finite but the exact model is finite");
        else if (!contains_nonfinite(*e))
            c.outcome("input-hidden-division-by-zero");
        return;
    }
    const std::string icls = input_class(*e);
    // model self-check (guards the oracle, not the library): model value == RefEval(e) at grid points 0 and 2.
    // Only gross disagreement counts (relative 1e-9): expanded denominators can be ill-conditioned.
    for (int g = 0; g < 3; g += 2) {
        Value v = refeval(*e, G[g]);
        if (!v.ok)
            continue;
        rq sc = 0;
        cq nv = poly_val(m.n, G[g], sc), dv = poly_val(m.d, G[g], sc);
        if (absq(dv) < 1e-6Q * sc || absq(nv) < 1e-6Q * sc) {
            c.count(K_SELFCHECK_ILL);
            continue;
        }
        cq mv = nv / dv;
        c.count(K_SELFCHECK);
        if (!closeq(mv, v.v, 1e-9Q, 0)) {
            c.violation("oracle-selfcheck:model-differs-from-constructed-tree:" + icls,
                        recipe + " = " + sstr(e) + " [" + key(*e) + "]: exact model " + model_str(m) + " evaluates to " + cstr(mv)
                            + " but the constructed tree to " + cstr(v.v) + " at grid point " + std::to_string(g));
            return;
        }
    }
    RCP<const Basic> r;
    c.eval();
    try {
        c.oracle(false);
        r = expand(e);
        c.oracle(true);
    } catch (SymEngineException &x) {
        c.oracle(true);
        c.count(K_REFUSED);
        c.outcome(std::string("throw:") + x.what());
        c.violation("expand:throws:" + icls, "expand(" + recipe + ") throws " + x.what());
        return;
    }
    const std::string ke = key(*e), kr = key(*r);
    if (ke != kr) {
        c.nontrivial();
        c.count(K_CHANGED);
    }
    const std::string head = "expand(" + recipe + ")  [input " + sstr(e) + "] = " + sstr(r) + " [" + kr + "]";
    // 1. value, exactly
    Reader rd;
    Model back = rd.read(*r);
    if (rd.st != RD_OK) {
        c.violation("expand:result-outside-generator-algebra:" + icls, head + ": " + rd.why);
        return;
    }
    c.count(m.laurent && back.laurent ? K_EXACT_LAURENT : K_EXACT_FRACTION);
    if (!m_equal(back, m)) {
        c.violation("expand:value:" + icls + ":top=" + top_class(*e), head + ": read back as " + model_str(back) + " but the exact model of the input is " + model_str(m));
        return;
    }
    // 2. completeness
    c.count(K_COMPLETE);
    std::string inc = incomplete(*r);
    if (!inc.empty()) {
        c.violation("expand:incomplete:" + inc + ":" + icls, head + ": " + inc);
        return;
    }
    // 3. idempotence
    c.eval();
    c.count(K_IDEM);
    c.oracle(false);
    RCP<const Basic> r2 = expand(r);
    c.oracle(true);
    std::string kr2 = key(*r2);
    if (kr2 != kr || !eq(*r, *r2)) {
        c.violation(std::string("expand:not-idempotent:")
                        + (has_reciprocal_power_of_sum(*r) ? "result-keeps-unexpanded-reciprocal-power-of-sum:" : "other:") + icls,
                    head + " but expanding that again gives " + sstr(r2) + " [" + kr2 + "]");
        return;
    }
    // 4. canonical form generated from the model (decides identity): only for inputs that are syntactically (Laurent)
    // polynomials over the atoms -- the class for which the property promises it
    bool xy_only = true;
    if (syntactic_laurent(*e, xy_only) && m.laurent) {
        std::string want = canon_key(m.n);
        c.count(K_CANON);
        if (xy_only)
            c.count(K_CANON_STRICT);
        if (want != kr) {
            c.violation(std::string("expand:not-canonical:") + (xy_only ? "polynomial-in-symbols" : "polynomial-with-f-or-sqrt2") + ":top="
                            + top_class(*e),
                        head + ": the canonical form of the model " + model_str(m) + " has key " + want);
            return;
        }
    }
    c.outcome(type_code_name(r->get_type_code()) + "/" + std::to_string(std::min<size_t>(r->get_args().size(), 12)) + "/" + icls + "/"
              + (m.laurent ? "laurent" : "fraction") + (ke != kr ? "/changed" : "/same"));
    if (c.index % 20011 == 0)
        c.sample("{\"recipe\":" + jstr(recipe) + ",\"input\":" + jstr(sstr(e)) + ",\"expand\":" + jstr(sstr(r)) + ",\"model\":"
                 + jstr(model_str(m)) + "}");
}

int main(int argc, char **argv)
{
    init(argc, argv, "C09");
    const int N = opts().thorough() ? 4 : 3;
    G = complex_grid();
    X = symbol("x");
    Y = symbol("y");
    FX = function_symbol("f", X);
    ONE_PLUS_X = add(integer(1), X);
    Run &Rn = run();

    auto gen1 = [](int w) { return m_gen(w); };
    auto cst = [](const GQ &g) { return m_const(g); };
    struct L0 {
        const char *name;
        RCP<const Basic> e;
        Model m;
    };
    std::vector<L0> leaves = {{"x", X, gen1(0)},
                              {"y", Y, gen1(1)},
                              {"1", integer(1), cst(GQ{1, 0})},
                              {"-2", integer(-2), cst(GQ{-2, 0})},
                              {"1/2", Rational::from_two_ints(1, 2), cst(GQ{mpq_class(1, 2), 0})},
                              {"I", I, cst(GQ{0, 1})},
                              {"f(x)", FX, gen1(2)},
                              {"sqrt(2)", sqrt(integer(2)), gen1(3)},
                              {"sqrt(1+x)", sqrt(ONE_PLUS_X), gen1(4)},
                              // structured leaves: sums whose cross products cancel to a NUMBER (x * 1/x), the special branch of
                              // mul_expand_two / pow_expand; from atoms they need 5-7 operations before a coefficient and an outer sum
                              // can be wrapped around their product (added after seeded change C09 escaped the atom-only alphabet)
                              {"x+1/x", add(X, pow(X, integer(-1))), m_add(gen1(0), m_pow(gen1(0), -1))},
                              {"y+1/x", add(Y, pow(X, integer(-1))), m_add(gen1(1), m_pow(gen1(0), -1))}};
    for (auto &l : leaves) {
        bool fresh;
        SS.add(l.e, l.name, 0, &fresh);
        if (fresh)
            SM.push_back(l.m);
    }
    std::string bound;
    std::vector<std::string> cn = counter_names();
    size_t first_of_layer = 0;

    for (int L = 0; L <= N && !past_deadline(); L++) {
        std::vector<Tr> T;
        if (L > 0)
            transitions_of_layer(L, T);
        if (L < N) {
            // ---- pass A: construct only (crash isolation + constructor/model consistency), then build the states
            if (L > 0) {
                CaseSet ca;
                ca.name = "construct:L" + std::to_string(L);
                ca.n = (long long)T.size();
                ca.counter_names = {"constructor_calls_for_state_building"};
                ca.desc = [&](long long i) { return tr_recipe(T[i]); };
                ca.body = [&](long long i, Ctx &c) {
                    RCP<const Basic> e = tr_apply(T[i]);
                    c.count(0);
                    (void)key(*e);
                };
                run_cases(ca);
                first_of_layer = SS.size();
                for (size_t i = 0; i < T.size(); i++) {
                    if (ca.bad.count((long long)i))
                        continue;
                    RCP<const Basic> e = tr_apply(T[i]);
                    if (contains_nonfinite(*e)) {
                        Rn.counters["transitions_to_nonfinite_state(not expanded)"]++;
                        continue;
                    }
                    bool fresh;
                    SS.add(e, tr_recipe(T[i]), L, &fresh);
                    if (fresh)
                        SM.push_back(tr_model(T[i]));
                }
            }
            Rn.counters["states_depth<=" + std::to_string(L)] = SS.size();
            // ---- pass B: the expand battery on every new distinct state of this depth
            CaseSet cb;
            cb.name = "expand:S" + std::to_string(L);
            cb.n = (long long)(SS.size() - first_of_layer);
            cb.counter_names = cn;
            cb.desc = [&](long long i) { return "expand(" + SS.S[first_of_layer + i].recipe + ")"; };
            cb.crash_sig = [&](long long i, const std::string &oc) { return "expand:" + oc + ":" + input_class(*SS.S[first_of_layer + i].e); };
            cb.body = [&](long long i, Ctx &c) {
                const State &s = SS.S[first_of_layer + i];
                check_expand(s.e, SM[first_of_layer + i], s.recipe, c);
            };
            run_cases(cb);
            if (Rn.exhaustive)
                bound = "every distinct state with <= " + std::to_string(L) + " operations (" + std::to_string(SS.size()) + " states)";
        } else {
            // ---- last layer: every transition into depth N is constructed and expanded in the worker (states are not
            // stored; the same state may be reached and checked through several recipes)
            CaseSet cl;
            cl.name = "expand:T" + std::to_string(L);
            cl.n = (long long)T.size();
            cl.counter_names = cn;
            cl.hang_s = 60; // the exact model of a 16th power of a three-term fraction takes about a minute
            cl.desc = [&](long long i) { return "expand(" + tr_recipe(T[i]) + ")"; };
            cl.crash_sig = [&](long long i, const std::string &oc) {
                return "expand:" + oc + ":" + std::string(T[i].op == T_POW ? "pow" : T[i].op == T_ADD ? "add" : "mul");
            };
            cl.body = [&](long long i, Ctx &c) {
                RCP<const Basic> e = tr_apply(T[i]);
                c.oracle(true);
                Model tm = tr_model(T[i]);
                check_expand(e, tm, tr_recipe(T[i]), c);
                c.oracle(false);
            };
            run_cases(cl);
            Rn.counters["transitions_into_depth_" + std::to_string(L)] = T.size();
            if (Rn.exhaustive)
                bound = "every recipe with <= " + std::to_string(L) + " operations: all distinct states of depth <= " + std::to_string(L - 1) + " ("
                        + std::to_string(SS.size()) + ") and all " + std::to_string(T.size()) + " transitions into depth " + std::to_string(L);
        }
    }

    // ---- decision table: all pairs of stored polynomial states (generators x, y only), simplest first
    if (!past_deadline()) {
        std::vector<int> P;
        for (size_t i = 0; i < SS.size(); i++) {
            if (!SM[i].ok || !SM[i].laurent)
                continue;
            bool xy = true;
            if (syntactic_laurent(*SS.S[i].e, xy) && xy)
                P.push_back((int)i);
        }
        const size_t cap = opts().thorough() ? 6000 : 3000;
        Rn.counters["polynomial_states_available_for_pair_table"] = P.size();
        if (P.size() > cap)
            P.resize(cap);
        std::vector<RCP<const Basic>> EX(P.size());
        std::vector<std::string> MS(P.size());
        for (size_t i = 0; i < P.size(); i++) {
            EX[i] = expand(SS.S[P[i]].e); // executed safely in pass B above
            MS[i] = poly_str(SM[P[i]].n);
        }
        CaseSet cp;
        cp.name = "pairs";
        cp.n = (long long)P.size();
        cp.counter_names = {"pairs_eq_vs_model", "pairs_with_equal_model"};
        cp.desc = [&](long long i) { return "row " + SS.S[P[i]].recipe + " of the eq(expand a, expand b) <=> model(a)=model(b) table"; };
        cp.body = [&](long long i, Ctx &c) {
            for (size_t j = (size_t)i; j < P.size(); j++) {
                bool me = MS[i] == MS[j];
                bool ee = eq(*EX[i], *EX[j]), ee2 = eq(*EX[j], *EX[i]);
                c.count(0);
                if (me)
                    c.count(1);
                if (ee != me || ee2 != me) {
                    c.violation(std::string("expand:decides-identity:") + (me ? "equal-polynomials-expand-differently" : "different-polynomials-expand-equal"),
                                "a = " + SS.S[P[i]].recipe + ", b = " + SS.S[P[j]].recipe + ": expand(a) = " + sstr(EX[i]) + ", expand(b) = "
                                    + sstr(EX[j]) + ", eq = " + (ee ? "true" : "false") + "/" + (ee2 ? "true" : "false") + " but model(a) = " + MS[i]
                                    + ", model(b) = " + MS[j]);
                    return;
                }
            }
            c.eval();
            c.outcome("pair-row-ok");
        };
        run_cases(cp);
        Rn.counters["pair_table_rows"] = P.size();
    }

    Rn.states = SS.size();
    Rn.transitions = Rn.evaluations;
    Rn.bound_completed = bound;
    Rn.rule = "E1: leaves {x, y, 1, -2, 1/2, I, f(x), sqrt(2), sqrt(1+x), x+1/x, y+1/x}; operations add(a,b), mul(a,b), pow(a,k) k in {-3,-2,-1,2,3,4}; states "
              "de-duplicated by structural key; every state (every transition in the last layer) e is expanded and checked: (1) value: "
              "expand(e) read back by an independent tree walk into an exact fraction of dictionaries (mpq Gaussian coefficients, "
              "sqrt(2)^2=2, sqrt(1+x)^2=1+x) equals the exact model of the recipe (cross-multiplication); (2) completeness: no Add stored as a "
              "term of an Add, no Add with positive integer exponent (alone or as a factor), outside function arguments; (3) "
              "expand(expand(e)) has the same key and is eq; (4) for Laurent recipes without sqrt(1+x) the key of expand(e) equals the key "
              "generated from the model dictionary (unique canonical form => equal polynomials expand equal); (5) all-pairs eq table on stored "
              "polynomial states. distinct_nontrivial = inputs that expand changed.";
    Rn.assumptions = {"GMP rational arithmetic", "key.h structural key", "RefEval only guards the model (gross self-check against each operand tree)",
                      "generators f(x), sqrt(2), sqrt(1+x) are algebraically independent apart from the two stated relations",
                      "recipes deeper than the bound and other leaves are not covered"};
    return Rn.finish();
}
