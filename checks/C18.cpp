// C18  Parsing arbitrary input is safe; parser reuse is stateless -- E4 + E2 in the asan build (DESIGN 5 C18)
//
// (a) every byte string of length <= L over a class-representative 30-byte alphabet,
// (b) every token sequence of length <= T over a ~20-token menu (tokens separated by one blank),
//     each given to parse(s), parse(s, convert_xor=false) (when s contains '^') and parse_sbml(s), both as is and
//     behind 32 blanks (so that the copy held by the parser lives in an exactly sized heap block and a
//     tokenizer that runs past the terminating NUL is seen by ASan);
//     oracle: returns an expression or throws a SymEngineException; no signal, sanitizer report, foreign
//     exception or stall; the padded and the unpadded run agree.
// (c) every history of <= d inputs from a pool on ONE Parser / SbmlParser object: every answer (structural key or
//     exception text) equals the answer of a fresh parser.
//
// Crash isolation: the known defect class (boolean operator / function applied to a non-Boolean operand: an
// unchecked rcp_static_cast<const Boolean>) is first seen by UBSan's vptr check.  The driver supplies its own
// handler for that check (see below), which records the event and longjmps out, so these inputs -- 10-50 % of
// some enumerations -- do not kill the worker.  Anything else that goes wrong (ASan report, signal, stall) kills
// or stalls the worker and is caught, re-run alone and reported by the framework.  VERIF_C18_NOHOOK=1 disables
// the handler: inputs containing a boolean operator are then run one per forked child instead.
#include "common.h"
#include "key.h"
#include <symengine/parser/parser.h>
#include <symengine/parser/sbml/sbml_parser.h>
#include <poll.h>
#include <dlfcn.h>
#include <cxxabi.h>
#include <setjmp.h>
using namespace verif;

extern "C" const char *__asan_default_options()
{
    // only in the cross-validation mode do thousands of expected reports reach the sanitizer runtime; otherwise
    // reports are rare and the framework extracts the call site from the symbolized summary
    // a small quarantine keeps the allocator re-using warm pages (every parse allocates and frees a few dozen blocks;
    // with the default 256 MB quarantine each of them faults in fresh memory); use-after-free inside one parse or
    // between consecutive parses is still within the window
    return getenv("VERIF_C18_NOHOOK") ? "symbolize=0:quarantine_size_mb=16" : "quarantine_size_mb=16";
}

enum Entry { E_PARSE = 0, E_NOXOR = 1, E_SBML = 2 };
static const char *ENAME[] = {"parse", "parse(convert_xor=false)", "parse_sbml"};

struct Out {
    int cls = 0; // 0 returned, 1 SymEngineException, 2 other std::exception, 3 foreign exception, 4 signal, 5 hang
    std::string text;
};
static const char *CLSN[] = {"returns", "throws SymEngineException", "throws non-library std::exception", "throws non-std exception",
                             "killed by signal", "hang", "UBSan bad cast (trapped)"};

// ------------------------------------------------------------------ in-process trap for UBSan's vptr check
// The library is compiled with -fsanitize=vptr -fno-sanitize-recover, so a static_cast to a class the object does
// not have calls __ubsan_handle_dynamic_type_cache_miss_abort.  This driver defines that symbol itself (the
// executable's definition wins over libubsan's): it performs the same slow-path test as the runtime (is the
// dynamic type the target type or derived from it?), refreshes the cache when the cast is fine, and otherwise
// records the target type and the calling function and longjmps back to the case runner -- the check still
// fires on the real code at the real place, but the worker survives, so a defect class that hits 10-50 % of
// the inputs does not cost one process per input.  VERIF_C18_NOHOOK=1 forwards to the real runtime handler
// instead (the process then aborts and the fork isolation below is used); both modes must agree.
extern "C" uintptr_t __ubsan_vptr_type_cache[128];
extern "C" void __sanitizer_symbolize_pc(void *pc, const char *fmt, char *out, size_t n);
static sigjmp_buf g_jmp;
static volatile int g_armed = 0;
static char g_trap[600];
static bool g_nohook = false;
__attribute__((no_sanitize("undefined"))) static std::string symbolize_outer(void *pc)
{
    static std::map<void *, std::string> cache;
    auto it = cache.find(pc);
    if (it != cache.end())
        return it->second;
    char buf[4096];
    memset(buf, 0, sizeof buf);
    __sanitizer_symbolize_pc(pc, "%f", buf, sizeof buf - 2);
    std::string last;
    for (size_t i = 0; i < sizeof buf - 1 && buf[i];) {
        last = buf + i;
        i += last.size() + 1;
    }
    // strip the argument list: class signature must not depend on spelling of parameters
    size_t par = last.find('(');
    if (par != std::string::npos)
        last = last.substr(0, par);
    return cache[pc] = last.empty() ? "??" : last;
}
extern "C" __attribute__((no_sanitize("undefined"))) void __ubsan_handle_dynamic_type_cache_miss_abort(void *data, void *ptr_, void *hash_)
{
    uintptr_t ptr = (uintptr_t)ptr_, hash = (uintptr_t)hash_;
    struct D {
        const char *file;
        uint32_t line, col;
        const char *type_desc; // TypeDescriptor: u16 kind, u16 info, char name[]
        void *typeinfo;
        unsigned char kind;
    };
    typedef void (*real_t)(void *, void *, void *);
    if (g_nohook) {
        static real_t real = (real_t)dlsym(RTLD_NEXT, "__ubsan_handle_dynamic_type_cache_miss_abort");
        real(data, ptr_, hash_);
        return;
    }
    D *d = (D *)data;
    // Own decision only inside a guarded parser call and only for casts to SymEngine classes (plain single
    // inheritance, where the test below is exact); everything else -- iostreams with virtual bases, objects under
    // construction, ... -- is left to the sanitizer runtime, which aborts if the cast is really bad.
    {
        const char *tn = ((const std::type_info *)d->typeinfo)->__name;
        if (!g_armed || strncmp(tn + (tn[0] == '*'), "N9SymEngine", 11) != 0) {
            static real_t real = (real_t)dlsym(RTLD_NEXT, "__ubsan_handle_dynamic_type_cache_miss_abort");
            real(data, ptr_, hash_);
            return;
        }
    }
    bool ok = false;
    const std::type_info *dyn = nullptr;
    if (ptr) {
        void **vtable = *(void ***)ptr;
        if (vtable) {
            dyn = (const std::type_info *)vtable[-1];
            ptrdiff_t off = ((ptrdiff_t *)vtable)[-2];
            const std::type_info *target = (const std::type_info *)d->typeinfo;
            if (dyn) {
                // (type_info::operator== and name() are instrumented out-of-line functions: compare the raw names)
                const char *a = dyn->__name, *b = target->__name;
                if (off == 0 && (a == b || (a[0] != '*' && strcmp(a, b) == 0)))
                    ok = true;
                else {
                    void *obj = (char *)ptr + off; // most derived object
                    ok = dyn->__do_upcast((const __cxxabiv1::__class_type_info *)target, &obj) && obj == (void *)ptr;
                }
            }
        }
    }
    if (ok) {
        __ubsan_vptr_type_cache[hash % 128] = hash;
        return;
    }
    void *ra = (char *)__builtin_return_address(0) - 1;
    std::string fn = symbolize_outer(ra);
    int st = 0;
    char *dn = dyn ? abi::__cxa_demangle(dyn->__name + (dyn->__name[0] == '*'), nullptr, nullptr, &st) : nullptr;
    std::string note = std::string("cast to ") + (d->type_desc + 4) + " of an object of dynamic type " + (dn ? dn : "?") + " in " + fn + " (" + d->file + ":"
                       + std::to_string(d->line) + ")";
    snprintf(g_trap, sizeof g_trap, "%s\t%s\t%s", d->type_desc + 4, fn.c_str(), note.c_str());
    free(dn);
    siglongjmp(g_jmp, 1);
}

static RCP<const Basic> call(Entry e, const std::string &s)
{
    switch (e) {
        case E_PARSE:
            return parse(s);
        case E_NOXOR:
            return parse(s, false);
        default:
            return parse_sbml(s);
    }
}
static Out run_inproc_raw(Entry e, const std::string &s);
static Out run_inproc(Entry e, const std::string &s)
{
    if (g_nohook)
        return run_inproc_raw(e, s);
    if (sigsetjmp(g_jmp, 0) == 0) {
        g_armed = 1;
        Out o = run_inproc_raw(e, s);
        g_armed = 0;
        return o;
    }
    g_armed = 0;
    Out o;
    o.cls = 6;
    o.text = g_trap; // "type \t function \t note"
    return o;
}
__attribute__((noinline)) static Out run_inproc_raw(Entry e, const std::string &s)
{
    Out o;
    try {
        RCP<const Basic> r = call(e, s);
        o.text = key(*r);            // walks the whole result: a dangling node would be seen by ASan
        (void)r->__hash__();
    } catch (SymEngineException &x) {
        o.cls = 1;
        o.text = x.what();
    } catch (std::exception &x) {
        o.cls = 2;
        o.text = std::string(typeid(x).name()) + ":" + x.what();
    } catch (...) {
        o.cls = 3;
    }
    return o;
}
static bool g_quiet = true;
// one input in a forked child; the child reports class + text through a pipe
static Out run_forked(Entry e, const std::string &s, double limit_s = 60)
{
    int fd[2];
    Out o;
    if (pipe(fd) != 0) {
        o.cls = 5;
        o.text = "pipe failed";
        return o;
    }
    fflush(stdout);
    pid_t p = fork();
    if (p == 0) {
        close(fd[0]);
        if (g_quiet) {
            int nul = open("/dev/null", O_WRONLY);
            dup2(nul, 2);
        }
        Out r = run_inproc(e, s);
        std::string msg = std::to_string(r.cls) + "\n" + r.text;
        if (msg.size() > 60000)
            msg.resize(60000);
        ssize_t w = write(fd[1], msg.data(), msg.size());
        (void)w;
        _exit(0);
    }
    close(fd[1]);
    std::string buf;
    double t0 = now();
    bool hung = false;
    for (;;) {
        struct pollfd pf = {fd[0], POLLIN, 0};
        int pr = poll(&pf, 1, 200);
        if (pr > 0) {
            char b[4096];
            ssize_t n = read(fd[0], b, sizeof b);
            if (n <= 0)
                break;
            buf.append(b, n);
        } else if (now() - t0 > limit_s) {
            kill(p, SIGKILL);
            hung = true;
            break;
        }
    }
    close(fd[0]);
    int st = 0;
    waitpid(p, &st, 0);
    if (hung) {
        o.cls = 5;
        return o;
    }
    if (WIFSIGNALED(st)) {
        o.cls = 4;
        o.text = strsignal(WTERMSIG(st));
        return o;
    }
    size_t nl = buf.find('\n');
    if (nl == std::string::npos) {
        o.cls = 4;
        o.text = "child exited without answer (status " + std::to_string(st) + ")";
        return o;
    }
    o.cls = atoi(buf.c_str());
    o.text = buf.substr(nl + 1);
    return o;
}

// ------------------------------------------------------------------ known defect class: triggers and explanation
static bool g_isolate[3] = {false, false, false};
static std::string lower(std::string s)
{
    for (auto &c : s)
        c = tolower((unsigned char)c);
    return s;
}
static const char *SBML_BOOLFN[] = {"piecewise", "and", "not", "xor", "or"};
static bool has_trigger(Entry e, const std::string &s)
{
    if (e == E_SBML) {
        if (s.find_first_of("!&|") != std::string::npos)
            return true;
        std::string l = lower(s);
        for (const char *f : SBML_BOOLFN)
            if (l.find(f) != std::string::npos)
                return true;
        return false;
    }
    return s.find_first_of(e == E_NOXOR ? "~&|^" : "~&|") != std::string::npos;
}
// the same input with every boolean operator replaced by an arithmetic operator of the same arity (and, for
// parse_sbml, every boolean function name by an undefined function): if that still crashes, the crash is NOT
// explained by the unchecked Boolean cast.
static std::string neutralise(Entry e, const std::string &s)
{
    std::string o;
    if (e == E_SBML) {
        std::string t = s, l = lower(s);
        for (const char *f : SBML_BOOLFN) {
            size_t n = strlen(f), p = 0;
            while ((p = l.find(f, p)) != std::string::npos) {
                for (size_t k = 0; k < n; k++)
                    t[p + k] = l[p + k] = 'q';
                p += n;
            }
        }
        for (size_t i = 0; i < t.size(); i++) {
            char c = t[i];
            if (c == '!' && !(i + 1 < t.size() && t[i + 1] == '='))
                o += '-';
            else if ((c == '&' || c == '|') && i + 1 < t.size() && t[i + 1] == c) {
                o += '+';
                i++;
            } else
                o += c;
        }
        return o;
    }
    for (char c : s) {
        if (c == '~')
            o += '-';
        else if (c == '&' || c == '|' || (c == '^' && e == E_NOXOR))
            o += '+';
        else
            o += c;
    }
    return o;
}
// class-of-bytes shape of an input, runs collapsed (signature of unexplained crashes)
static std::string shape(const std::string &s)
{
    std::string o;
    char last = 0;
    for (unsigned char c : s) {
        char k;
        if (c == 0)
            k = 'N';
        else if (isdigit(c))
            k = '9';
        else if (isalpha(c) || c == '_' || c >= 0x80)
            k = 'a';
        else if (isspace(c))
            k = ' ';
        else if (c < 0x20)
            k = 'C';
        else
            k = c;
        if (k != last || !(k == '9' || k == 'a' || k == ' '))
            o += k;
        last = k;
    }
    return o.substr(0, 40);
}

static bool first_of_class(const std::string &sig)
{
    static std::map<std::string, int> seen;
    return seen[sig]++ < 2;
}

enum { K_RUNS, K_RET, K_SEEXC, K_FORKED, K_CRASH_KNOWN, K_CRASH_OTHER, K_NOXOR_RUNS, K_PADDED_AGREE, K_HIST, K_HIST_PARSES, K_FOREIGN, K_TRAP };
static std::vector<std::string> CN = {"parser_runs",
                                      "runs_returned_expression",
                                      "runs_threw_library_exception",
                                      "runs_isolated_in_forked_child(boolean-operator inputs while defect present)",
                                      "runs_crashed:boolean-operator-on-non-boolean",
                                      "runs_crashed_or_hung:other",
                                      "runs_with_convert_xor=false",
                                      "padded_and_unpadded_runs_compared",
                                      "reuse_histories",
                                      "reuse_parses_compared_with_fresh_parser",
                                      "runs_threw_non_library_exception",
                                      "runs_stopped_by_UBSan_bad_cast(trapped in-process)"};

static const std::string PAD(32, ' ');

// run one input through one entry point (as is and padded), judge, report
static void judge(Entry e, const std::string &s, const std::string &what, Ctx &c)
{
    Out o[2];
    bool iso = g_isolate[e] && has_trigger(e, s);
    for (int pad = 0; pad < 2; pad++) {
        std::string in = pad ? PAD + s : s;
        c.eval();
        c.count(K_RUNS);
        if (e == E_NOXOR)
            c.count(K_NOXOR_RUNS);
        if (iso) {
            c.count(K_FORKED);
            o[pad] = run_forked(e, in);
        } else
            o[pad] = run_inproc(e, in);
        Out &r = o[pad];
        if (r.cls == 0) {
            c.count(K_RET);
            c.nontrivial();
        } else if (r.cls == 1)
            c.count(K_SEEXC);
        c.outcome(std::string(ENAME[e]) + ":" + CLSN[r.cls] + (r.cls == 1 ? ":" + r.text.substr(0, 40) : r.cls == 0 ? ":" + r.text.substr(0, 6) : ""));
        if (r.cls == 2 || r.cls == 3) {
            c.count(K_FOREIGN);
            std::string sig = std::string("non-library-exception:") + ENAME[e] + ":" + (r.cls == 3 ? "non-std" : r.text.substr(0, r.text.find(':')));
            if (first_of_class(sig))
                c.violation(sig, std::string(ENAME[e]) + "(" + jstr(in) + ") [" + what + "] " + CLSN[r.cls] + " " + r.text);
        } else if (r.cls == 6) {
            c.count(K_TRAP);
            size_t t1 = r.text.find('\t'), t2 = r.text.find('\t', t1 + 1);
            std::string sig = "ubsan-bad-cast-to-" + r.text.substr(0, t1) + "-in:" + r.text.substr(t1 + 1, t2 - t1 - 1);
            if (first_of_class(sig))
                c.violation(sig, std::string(ENAME[e]) + "(" + jstr(in) + ") [" + what + "]: undefined behaviour, " + r.text.substr(t2 + 1));
        } else if (r.cls >= 4) {
            // crash or hang inside the forked child: explained by the known class?
            bool known = false;
            if (r.cls == 4) {
                Out n = run_forked(e, neutralise(e, in));
                known = n.cls < 4;
            }
            std::string sig;
            if (known) {
                c.count(K_CRASH_KNOWN);
                sig = std::string("crash:") + ENAME[e] + ":boolean-operator-on-non-boolean";
            } else {
                c.count(K_CRASH_OTHER);
                sig = std::string(r.cls == 5 ? "hang:" : "crash:") + ENAME[e] + ":unexplained:" + shape(s);
            }
            if (first_of_class(sig))
                c.violation(sig, std::string(ENAME[e]) + "(" + jstr(in) + ") [" + what + "] " + CLSN[r.cls] + " " + r.text
                                     + (known ? "; the same input with the boolean operators/functions replaced by arithmetic ones does not crash" : ""));
        }
    }
    c.count(K_PADDED_AGREE);
    if (o[0].cls != 4 && o[0].cls != 5 && o[1].cls != 4 && o[1].cls != 5 && (o[0].cls != o[1].cls || (o[0].cls == 0 && o[0].text != o[1].text))) {
        std::string sig = std::string("leading-blanks-change-result:") + ENAME[e];
        if (first_of_class(sig))
            c.violation(sig, std::string(ENAME[e]) + "(" + jstr(s) + ") " + CLSN[o[0].cls] + " " + o[0].text + " but with 32 leading blanks "
                                 + CLSN[o[1].cls] + " " + o[1].text);
    }
}

// ------------------------------------------------------------------ enumerations
struct Strings {
    std::vector<std::string> alpha; // alphabet (bytes or tokens)
    std::string sep;                // separator between symbols
    int maxlen;
    std::vector<long long> first;   // first index of each length
    long long total = 0;
    void build()
    {
        long long n = 1;
        first.clear();
        total = 0;
        for (int l = 0; l <= maxlen; l++) {
            first.push_back(total);
            total += n;
            n *= (long long)alpha.size();
        }
    }
    std::string at(long long i) const
    {
        int l = 0;
        while (l + 1 <= maxlen && first[l + 1] <= i)
            l++;
        long long r = i - first[l];
        std::vector<int> d(l);
        for (int k = l - 1; k >= 0; k--) {
            d[k] = r % (long long)alpha.size();
            r /= (long long)alpha.size();
        }
        std::string s;
        for (int k = 0; k < l; k++) {
            if (k)
                s += sep;
            s += alpha[d[k]];
        }
        return s;
    }
};

static void phase(const std::string &what)
{
    fprintf(stderr, "[C18] t=%.1fs %s\n", now() - opts().t0, what.c_str());
}
static void run_strings(const std::string &name, const Strings &S, bool sbml)
{
    phase("start " + name + " (" + std::to_string(S.total) + " inputs)");
    CaseSet cs;
    cs.name = name;
    cs.n = S.total;
    cs.hang_s = 90;
    cs.counter_names = CN;
    cs.desc = [&S, sbml](long long i) { return std::string(sbml ? "parse_sbml" : "parse") + " input " + jstr(S.at(i)); };
    cs.crash_sig = [&S, sbml](long long i, const std::string &oc) {
        std::string s = S.at(i);
        return (oc == "hang" ? std::string("hang:") : "crash:") + (sbml ? "parse_sbml" : "parse") + ":unexplained(in-process " + oc + "):" + shape(s);
    };
    cs.body = [&S, sbml, name](long long i, Ctx &c) {
        std::string s = S.at(i);
        if (sbml)
            judge(E_SBML, s, name, c);
        else {
            judge(E_PARSE, s, name, c);
            if (s.find('^') != std::string::npos)
                judge(E_NOXOR, s, name, c);
        }
        if (i % 5003 == 0)
            c.sample("{\"set\":" + jstr(name) + ",\"input\":" + jstr(s) + "}");
    };
    run_cases(cs);
}

// ------------------------------------------------------------------ reuse histories
struct PoolItem {
    std::string s;
    bool xor_flag; // convert_xor argument (ignored by SbmlParser)
};
static std::string answer(const std::function<RCP<const Basic>()> &f)
{
    try {
        return "=" + key(*f());
    } catch (SymEngineException &x) {
        return std::string("!SymEngineException:") + x.what();
    } catch (std::exception &x) {
        return std::string("!std:") + typeid(x).name() + ":" + x.what();
    }
}
static void run_reuse(const std::string &name, const std::vector<PoolItem> &pool, int depth, bool sbml)
{
    Strings H; // histories = sequences of pool indices
    for (size_t k = 0; k < pool.size(); k++)
        H.alpha.push_back(std::string(1, (char)('A' + k)));
    H.maxlen = depth;
    H.build();
    CaseSet cs;
    cs.name = name;
    cs.n = H.total - 1; // skip the empty history
    cs.hang_s = 90;
    cs.counter_names = CN;
    auto hist = [H](long long i) {
        std::string h = H.at(i + 1);
        std::vector<int> v;
        for (char ch : h)
            v.push_back(ch - 'A');
        return v;
    };
    auto hdesc = [&pool, hist](long long i) {
        std::string d;
        for (int k : hist(i))
            d += (d.empty() ? "" : " ; ") + jstr(pool[k].s) + (pool[k].xor_flag ? "" : "[convert_xor=false]");
        return d;
    };
    cs.desc = [=](long long i) { return std::string(sbml ? "one SbmlParser: " : "one Parser: ") + hdesc(i); };
    cs.crash_sig = [=](long long i, const std::string &oc) { return "crash-or-hang:" + name + ":" + oc + ":history-length-" + std::to_string(hist(i).size()); };
    cs.body = [=, &pool](long long i, Ctx &c) {
        static std::map<std::pair<bool, int>, std::string> freshm; // per process: answers of a fresh parser
        std::vector<int> h = hist(i);
        auto ask_fresh = [&](int k) -> const std::string & {
            auto it = freshm.find({sbml, k});
            if (it != freshm.end())
                return it->second;
            std::string a;
            if (sbml) {
                SbmlParser p;
                a = answer([&] { return p.parse(pool[k].s); });
            } else {
                Parser p;
                a = answer([&] { return p.parse(pool[k].s, pool[k].xor_flag); });
            }
            return freshm[{sbml, k}] = a;
        };
        c.count(K_HIST);
        if (h.size() >= 2)
            c.nontrivial();
        std::unique_ptr<Parser> P;
        std::unique_ptr<SbmlParser> SP;
        if (sbml)
            SP.reset(new SbmlParser());
        else
            P.reset(new Parser());
        for (size_t j = 0; j < h.size(); j++) {
            int k = h[j];
            std::string got = sbml ? answer([&] { return SP->parse(pool[k].s); }) : answer([&] { return P->parse(pool[k].s, pool[k].xor_flag); });
            c.eval();
            c.count(K_HIST_PARSES);
            const std::string &want = ask_fresh(k);
            c.outcome("reuse:" + got.substr(0, 30));
            if (got != want) {
                std::string prev = j == 0 ? "first-use" : std::string("after-") + (ask_fresh(h[j - 1])[0] == '=' ? "success" : "failure");
                c.violation("reuse-differs:" + std::string(sbml ? "SbmlParser" : "Parser") + ":" + prev,
                            "history " + hdesc(i) + ": answer #" + std::to_string(j + 1) + " of the reused parser is " + got + " but a fresh parser answers " + want);
                break;
            }
        }
        if (i % 2003 == 0)
            c.sample("{\"set\":" + jstr(name) + ",\"history\":" + jstr(hdesc(i)) + "}");
    };
    run_cases(cs);
}

int main(int argc, char **argv)
{
#ifndef C18_PID
#define C18_PID "C18"
#endif
    init(argc, argv, C18_PID);
    bool thorough = opts().thorough();
    Run &R = run();
    R.level = "fault_enumeration";
    struct rlimit rl = {0, 0};
    setrlimit(RLIMIT_CORE, &rl);
    g_quiet = !replaying() && !getenv("VERIF_C18_SHOW");
    g_nohook = getenv("VERIF_C18_NOHOOK") != nullptr;
    R.counters["mode:ubsan_vptr_trap_in_process"] = !g_nohook;
    if (!g_nohook)
        (void)symbolize_outer((void *)&run_inproc_raw); // load the symbolizer's tables once, before the workers fork

    // ---------------- start-up probe for the known defect class (forked, so the parent survives)
    {
        const char *probe[3] = {"~x", "x^y", "!x"};
        for (int e = 0; e < 3; e++) {
            Out o = run_forked((Entry)e, probe[e]);
            g_isolate[e] = g_nohook && o.cls >= 4;
            R.counters[std::string("probe:") + ENAME[e] + "(\"" + probe[e] + "\")_crashes=>isolate_boolean_operator_inputs"] = g_isolate[e];
        }
        if (replaying())
            for (int e = 0; e < 3; e++)
                g_isolate[e] = g_nohook; // a replayed case is always run isolated so that its class can be determined
    }

    // ---------------- (c) reuse histories first: small
    std::vector<PoolItem> pool = {{"x", true},
                                  {"x + 1", true},
                                  {"2x", true},
                                  {"2x**3", true},
                                  {"x^2", true},
                                  {"(x<y) ^ (y<x)", false},
                                  {"sin(x)", true},
                                  {"f(x, y)", true},
                                  {"Piecewise((x, x<1), (y, True))", true},
                                  {"And(x<1, y<2)", true},
                                  {"(x<1) & (y<2)", true},
                                  {"1.5e3", true},
                                  {"010", true},
                                  {"", true},
                                  {"x +", true},
                                  {"(x", true},
                                  {"x)", true},
                                  {"sin(x,", true},
                                  {"Piecewise((x, y", true},
                                  {"Piecewise((x, y))", true},
                                  {"Not(1)", true},
                                  {"x $ y", true},
                                  {"1 2", true},
                                  {"I < 1", true},
                                  {"a_rather_long_identifier_beyond_sso + another_rather_long_identifier", true}};
    std::vector<PoolItem> spool = {{"x", true},
                                   {"x + 1", true},
                                   {"x^2", true},
                                   {"x % 2", true},
                                   {"sin(x)", true},
                                   {"plus()", true},
                                   {"piecewise(x, x<1, y)", true},
                                   {"and(x<1, y<2)", true},
                                   {"(x<1) && (y<2)", true},
                                   {"1.5e3", true},
                                   {"", true},
                                   {"x +", true},
                                   {"(x", true},
                                   {"f(x,", true},
                                   {"lt(x)", true},
                                   {"x $ y", true},
                                   {"2x", true},
                                   {"a_rather_long_identifier_beyond_sso + another_rather_long_identifier", true}};
    int depth = thorough ? 4 : 3;
    phase("probes and symbolizer warm-up done");
    run_reuse("reuse:Parser", pool, depth, false);
    run_reuse("reuse:SbmlParser", spool, depth, true);

    // ---------------- (a) byte strings
    std::vector<std::string> bytes = {std::string(1, '\0'), " ", "0", "1", "8", "x", "e", "I", "_", "\xff", ".", "-", "+", "/", "(", ")", "*", ",", "^",
                                      "~", "<", ">", "&", "|", "@", "=", "!", "$", "\x01", "%"};
    Strings B;
    B.alpha = bytes;
    B.maxlen = thorough ? 4 : 3;
    B.build();
    std::string bound = "reuse histories of <= " + std::to_string(depth) + " inputs (pools of " + std::to_string(pool.size()) + " / " + std::to_string(spool.size())
                        + ")";
    if (!past_deadline()) {
        run_strings("bytes:parse", B, false);
        run_strings("bytes:parse_sbml", B, true);
        bound += "; all byte strings of length <= " + std::to_string(B.maxlen) + " over " + std::to_string(bytes.size()) + " bytes";
    }
    // ---------------- (a') literal shapes: every string of length <= 5 over the bytes a numeric literal / implicit
    // multiplication token is made of (the tokenizer's number rule needs a digit after the dot, so shapes such as "1.e1"
    // become an implicit-multiplication token that the numeric scanner then swallows whole) -- added after seeded change
    // C18 (null symbol part for "1.e5") escaped the length-3 bound of the quick tier
    if (!past_deadline()) {
        Strings LS;
        LS.alpha = {"1", "0", ".", "e", "E", "x", "-", "+"};
        LS.maxlen = thorough ? 6 : 5;
        LS.build();
        run_strings("literal-shapes:parse", LS, false);
        run_strings("literal-shapes:parse_sbml", LS, true);
        bound += "; all strings of length <= " + std::to_string(LS.maxlen) + " over the literal bytes {1,0,.,e,E,x,-,+}";
    }
    // ---------------- (b) token sequences
    Strings T, TS;
    T.alpha = {"x", "2", "2x", "1.5", "+", "-", "*", "/", "**", "(", ")", ",", "<", "==", "&", "|", "~", "Piecewise", "sin", "True"};
    TS.alpha = {"x", "2", "+", "-", "*", "/", "^", "%", "(", ")", ",", "<", "==", "&&", "||", "!", "piecewise", "and", "not", "true"};
    T.sep = TS.sep = " ";
    T.maxlen = TS.maxlen = thorough ? 4 : 3;
    T.build();
    TS.build();
    // sub-menus (every token kind and every crash trigger kept) for one more token
    Strings T5 = T, TS5 = TS;
    T5.alpha = {"x", "2x", "1.5", "-", "*", "**", "(", ")", ",", "<", "&", "~", "Piecewise", "sin"};
    TS5.alpha = {"x", "2", "-", "*", "^", "%", "(", ")", ",", "<", "&&", "!", "piecewise", "not"};
    T5.maxlen = TS5.maxlen = thorough ? 5 : 4;
    T5.build();
    TS5.build();
    if (!past_deadline()) {
        run_strings("tokens:parse", T, false);
        run_strings("tokens:parse_sbml", TS, true);
        bound += "; all token sequences of length <= " + std::to_string(T.maxlen) + " over 20 tokens";
    }
    // '^' as xor (convert_xor=false) in token sequences: same menu with "**" spelled "^"
    Strings TX = T;
    TX.alpha[8] = "^";
    TX.build();
    if (!past_deadline()) {
        run_strings("tokens:parse(^)", TX, false);
        bound += " (also with '^' under both convert_xor settings)";
    }
    if (!past_deadline()) {
        run_strings("tokens+1:parse", T5, false);
        run_strings("tokens+1:parse_sbml", TS5, true);
        bound += "; all token sequences of length <= " + std::to_string(T5.maxlen) + " over 14 tokens";
    }
    if (thorough && !past_deadline()) {
        // longer byte strings over a sub-alphabet that still contains every character class and every crash trigger
        Strings B5;
        B5.alpha = {" ", "1", "x", ".", "-", "*", "(", ")", ",", "^", "~", "<", "&", "|", "=", "!"};
        B5.maxlen = 5;
        B5.build();
        run_strings("bytes5:parse", B5, false);
        run_strings("bytes5:parse_sbml", B5, true);
        bound += "; all byte strings of length <= 5 over 16 bytes";
    }
    phase("enumerations done");
    if (past_deadline())
        R.exhaustive = false;
    R.states = 1;
    R.transitions = R.evaluations;
    R.bound_completed = bound;
    R.rule = "E4: every string over the byte alphabet {NUL,blank,0,1,8,x,e,I,_,0xff,.,-,+,/,(,),*,comma,^,~,<,>,&,|,@,=,!,$,0x01,%} (one byte per "
             "re2c character class and every operator byte) and every blank-separated sequence over the token menus, up to the stated "
             "lengths, is given to parse, parse(convert_xor=false) (if it contains ^) and parse_sbml, as is and behind 32 blanks (libstdc++ then allocates exactly size+1 bytes for the copy), under "
             "ASan+UBSan; E2: every history of pool inputs on one parser object is compared answer by answer with fresh parsers. "
             "distinct_nontrivial = runs that returned an expression + histories of length >= 2";
    R.assumptions = {"ASan/UBSan detect the memory errors and undefined behaviour of interest (intra-object overreads are not detected; inputs are "
                     "padded beyond the small-string buffer for that reason)",
                     "crash classification: a crash is attributed to the known class only if the same input with boolean operators replaced by "
                     "arithmetic ones does not crash",
                     "strings longer than the bounds and bytes outside the class-representative alphabet are not covered"};
    return R.finish();
}
