// machinery self-test: a deliberately broken "implementation" -- one wrong answer, one crash, one hang.
#include "common.h"
using namespace verif;
int main(int argc, char **argv)
{
    init(argc, argv, "SELFTEST");
    CaseSet cs;
    cs.name = "cases";
    cs.n = 5000;
    cs.hang_s = 1.0;
    cs.counter_names = {"even"};
    cs.desc = [&](long long i) { return "case " + std::to_string(i); };
    cs.body = [&](long long i, Ctx &c) {
        c.eval();
        if (i % 2 == 0)
            c.count(0);
        c.nontrivial();
        c.outcome(std::to_string(i % 3));
        if (i == 1234)
            c.violation("wrong-answer", "case 1234 returns a wrong answer");
        if (i == 2345)
            *(volatile int *)0 = 1;
        if (i == 3456)
            for (;;)
                ;
        if (i % 1000 == 0)
            c.sample("{\"i\":" + std::to_string(i) + "}");
    };
    run_cases(cs);
    Run &R = run();
    R.states = 1;
    R.transitions = R.evaluations;
    R.bound_completed = "5000 cases";
    R.rule = "selftest";
    return R.finish();
}
