// C19  Serialization round-trips exactly -- E1 explicit-state enumeration (DESIGN 5 C19).  Author a6.
//
// States: every leaf of serst::make_leaves (numbers of every kind incl. all special doubles, symbols, dummies,
// constants, atomic sets/booleans, one instance of each class *without* serialisation support), then every
// constructor of serst::make_ctors (one per save_basic overload / class) applied to every admissible tuple of
// leaves (layer L1), then to every tuple over leaves + one representative per reached class (layer L2, "n <= 2
// compositions"), shared-subtree wrappers (SH) and DenseMatrix (M).  thorough: more representatives + L3.
//
// Oracle (independent of the serializer): structural key with doubles by bit pattern (core/key.h), eq both ways,
// hash, cmp, str, exact Dummy indices, and the sharing profile (#distinct objects per structural key) of the
// object graph walked through the stored child pointers.
#include "checks/ser_states.h"
#include "checks/bigints.h"
using namespace serst;

static std::vector<Leaf> LV;
static std::vector<Ctor> CT;

enum {
    K_RT_OK,
    K_REFUSED,
    K_CONSTRUCT_REFUSED,
    K_CONSTRUCT_FOREIGN,
    K_EQ_SKIPPED,
    K_SHARED,
    K_MERGED,
    K_HAS_DOUBLE,
    K_HAS_DUMMY,
    K_BYTES,
    K_COMPOUND,
    K_MATRIX_OK,
    K_NODES
};
static std::vector<std::string> CN = {"states_roundtrip_verified",
                                      "states_dumps_refused(type without serialisation support)",
                                      "constructions_refused_by_library(exception)",
                                      "constructions_foreign_exception(not judged here)",
                                      "eq_checks_skipped(original not eq to itself: nan)",
                                      "states_with_shared_nodes",
                                      "states_where_loader_merged_equal_nodes(allowed)",
                                      "states_containing_double",
                                      "states_containing_dummy",
                                      "dump_bytes_total",
                                      "states_compound",
                                      "matrices_roundtrip_verified",
                                      "object_graph_nodes_compared"};

struct Verdict {
    std::string fail, detail;
    bool refused = false;
    std::string refusal;
    size_t bytes = 0;
    bool eq_skipped = false, shared = false, merged = false;
    int nodes = 0;
};

static std::string refusal_class(const std::string &what)
{
    size_t p = what.find("not supported: ");
    if (p != std::string::npos) {
        size_t e = what.find(' ', p + 15);
        return "refused:" + what.substr(p + 15, e == std::string::npos ? std::string::npos : e - p - 15);
    }
    p = what.find(" saving is not implemented");
    if (p != std::string::npos)
        return "refused:" + what.substr(0, p);
    return "refused:" + what.substr(0, 40);
}

static void dummy_indices(const B &e, std::set<std::pair<std::string, size_t>> &out, std::set<const Basic *> &seen)
{
    if (!seen.insert(e.get()).second)
        return;
    if (is_a<Dummy>(*e))
        out.insert({down_cast<const Dummy &>(*e).get_name(), down_cast<const Dummy &>(*e).get_index()});
    for (auto &c : children(e))
        dummy_indices(c, out, seen);
}

// compare an original with what loads(dumps(original)) returned
static void compare(const B &s, const B &l, Verdict &v)
{
    if (l.is_null()) {
        v.fail = "loads-returned-null";
        return;
    }
    std::string ks = key(*s), kl = key(*l);
    if (ks != kl) {
        v.fail = "key-mismatch";
        v.detail = "original key " + ks + " loaded key " + kl;
        return;
    }
    // eq is only demanded where the original is eq to a structurally identical copy of itself: a nan double
    // is not (RealDouble::__eq__ compares by ==), so states containing one are judged by bit pattern only
    bool refl = ks.find(":7ff") == std::string::npos && ks.find(":fff") == std::string::npos && ks.find(",7ff") == std::string::npos
                && ks.find(",fff") == std::string::npos;
    if (refl)
        refl = eq(*s, *s);
    if (!refl)
        v.eq_skipped = true;
    else {
        if (!eq(*l, *s) || !eq(*s, *l)) {
            v.fail = "not-eq";
            v.detail = "eq(loaded, original) is false although structural keys agree: " + ks;
            return;
        }
        if (l->hash() != s->hash()) {
            v.fail = "hash-differs";
            v.detail = "hash(loaded) != hash(original) for " + ks;
            return;
        }
        if (s->__cmp__(*l) != 0 || l->__cmp__(*s) != 0) {
            v.fail = "cmp-nonzero";
            v.detail = "__cmp__(original, loaded) != 0 for " + ks;
            return;
        }
    }
    if (refl) {
        // (with a nan inside, the printer's term order is not a function of the value: __cmp__ of nan is inconsistent)
        std::string ss = sstr(s), sl = sstr(l);
        if (ss != sl) {
            v.fail = "str-differs";
            v.detail = "str(original)=" + ss + " str(loaded)=" + sl;
            return;
        }
    }
    std::set<std::pair<std::string, size_t>> ds, dl;
    std::set<const Basic *> seen1, seen2;
    dummy_indices(s, ds, seen1);
    dummy_indices(l, dl, seen2);
    if (ds != dl) {
        v.fail = "dummy-index-changed";
        v.detail = "set of (name,index) of Dummies differs for " + ks;
        return;
    }
    Sharing a = sharing(s), b = sharing(l);
    v.nodes = a.nodes;
    for (auto &kv : a.per_key)
        if (kv.second > 1 || true) {
            int nb = b.per_key.count(kv.first) ? b.per_key[kv.first] : 0;
            if (nb > kv.second) {
                v.fail = "sharing-lost";
                v.detail = "original has " + std::to_string(kv.second) + " distinct object(s) with key " + kv.first
                           + ", loaded has " + std::to_string(nb) + " (total distinct nodes " + std::to_string(a.nodes) + " -> "
                           + std::to_string(b.nodes) + ")";
                return;
            }
            if (nb < kv.second)
                v.merged = true;
        }
    // shared = some object is referenced from two places: number of references > number of objects
    {
        std::map<const Basic *, B> seen;
        walk_nodes(s, seen);
        size_t refs = 1;
        for (auto &kv : seen)
            refs += children(kv.second).size();
        v.shared = refs > seen.size();
    }
}

static Verdict roundtrip(const B &s)
{
    Verdict v;
    std::string d;
    try {
        d = s->dumps();
    } catch (SymEngineException &x) {
        v.refused = true;
        v.refusal = refusal_class(x.what());
        return v;
    } catch (std::exception &x) {
        v.fail = "dumps-foreign-exception";
        v.detail = x.what();
        return v;
    }
    v.bytes = d.size();
    B l;
    try {
        l = Basic::loads(d);
    } catch (std::exception &x) {
        v.fail = "loads-throws";
        v.detail = std::string("dumps succeeded (") + std::to_string(d.size()) + " bytes) but loads threw: " + x.what();
        return v;
    }
    compare(s, l, v);
    return v;
}

static std::string child_classes(const B &s)
{
    std::set<std::string> cs;
    for (auto &c : children(s))
        cs.insert(node_class(*c));
    std::string o;
    for (auto &c : cs)
        o += (o.empty() ? "" : ",") + c;
    return o.empty() ? "" : "(" + o + ")";
}

// smallest sub-expression that fails on its own (so that one defect gives one signature)
static B locate(const B &s, Verdict &v)
{
    for (auto &c : children(s)) {
        Verdict vc = roundtrip(c);
        if (!vc.fail.empty()) {
            v = vc;
            return locate(c, v);
        }
    }
    return s;
}

static bool has_type(const B &e, TypeID t)
{
    if (e->get_type_code() == t)
        return true;
    for (auto &c : children(e))
        if (has_type(c, t))
            return true;
    return false;
}

static void trace(const std::string &recipe, const std::string &what)
{
    static const char *tp = getenv("VERIF_C19_TRACE");
    if (!tp)
        return;
    static FILE *f = nullptr;
    static pid_t fp = 0;
    if (fp != getpid()) {
        fp = getpid();
        f = fopen((std::string(tp) + "." + std::to_string((long)fp)).c_str(), "a");
    }
    if (f)
        fprintf(f, "%s\t%s\n", recipe.c_str(), what.c_str());
}

static void judge(const B &s, const std::string &recipe, Ctx &c)
{
    c.eval();
    Verdict v = roundtrip(s);
    trace(recipe, (v.refused ? "refused " : v.fail.empty() ? "ok " : v.fail + " ") + key(*s));
    std::string cls = node_class(*s);
    if (v.refused) {
        c.count(K_REFUSED);
        c.outcome("refused:" + std::string(type_code_name(s->get_type_code())) + ":" + v.refusal);
        return;
    }
    if (!v.fail.empty()) {
        Verdict vc = v;
        B cul = locate(s, vc);
        std::string sig = vc.fail + ":" + node_class(*cul);
        c.outcome("fail:" + cls + ":" + vc.fail);
        c.violation(sig, "state " + recipe + " = " + sstr(s) + " [" + key(*s) + "]: " + v.fail + ": " + v.detail
                             + (cul.get() != s.get() ? " ; smallest failing sub-expression " + sstr(cul) + " [" + key(*cul)
                                                           + "]: " + vc.fail + ": " + vc.detail
                                                     : ""));
        return;
    }
    c.count(K_RT_OK);
    c.count(K_BYTES, v.bytes);
    c.count(K_NODES, v.nodes);
    if (v.eq_skipped)
        c.count(K_EQ_SKIPPED);
    if (v.shared)
        c.count(K_SHARED);
    if (v.merged)
        c.count(K_MERGED);
    bool compound = !children(s).empty();
    if (compound) {
        c.count(K_COMPOUND);
        c.nontrivial();
    }
    if (has_type(s, SYMENGINE_REAL_DOUBLE) || has_type(s, SYMENGINE_COMPLEX_DOUBLE))
        c.count(K_HAS_DOUBLE);
    if (has_type(s, SYMENGINE_DUMMY))
        c.count(K_HAS_DUMMY);
    c.outcome("ok:" + cls + (v.shared ? ":shared" : "") + (v.eq_skipped ? ":irreflexive" : ""));
    {
        std::string tn = type_code_name(s->get_type_code());
        std::set<std::string> seen_edge;
        for (auto &ch : children(s)) {
            std::string e = "edge:" + tn + ">" + type_code_name(ch->get_type_code());
            if (seen_edge.insert(e).second)
                c.outcome(e);
        }
    }
    if (c.index % 20011 == 7)
        c.sample("{\"state\":" + jstr(recipe) + ",\"str\":" + jstr(sstr(s)) + ",\"dump_bytes\":" + std::to_string(v.bytes)
                 + ",\"graph_nodes\":" + std::to_string(v.nodes) + ",\"shared\":" + (v.shared ? "true" : "false") + "}");
}

struct Tr {
    int ci, ia, ib;
};

struct Pool {
    std::vector<B> e;
    std::vector<std::string> recipe;
    size_t size() const
    {
        return e.size();
    }
};

static std::string tr_desc(const Pool &P, const Tr &t)
{
    const Ctor &c = CT[t.ci];
    return c.name + "(" + P.recipe[t.ia] + (c.arity == 2 ? ", " + P.recipe[t.ib] : "") + ")";
}

// all admissible (ctor, a, b) with max(ia,ib) >= from, simplest first
static std::vector<Tr> transitions(const Pool &P, size_t from, uint64_t &inadmissible)
{
    std::vector<Tr> T;
    std::vector<int> kinds(P.size());
    for (size_t ia = 0; ia < P.size(); ia++)
        for (size_t ci = 0; ci < CT.size(); ci++) {
            const Ctor &c = CT[ci];
            if (c.arity == 1) {
                if (ia < from)
                    continue;
                if (admissible(c, *P.e[ia], *P.e[ia]))
                    T.push_back({(int)ci, (int)ia, (int)ia});
                else
                    inadmissible++;
            } else {
                if (!(kind_of(*P.e[ia]) & c.k0)) {
                    inadmissible += P.size();
                    continue;
                }
                for (size_t ib = 0; ib < P.size(); ib++) {
                    if (ia < from && ib < from)
                        continue;
                    if (admissible(c, *P.e[ia], *P.e[ib]))
                        T.push_back({(int)ci, (int)ia, (int)ib});
                    else
                        inadmissible++;
                }
            }
        }
    std::stable_sort(T.begin(), T.end(), [](const Tr &a, const Tr &b) {
        int ma = std::max(a.ia, a.ib), mb = std::max(b.ia, b.ib);
        if (ma != mb)
            return ma < mb;
        int sa = a.ia + a.ib, sb = b.ia + b.ib;
        return sa < sb;
    });
    return T;
}

static void run_layer(const std::string &name, const Pool &P, const std::vector<Tr> &T, CaseSet &cs)
{
    cs.name = name;
    cs.n = T.size();
    cs.counter_names = CN;
    cs.hang_s = 20;
    cs.desc = [&P, &T](long long i) { return tr_desc(P, T[i]); };
    cs.crash_sig = [&P, &T, name](long long i, const std::string &oc) {
        const Tr &t = T[i];
        return "crash-in-construct-or-roundtrip:" + oc + ":" + CT[t.ci].name + "(" + node_class(*P.e[t.ia])
               + (CT[t.ci].arity == 2 ? "," + node_class(*P.e[t.ib]) : "") + ")";
    };
    cs.body = [&P, &T](long long i, Ctx &c) {
        const Tr &t = T[i];
        B r;
        try {
            r = CT[t.ci].f(P.e[t.ia], P.e[t.ib]);
        } catch (SymEngineException &x) {
            c.count(K_CONSTRUCT_REFUSED);
            return;
        } catch (std::exception &x) {
            c.count(K_CONSTRUCT_FOREIGN);
            return;
        }
        judge(r, tr_desc(P, T[i]), c);
    };
    run_cases(cs);
}

static std::string type_sig(const B &e, bool with_children)
{
    std::string s = type_code_name(e->get_type_code());
    if (with_children)
        s += child_classes(e);
    return s;
}

// re-create the states of a finished layer in the parent (only transitions that ran cleanly) and pick
// representatives: the first state per class signature
static void pick_reps(const Pool &P, const std::vector<Tr> &T, const CaseSet &cs, bool with_children, size_t per_type_cap,
                      std::set<std::string> &have_keys, std::set<std::string> &have_sigs, Pool &out, std::unordered_set<uint64_t> &all)
{
    std::map<std::string, size_t> per_type;
    for (size_t i = 0; i < T.size(); i++) {
        if (cs.bad.count(i))
            continue;
        B r;
        try {
            r = CT[T[i].ci].f(P.e[T[i].ia], P.e[T[i].ib]);
        } catch (std::exception &) {
            continue;
        }
        std::string k = key(*r);
        all.insert(fnv(k));
        if (have_keys.count(k))
            continue;
        std::string sg = type_sig(r, with_children);
        if (have_sigs.count(sg))
            continue;
        std::string tn = type_code_name(r->get_type_code());
        if (per_type[tn] >= per_type_cap)
            continue;
        // do not use states whose dumps is refused as building blocks of deeper states (nothing to round-trip)
        try {
            (void)r->dumps();
        } catch (std::exception &) {
            continue;
        }
        per_type[tn]++;
        have_sigs.insert(sg);
        have_keys.insert(k);
        out.e.push_back(r);
        out.recipe.push_back(tr_desc(P, T[i]));
    }
}

int main(int argc, char **argv)
{
    init(argc, argv, "C19");
    bool thorough = opts().thorough();
    Run &R = run();
    LV = make_leaves(false);
    CT = make_ctors();
    Pool P0;
    for (auto &l : LV) {
        P0.e.push_back(l.e);
        P0.recipe.push_back(l.name);
    }
    std::unordered_set<uint64_t> ALL; // hashes of the structural keys of all distinct states re-created in the parent
    for (size_t i = 0; i < P0.size(); i++)
        ALL.insert(fnv(key(*P0.e[i])));

    // ---- L0: leaves
    CaseSet l0;
    l0.name = "L0:leaves";
    l0.n = P0.size();
    l0.counter_names = CN;
    l0.desc = [&](long long i) { return P0.recipe[i]; };
    l0.crash_sig = [&](long long i, const std::string &oc) { return "crash-in-roundtrip:" + oc + ":" + node_class(*P0.e[i]); };
    l0.body = [&](long long i, Ctx &c) { judge(P0.e[i], P0.recipe[i], c); };
    double tl = now();
    auto lap = [&](const std::string &what) {
        R.counters["wall_ms:" + what] = (uint64_t)((now() - tl) * 1000);
        tl = now();
    };
    run_cases(l0);
    lap("L0");

    // ---- L0b: integers next to every representation boundary (int / long / unsigned long / limb sizes, decimal digit
    // counts around LONG_MAX) in every position an integer can take inside a serialised object
    {
        B x = symbol("x");
        std::vector<std::pair<std::string, B>> bs;
        for (auto &n : verif::boundary_integers()) {
            RCP<const Integer> N = integer(n);
            std::string t = verif::bstr(n);
            B q = Rational::from_mpq(rational_class(n, integer_class(3)));
            bs.push_back({t, N});
            bs.push_back({"(" + t + ")/3", q});
            bs.push_back({"3/(" + t + ")", div(integer(3), N)});
            bs.push_back({"(" + t + ")*x", mul(N, x)});
            bs.push_back({"x**(" + t + ")", pow(x, N)});
            bs.push_back({"x+(" + t + ")", add(x, N)});
            bs.push_back({"sin(" + t + ")", sin(N)});
            bs.push_back({"(" + t + ")+I", add(N, I)});
            bs.push_back({"1/2+(" + t + ")/3*I", add(Rational::from_two_ints(1, 2), mul(q, I))});
            bs.push_back({"x<(" + t + ")", Lt(x, N)});
            bs.push_back({"{" + t + ", x}", finiteset({N, x})});
        }
        CaseSet lb;
        lb.name = "L0b:boundary-integers";
        lb.n = bs.size();
        lb.counter_names = CN;
        lb.desc = [&](long long i) { return bs[i].first; };
        lb.crash_sig = [&](long long i, const std::string &oc) { return "crash-in-roundtrip:" + oc + ":" + node_class(*bs[i].second); };
        lb.body = [&](long long i, Ctx &c) { judge(bs[i].second, bs[i].first, c); };
        run_cases(lb);
        R.counters["boundary_integer_forms"] = bs.size();
        lap("L0b");
    }

    // ---- L1: every constructor on every admissible tuple of leaves
    uint64_t inadm = 0;
    std::vector<Tr> T1 = transitions(P0, 0, inadm);
    CaseSet l1;
    run_layer("L1:ctor(S0,S0)", P0, T1, l1);
    lap("L1");
    R.counters["tuples_inadmissible(kind mismatch or eager evaluation of wild number)"] += inadm;

    // ---- representatives of every reached class
    std::set<std::string> have_keys, have_sigs;
    for (size_t i = 0; i < P0.size(); i++)
        have_keys.insert(key(*P0.e[i]));
    Pool P1 = P0;
    size_t n0 = P0.size();
    {
        Pool reps;
        // quick: one representative per type code; thorough: per (type code, child classes), at most 3 per type code
        pick_reps(P0, T1, l1, thorough, thorough ? 3 : 1, have_keys, have_sigs, reps, ALL);
        for (size_t i = 0; i < reps.size(); i++) {
            P1.e.push_back(reps.e[i]);
            P1.recipe.push_back(reps.recipe[i]);
        }
    }
    lap("reps1(parent)");
    R.counters["states_S0(leaves)"] = n0;
    R.counters["representatives_R1"] = P1.size() - n0;
    R.counters["distinct_states_L1"] = ALL.size();

    // ---- L2: every constructor on every tuple over S0 u R1 with at least one operand in R1
    std::vector<Tr> T2;
    CaseSet l2;
    if (!past_deadline()) {
        inadm = 0;
        T2 = transitions(P1, n0, inadm);
        R.counters["tuples_inadmissible(kind mismatch or eager evaluation of wild number)"] += inadm;
        run_layer("L2:ctor(S0uR1,S0uR1)", P1, T2, l2);
        lap("L2");
    }

    // ---- SH: shared-subtree wrappers around every state of S0 u R1
    CaseSet sh;
    B xs = symbol("x");
    auto share = [&](int variant, const B &r) -> B {
        switch (variant) {
            case 0: // the same object twice at depth 2 under different parents
                return function_symbol("g", {function_symbol("f", r), function_symbol("h", r), r});
            case 1: // the same compound object three times in one argument vector
                return function_symbol("g", {function_symbol("f", r), function_symbol("f", r)->get_args()[0], r});
            case 2: { // one parent object referenced twice
                B p = function_symbol("f", r);
                return function_symbol("g", {p, p, function_symbol("k", p)});
            }
            case 3: // arithmetic sharing (numbers / expressions only)
                if (!(kind_of(*r) & NE) || is_wild_number(*r))
                    return B();
                return add(sin(r), mul(symbol("w"), pow(symbol("v"), sin(r))));
            default: { // two equal but distinct objects next to a shared one: the loader must keep 2 objects apart
                B p = function_symbol("f", r), q = function_symbol("f", r);
                return function_symbol("g", {p, q, p});
            }
        }
    };
    const int NSH = 5;
    sh.name = "SH:shared-subtrees";
    sh.n = (long long)P1.size() * NSH;
    sh.counter_names = CN;
    sh.desc = [&](long long i) { return "share#" + std::to_string(i % NSH) + "(" + P1.recipe[i / NSH] + ")"; };
    sh.crash_sig = [&](long long i, const std::string &oc) {
        return "crash-in-roundtrip:" + oc + ":share#" + std::to_string(i % NSH) + "(" + node_class(*P1.e[i / NSH]) + ")";
    };
    sh.body = [&](long long i, Ctx &c) {
        B s;
        try {
            s = share(i % NSH, P1.e[i / NSH]);
        } catch (SymEngineException &) {
            c.count(K_CONSTRUCT_REFUSED);
            return;
        }
        if (s.is_null())
            return;
        judge(s, sh.desc(i), c);
    };
    if (!past_deadline())
        run_cases(sh);
    lap("SH");

    // ---- M: DenseMatrix::dumps / DenseMatrix::loads
    // shapes: [[a,b],[b,a]] (2x2, shared entries), [a,b] (1x2), [a;b] (2x1), [a] (1x1), 2x3 [a,b,a;b,a,b], and 0x0
    CaseSet mx;
    const int NSHAPE = 6;
    long long np = P1.size();
    mx.name = "M:DenseMatrix";
    mx.n = np * np * NSHAPE;
    mx.counter_names = CN;
    auto mk = [&](long long i) {
        int shape = i % NSHAPE;
        const B &a = P1.e[(i / NSHAPE) / np], &b = P1.e[(i / NSHAPE) % np];
        switch (shape) {
            case 0:
                return DenseMatrix(2, 2, {a, b, b, a});
            case 1:
                return DenseMatrix(1, 2, {a, b});
            case 2:
                return DenseMatrix(2, 1, {a, b});
            case 3:
                return DenseMatrix(1, 1, {a});
            case 4:
                return DenseMatrix(2, 3, {a, b, a, b, a, b});
            default:
                return DenseMatrix(0, 0, {});
        }
    };
    mx.desc = [&](long long i) {
        static const char *SN[] = {"2x2[a,b;b,a]", "1x2[a,b]", "2x1[a;b]", "1x1[a]", "2x3[a,b,a;b,a,b]", "0x0[]"};
        return std::string("DenseMatrix ") + SN[i % NSHAPE] + " a=" + P1.recipe[(i / NSHAPE) / np] + " b=" + P1.recipe[(i / NSHAPE) % np];
    };
    mx.crash_sig = [&](long long i, const std::string &oc) {
        return "crash-in-matrix-roundtrip:" + oc + ":" + node_class(*P1.e[(i / NSHAPE) / np]) + "," + node_class(*P1.e[(i / NSHAPE) % np]);
    };
    mx.body = [&](long long i, Ctx &c) {
        int shape = i % NSHAPE;
        long long ia = (i / NSHAPE) / np, ib = (i / NSHAPE) % np;
        // shapes that ignore b (or both) are enumerated once
        if ((shape == 3 && ib != 0) || (shape == 5 && (ia != 0 || ib != 0)))
            return;
        c.eval();
        DenseMatrix M = mk(i);
        std::string d;
        try {
            d = M.dumps();
        } catch (SymEngineException &x) {
            c.count(K_REFUSED);
            c.outcome("matrix:" + refusal_class(x.what()));
            return;
        }
        DenseMatrix L;
        try {
            L = DenseMatrix::loads(d);
        } catch (std::exception &x) {
            c.outcome("matrix:loads-throws");
            // blame an entry if the entry alone fails too
            for (auto &e : M.m_) {
                Verdict ve = roundtrip(e);
                if (!ve.fail.empty()) {
                    Verdict vv = ve;
                    B cul = locate(e, vv);
                    c.violation(vv.fail + ":" + node_class(*cul),
                                mx.desc(i) + ": DenseMatrix::loads threw " + x.what() + "; entry " + sstr(e) + " fails alone: " + vv.detail);
                    return;
                }
            }
            c.violation("matrix:loads-throws", mx.desc(i) + ": DenseMatrix::loads threw " + x.what());
            return;
        }
        if (L.nrows() != M.nrows() || L.ncols() != M.ncols() || L.m_.size() != M.m_.size()) {
            c.violation("matrix:shape-changed", mx.desc(i) + ": loaded " + std::to_string(L.nrows()) + "x" + std::to_string(L.ncols())
                                                    + " with " + std::to_string(L.m_.size()) + " entries");
            return;
        }
        bool allrefl = true;
        for (size_t k = 0; k < M.m_.size(); k++) {
            Verdict v;
            compare(M.m_[k], L.m_[k], v);
            if (v.eq_skipped)
                allrefl = false;
            if (!v.fail.empty()) {
                // prefer the signature of the entry failing on its own (same defect as in L0..L2)
                Verdict ve = roundtrip(M.m_[k]);
                if (!ve.fail.empty()) {
                    Verdict vv = ve;
                    B cul = locate(M.m_[k], vv);
                    c.violation(vv.fail + ":" + node_class(*cul),
                                mx.desc(i) + ": entry " + std::to_string(k) + ": " + v.fail + ": " + v.detail);
                } else
                    c.violation("matrix:entry-" + v.fail, mx.desc(i) + ": entry " + std::to_string(k) + ": " + v.fail + ": " + v.detail);
                c.outcome("matrix:entry-" + v.fail);
                return;
            }
        }
        // sharing across entries: entries that were one object must be one object again; distinct stay distinct
        for (size_t k = 0; k < M.m_.size(); k++)
            for (size_t j = k + 1; j < M.m_.size(); j++) {
                bool so = M.m_[k].get() == M.m_[j].get(), sl = L.m_[k].get() == L.m_[j].get();
                if (so && !sl) {
                    c.violation("matrix:sharing-lost", mx.desc(i) + ": entries " + std::to_string(k) + " and " + std::to_string(j)
                                                           + " were one object, loaded as two");
                    return;
                }
            }
        if (allrefl && !(L == M)) {
            c.violation("matrix:not-equal", mx.desc(i) + ": loaded matrix != original although all entries agree");
            return;
        }
        c.count(K_MATRIX_OK);
        c.count(K_BYTES, d.size());
        c.nontrivial();
        c.outcome("matrix:" + std::to_string(M.nrows()) + "x" + std::to_string(M.ncols()) + ":" + node_class(*P1.e[ia]) + ","
                  + (shape == 3 ? "" : node_class(*P1.e[ib])));
    };
    if (!past_deadline())
        run_cases(mx);
    lap("M");

    std::string bound = "L0: " + std::to_string(P0.size()) + " leaves; L1: all " + std::to_string(T1.size()) + " admissible ctor(S0,S0) of "
                        + std::to_string(CT.size()) + " constructors; L2: all " + std::to_string(T2.size())
                        + " admissible ctor over S0 u R1 (|R1|=" + std::to_string(P1.size() - n0) + " class representatives) with an operand in R1; SH: "
                        + std::to_string(sh.n) + " shared-subtree wrappers; M: DenseMatrix of 6 shapes over all pairs of S0 u R1";

    // ---- thorough L3: one more composition level over representatives of L2 classes
    if (thorough && !past_deadline()) {
        Pool P2;
        // small leaf set (one per kind) + R1 + R2
        std::vector<std::string> small = {"x", "1", "1/2", "1.5", "-0.0", "nan(double)", "I", "True", "Reals", "dummy()", "oo"};
        for (size_t i = 0; i < n0; i++)
            if (std::find(small.begin(), small.end(), P0.recipe[i]) != small.end()) {
                P2.e.push_back(P0.e[i]);
                P2.recipe.push_back(P0.recipe[i]);
            }
        size_t nsmall = P2.size();
        Pool reps2;
        std::set<std::string> sigs2 = have_sigs;
        pick_reps(P1, T2, l2, true, 8, have_keys, sigs2, reps2, ALL);
        for (size_t i = 0; i < reps2.size(); i++) {
            P2.e.push_back(reps2.e[i]);
            P2.recipe.push_back(reps2.recipe[i]);
        }
        R.counters["representatives_R2"] = reps2.size();
        inadm = 0;
        std::vector<Tr> T3 = transitions(P2, nsmall, inadm);
        // unary constructors on all of R2, binary constructors with the other operand among the small leaves
        std::vector<Tr> T3r;
        for (auto &t : T3)
            if (CT[t.ci].arity == 1 || (size_t)t.ia < nsmall || (size_t)t.ib < nsmall || t.ia == t.ib)
                T3r.push_back(t);
        CaseSet l3;
        run_layer("L3:ctor(R2,small)", P2, T3r, l3);
        lap("L3");
        bound += "; L3: all " + std::to_string(T3r.size()) + " admissible ctor(R2) / ctor(R2,small leaf) / ctor(r,r) over |R2|="
                 + std::to_string(reps2.size()) + " representatives of (class, child classes) reached in L2";
    }
    R.counters["distinct_states_L1_and_rep_sources"] = ALL.size();
    {
        // class coverage, derived from the outcomes the workers reported
        std::set<std::string> okc, refc, failc;
        uint64_t edges = 0;
        for (auto &o : R.outcomes) {
            auto cut = [](std::string t) {
                size_t p = t.find_first_of("[:(");
                return p == std::string::npos ? t : t.substr(0, p);
            };
            if (o.rfind("ok:", 0) == 0)
                okc.insert(cut(o.substr(3)));
            else if (o.rfind("refused:", 0) == 0)
                refc.insert(cut(o.substr(8)));
            else if (o.rfind("fail:", 0) == 0)
                failc.insert(cut(o.substr(5)));
            else if (o.rfind("edge:", 0) == 0)
                edges++;
        }
        auto lst = [](const std::set<std::string> &v) {
            std::string o = "[";
            for (auto &x : v)
                o += (o.size() > 1 ? "," : "") + jstr(x);
            return o + "]";
        };
        R.extra_json = "\"classes_roundtrip_verified\":" + lst(okc) + ",\"classes_dumps_refused\":" + lst(refc)
                       + ",\"classes_with_failing_states\":" + lst(failc) + ",\"parent_child_class_pairs_verified\":" + std::to_string(edges);
        R.counters["classes_roundtrip_verified"] = okc.size();
        R.counters["parent_child_class_pairs_verified"] = edges;
    }
    R.states = R.counters["states_roundtrip_verified"] + R.counters["matrices_roundtrip_verified"];
    R.transitions = R.evaluations;
    R.bound_completed = bound;
    R.rule = "states = leaves, then every constructor (one per save_basic overload / serialisable class) on every kind-admissible "
             "tuple, simplest first; each state s is dumped and loaded by the real library and loads(dumps(s)) is compared with s "
             "by an independent structural key (doubles bit for bit), eq/hash/cmp/str, exact Dummy indices and the per-key count of "
             "distinct objects in the object graph; non-trivial = compound state verified";
    R.assumptions = {"trusted: core/key.h structural key, Basic::get_args / Add,Mul dictionaries as the stored child pointers",
                     "eq is only demanded where the original is eq to itself (nan doubles are judged by bit pattern only)",
                     "the loader may merge equal atoms (counted), it may not split a shared object",
                     "RealMPFR / ComplexMPC / Piranha / Flint classes are not built in this configuration"};
    return R.finish();
}
