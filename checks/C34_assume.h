// C34_assume.h -- shared by C34.cpp and C35.cpp (author a12): assumption menu, witness values,
// exact / certainly-real / numeric value of an expression at a witness assignment, value verdicts,
// structural classes for signatures, and the layered E1 state builder (crash-isolated construction).
// Everything here is reference-model code: it never calls the library functions under test
// (is_*, refine, simplify); it only walks trees through public accessors.
#ifndef VERIF_C34_ASSUME_H
#define VERIF_C34_ASSUME_H
#include "common.h"
#include "key.h"
#include "exact.h"
#include "explore.h"
#include "refeval.h"

namespace a12
{
using namespace verif;

// ------------------------------------------------------------------ witnesses
struct Wit {
    std::string name;
    cq v;
    bool ex; // exact Gaussian rational available
    GQ g;
};
inline std::vector<Wit> &wits()
{
    static std::vector<Wit> W;
    return W;
}
inline int wit_rat(const std::string &name, long n, long d, long in = 0, long id = 1)
{
    auto &W = wits();
    for (size_t i = 0; i < W.size(); i++)
        if (W[i].name == name)
            return i;
    Wit w;
    w.name = name;
    w.ex = true;
    w.g.re = mpq_class(n, d);
    w.g.re.canonicalize();
    w.g.im = mpq_class(in, id);
    w.g.im.canonicalize();
    w.v = mkc((rq)n / (rq)d, (rq)in / (rq)id);
    W.push_back(w);
    return W.size() - 1;
}
inline int wit_num(const std::string &name, rq v)
{
    auto &W = wits();
    for (size_t i = 0; i < W.size(); i++)
        if (W[i].name == name)
            return i;
    Wit w;
    w.name = name;
    w.ex = false;
    w.v = mkc(v, 0);
    W.push_back(w);
    return W.size() - 1;
}
inline int wit(const std::string &s)
{
    if (s == "sqrt2")
        return wit_num(s, sqrtq(2.0Q));
    if (s == "-sqrt2")
        return wit_num(s, -sqrtq(2.0Q));
    if (s == "pi")
        return wit_num(s, M_PIq);
    if (s == "-pi")
        return wit_num(s, -M_PIq);
    if (s == "I")
        return wit_rat(s, 0, 1, 1, 1);
    if (s == "1+I")
        return wit_rat(s, 1, 1, 1, 1);
    long n = 0, d = 1;
    size_t p = s.find('/');
    n = atol(s.c_str());
    if (p != std::string::npos)
        d = atol(s.c_str() + p + 1);
    return wit_rat(s, n, d);
}

// ------------------------------------------------------------------ assumption menu
enum { A_NONE, A_COMPLEX, A_REAL, A_RATIONAL, A_INTEGER, A_POS, A_NONNEG, A_NEG, A_NONPOS, A_NONZERO, A_ZERO, A_INTPOS,
       A_REALNZ, NASSUME };
struct AssumeKind {
    std::string name;
    std::vector<int> w; // witness indices: every value satisfies the assumption
};
inline std::vector<AssumeKind> &menu()
{
    static std::vector<AssumeKind> M;
    if (!M.empty())
        return M;
    auto mk = [&](const std::string &n, std::vector<std::string> ws) {
        AssumeKind k;
        k.name = n;
        for (auto &s : ws)
            k.w.push_back(wit(s));
        M.push_back(k);
    };
    mk("none", {"0", "2", "-1/2", "I", "1+I", "-pi"}); // unconstrained symbol: treated as an arbitrary complex number
    mk("complex", {"0", "2", "-1/2", "I", "1+I", "-pi"});
    mk("real", {"-2", "-1/2", "0", "1", "sqrt2", "pi"});
    mk("rational", {"-2", "-1/2", "0", "1/3", "1", "7/2"});
    mk("integer", {"-2", "-1", "0", "1", "2", "7"});
    mk(">0", {"1/3", "1", "2", "sqrt2", "pi", "10"});
    mk(">=0", {"0", "1/3", "1", "2", "sqrt2", "pi"});
    mk("<0", {"-1/3", "-1", "-2", "-sqrt2", "-pi", "-10"});
    mk("<=0", {"0", "-1/3", "-1", "-2", "-sqrt2", "-pi"});
    mk("!=0", {"-2", "-1/2", "1", "I", "1+I", "pi"});
    mk("=0", {"0"});
    mk("integer&>0", {"1", "2", "3", "4", "7", "10"});
    mk("real&!=0", {"-2", "-1/2", "1/3", "1", "sqrt2", "-pi"});
    return M;
}
inline void add_statements(set_basic &st, int kind, const RCP<const Basic> &s)
{
    RCP<const Basic> z = integer(0);
    switch (kind) {
        case A_NONE:
            break;
        case A_COMPLEX:
            st.insert(complexes()->contains(s));
            break;
        case A_REAL:
            st.insert(reals()->contains(s));
            break;
        case A_RATIONAL:
            st.insert(rationals()->contains(s));
            break;
        case A_INTEGER:
            st.insert(integers()->contains(s));
            break;
        case A_POS:
            st.insert(Gt(s, z));
            break;
        case A_NONNEG:
            st.insert(Ge(s, z));
            break;
        case A_NEG:
            st.insert(Lt(s, z));
            break;
        case A_NONPOS:
            st.insert(Le(s, z));
            break;
        case A_NONZERO:
            st.insert(Ne(s, z));
            break;
        case A_ZERO:
            st.insert(Eq(s, z));
            break;
        case A_INTPOS:
            st.insert(integers()->contains(s));
            st.insert(Gt(s, z));
            break;
        case A_REALNZ:
            st.insert(reals()->contains(s));
            st.insert(Ne(s, z));
            break;
    }
}
// all 13 x 13 assumption objects over (x, y), built once in the parent
struct AssumeTable {
    std::vector<std::unique_ptr<Assumptions>> tab;
    RCP<const Basic> x, y;
    void build()
    {
        x = symbol("x");
        y = symbol("y");
        tab.resize(NASSUME * NASSUME);
        for (int a = 0; a < NASSUME; a++)
            for (int b = 0; b < NASSUME; b++) {
                set_basic st;
                add_statements(st, a, x);
                add_statements(st, b, y);
                tab[a * NASSUME + b].reset(new Assumptions(st));
            }
    }
    const Assumptions *get(int a, int b) const
    {
        return tab[a * NASSUME + b].get();
    }
};

// ------------------------------------------------------------------ symbols of a tree (own recursion)
inline void sym_scan(const Basic &e, bool &hx, bool &hy, bool &other)
{
    if (is_a_sub<Symbol>(e)) {
        const std::string &n = down_cast<const Symbol &>(e).get_name();
        if (n == "x")
            hx = true;
        else if (n == "y")
            hy = true;
        else
            other = true;
        return;
    }
    for (auto &a : e.get_args())
        sym_scan(*a, hx, hy, other);
}

// ------------------------------------------------------------------ exact value (Gaussian rationals + "some infinity")
struct XV {
    int k = 0; // 0 unknown, 1 finite exact, 2 infinite (pole shown exactly)
    GQ g;
};
inline XV xfin(const GQ &g)
{
    XV r;
    r.k = 1;
    r.g = g;
    return r;
}
inline XV xfail()
{
    return XV();
}
inline XV xinf()
{
    XV r;
    r.k = 2;
    return r;
}
struct Bind {
    int wx = -1, wy = -1;
};
inline XV ex_eval(const Basic &e, const Bind &b);

inline bool mpz_exact_root(const mpz_class &a, unsigned long q, mpz_class &r)
{
    if (a < 0)
        return false;
    return mpz_root(r.get_mpz_t(), a.get_mpz_t(), q) != 0;
}
// base^exp for exact operands; exp must be real rational
inline XV ex_pow(const XV &B, const XV &X, const Basic &base_node)
{
    if (X.k != 1 || X.g.im != 0)
        return xfail();
    const mpq_class &x = X.g.re;
    if (x == 0) {
        // anything finite and non-zero to the power 0
        if ((B.k == 1 && !B.g.is_zero()) || is_a<Constant>(base_node))
            return xfin(GQ{1, 0});
        return xfail();
    }
    if (B.k == 2) {
        if (x.get_den() == 1 && x > 0)
            return xinf();
        return xfail();
    }
    if (B.k != 1)
        return xfail();
    if (x.get_den() == 1) {
        if (!x.get_num().fits_slong_p() || abs(x.get_num()) > 64)
            return xfail();
        long n = x.get_num().get_si();
        if (B.g.is_zero())
            return n > 0 ? xfin(GQ{0, 0}) : xinf();
        GQ p = gq_pow(B.g, n < 0 ? -n : n);
        if (n < 0)
            p = gq_div(GQ{1, 0}, p);
        return xfin(p);
    }
    // non-integer rational exponent
    if (B.g.im != 0)
        return xfail();
    if (B.g.re == 0)
        return x > 0 ? xfin(GQ{0, 0}) : xinf();
    if (B.g.re == 1)
        return xfin(GQ{1, 0});
    if (B.g.re < 0)
        return xfail(); // principal value is complex and (in general) irrational
    if (!x.get_den().fits_ulong_p() || x.get_den() > 6 || !x.get_num().fits_slong_p() || abs(x.get_num()) > 12)
        return xfail();
    mpz_class rn, rd;
    unsigned long q = x.get_den().get_ui();
    if (!mpz_exact_root(B.g.re.get_num(), q, rn) || !mpz_exact_root(B.g.re.get_den(), q, rd))
        return xfail();
    mpq_class root(rn, rd);
    root.canonicalize();
    long n = x.get_num().get_si();
    GQ p = gq_pow(GQ{root, 0}, n < 0 ? -n : n);
    if (n < 0)
        p = gq_div(GQ{1, 0}, p);
    return xfin(p);
}
inline mpq_class mpq_floor(const mpq_class &q)
{
    mpz_class f;
    mpz_fdiv_q(f.get_mpz_t(), q.get_num().get_mpz_t(), q.get_den().get_mpz_t());
    return mpq_class(f);
}
inline XV ex_eval(const Basic &e, const Bind &b)
{
    GQ g;
    if (to_gq(e, g))
        return xfin(g);
    switch (e.get_type_code()) {
        case SYMENGINE_SYMBOL: {
            const std::string &n = down_cast<const Symbol &>(e).get_name();
            int w = n == "x" ? b.wx : n == "y" ? b.wy : -1;
            if (w < 0 || !wits()[w].ex)
                return xfail();
            return xfin(wits()[w].g);
        }
        case SYMENGINE_INFTY:
            return xinf();
        case SYMENGINE_ADD: {
            const Add &a = down_cast<const Add &>(e);
            XV acc = ex_eval(*a.get_coef(), b);
            if (acc.k == 0)
                return xfail();
            for (auto &p : a.get_dict()) {
                XV t = ex_eval(*p.first, b), c = ex_eval(*p.second, b);
                if (t.k == 0 || c.k != 1)
                    return xfail();
                if (t.k == 2) {
                    if (c.g.is_zero() || acc.k == 2)
                        return xfail();
                    acc = xinf();
                    continue;
                }
                if (acc.k == 1)
                    acc.g = acc.g + t.g * c.g;
            }
            return acc;
        }
        case SYMENGINE_MUL: {
            const Mul &m = down_cast<const Mul &>(e);
            XV acc = ex_eval(*m.get_coef(), b);
            if (acc.k != 1)
                return xfail();
            bool inf = false, zero = acc.g.is_zero();
            for (auto &p : m.get_dict()) {
                XV t = ex_pow(ex_eval(*p.first, b), ex_eval(*p.second, b), *p.first);
                if (t.k == 0)
                    return xfail();
                if (t.k == 2)
                    inf = true;
                else {
                    if (t.g.is_zero())
                        zero = true;
                    acc.g = acc.g * t.g;
                }
            }
            if (inf)
                return zero ? xfail() : xinf();
            return acc;
        }
        case SYMENGINE_POW: {
            const Pow &p = down_cast<const Pow &>(e);
            return ex_pow(ex_eval(*p.get_base(), b), ex_eval(*p.get_exp(), b), *p.get_base());
        }
        case SYMENGINE_ABS: {
            XV a = ex_eval(*e.get_args()[0], b);
            if (a.k == 2)
                return xinf();
            if (a.k != 1)
                return xfail();
            if (a.g.im == 0)
                return xfin(GQ{abs(a.g.re), 0});
            if (a.g.re == 0)
                return xfin(GQ{abs(a.g.im), 0});
            return xfail();
        }
        case SYMENGINE_CONJUGATE: {
            XV a = ex_eval(*e.get_args()[0], b);
            if (a.k == 1)
                a.g.im = -a.g.im;
            return a;
        }
        case SYMENGINE_SIGN: {
            XV a = ex_eval(*e.get_args()[0], b);
            if (a.k != 1)
                return xfail();
            if (a.g.im == 0)
                return xfin(GQ{mpq_class(sgn(a.g.re)), 0});
            if (a.g.re == 0)
                return xfin(GQ{0, mpq_class(sgn(a.g.im))});
            return xfail();
        }
        case SYMENGINE_FLOOR:
        case SYMENGINE_CEILING: {
            XV a = ex_eval(*e.get_args()[0], b);
            if (a.k != 1 || a.g.im != 0)
                return xfail();
            if (e.get_type_code() == SYMENGINE_FLOOR)
                return xfin(GQ{mpq_floor(a.g.re), 0});
            return xfin(GQ{-mpq_floor(-a.g.re), 0});
        }
        case SYMENGINE_MAX:
        case SYMENGINE_MIN: {
            bool first = true;
            mpq_class m;
            for (auto &x : e.get_args()) {
                XV a = ex_eval(*x, b);
                if (a.k != 1 || a.g.im != 0)
                    return xfail();
                if (first || (e.get_type_code() == SYMENGINE_MAX ? a.g.re > m : a.g.re < m))
                    m = a.g.re;
                first = false;
            }
            return first ? xfail() : xfin(GQ{m, 0});
        }
        case SYMENGINE_SIN:
        case SYMENGINE_TAN: {
            XV a = ex_eval(*e.get_args()[0], b);
            if (a.k == 1 && a.g.is_zero())
                return xfin(GQ{0, 0});
            return xfail();
        }
        case SYMENGINE_COS:
        case SYMENGINE_SEC: {
            XV a = ex_eval(*e.get_args()[0], b);
            if (a.k == 1 && a.g.is_zero())
                return xfin(GQ{1, 0});
            return xfail();
        }
        case SYMENGINE_CSC:
        case SYMENGINE_COT: {
            XV a = ex_eval(*e.get_args()[0], b);
            if (a.k == 1 && a.g.is_zero())
                return xinf();
            return xfail();
        }
        case SYMENGINE_LOG: {
            XV a = ex_eval(*e.get_args()[0], b);
            if (a.k == 1 && a.g.re == 1 && a.g.im == 0)
                return xfin(GQ{0, 0});
            if (a.k == 1 && a.g.is_zero())
                return xinf();
            return xfail();
        }
        default:
            return xfail();
    }
}

// ------------------------------------------------------------------ certainly-real evaluation in pure real arithmetic
// ok   : the value is certainly a finite real number (every operation on the path maps reals to reals)
// vok  : v is a reliable numeric value of it (no sign/rounding decision taken on a borderline quantity)
struct RV {
    bool ok = false, vok = false;
    rq v = 0, scale = 1;
};
inline RV rfail()
{
    return RV();
}
static const rq MARGIN = 1e-18Q; // "clearly non-zero" threshold relative to max(1, scale)
static const rq TINY = 1e-28Q;   // "numerically zero"
inline bool clearly(rq t, rq scale)
{
    return fabsq(t) >= MARGIN * fmaxq(1.0Q, scale);
}
inline RV real_eval(const Basic &e, const Bind &b);
inline RV rpow(const RV &B, const Basic &expnode, const Bind &b)
{
    RV r;
    if (!B.ok)
        return rfail();
    long n;
    if (small_int(expnode, n)) {
        if (n < 0 && !(B.vok && clearly(B.v, B.scale)))
            return rfail(); // possible pole
        r.ok = true;
        r.vok = B.vok;
        r.v = powq(B.v, (rq)n);
        r.scale = fmaxq(B.scale, fabsq(r.v));
        if (!finiteq(r.v))
            return rfail();
        return r;
    }
    RV X = real_eval(expnode, b);
    if (!X.ok)
        return rfail();
    if (!(B.vok && clearly(B.v, B.scale) && B.v > 0))
        return rfail(); // base not certainly positive: principal power may be non-real
    r.ok = true;
    r.vok = X.vok;
    r.v = expq(X.v * logq(B.v));
    r.scale = fmaxq(fmaxq(B.scale, X.scale), fabsq(r.v));
    if (!finiteq(r.v))
        return rfail();
    return r;
}
inline RV real_eval(const Basic &e, const Bind &b)
{
    RV r;
    switch (e.get_type_code()) {
        case SYMENGINE_INTEGER:
            r.ok = r.vok = true;
            r.v = q_from_int(down_cast<const Integer &>(e).as_integer_class());
            r.scale = fabsq(r.v);
            return r;
        case SYMENGINE_RATIONAL:
            r.ok = r.vok = true;
            r.v = q_from_rat(down_cast<const Rational &>(e).as_rational_class());
            r.scale = fabsq(r.v);
            return r;
        case SYMENGINE_SYMBOL: {
            const std::string &n = down_cast<const Symbol &>(e).get_name();
            int w = n == "x" ? b.wx : n == "y" ? b.wy : -1;
            if (w < 0 || im(wits()[w].v) != 0)
                return rfail();
            r.ok = r.vok = true;
            r.v = re(wits()[w].v);
            r.scale = fabsq(r.v);
            return r;
        }
        case SYMENGINE_CONSTANT: {
            Env env;
            Value v = refeval(e, env);
            if (!v.ok)
                return rfail();
            r.ok = r.vok = true;
            r.v = re(v.v);
            r.scale = fabsq(r.v);
            return r;
        }
        case SYMENGINE_ADD: {
            const Add &a = down_cast<const Add &>(e);
            r = real_eval(*a.get_coef(), b);
            if (!r.ok)
                return rfail();
            for (auto &p : a.get_dict()) {
                RV t = real_eval(*p.first, b), c = real_eval(*p.second, b);
                if (!t.ok || !c.ok)
                    return rfail();
                r.v += t.v * c.v;
                r.vok = r.vok && t.vok && c.vok;
                r.scale = fmaxq(fmaxq(r.scale, fmaxq(t.scale, c.scale)), fmaxq(fabsq(t.v * c.v), fabsq(r.v)));
            }
            if (!finiteq(r.v))
                return rfail();
            return r;
        }
        case SYMENGINE_MUL: {
            const Mul &m = down_cast<const Mul &>(e);
            r = real_eval(*m.get_coef(), b);
            if (!r.ok)
                return rfail();
            for (auto &p : m.get_dict()) {
                RV t = rpow(real_eval(*p.first, b), *p.second, b);
                if (!t.ok)
                    return rfail();
                r.v *= t.v;
                r.vok = r.vok && t.vok;
                r.scale = fmaxq(fmaxq(r.scale, t.scale), fabsq(r.v));
            }
            if (!finiteq(r.v))
                return rfail();
            return r;
        }
        case SYMENGINE_POW: {
            const Pow &p = down_cast<const Pow &>(e);
            return rpow(real_eval(*p.get_base(), b), *p.get_exp(), b);
        }
        case SYMENGINE_ABS: {
            RV a = real_eval(*e.get_args()[0], b);
            if (a.ok) {
                a.v = fabsq(a.v);
                return a;
            }
            // |z| of any finite complex number is real
            Env env;
            if (b.wx >= 0)
                env.sym["x"] = wits()[b.wx].v;
            if (b.wy >= 0)
                env.sym["y"] = wits()[b.wy].v;
            Value v = refeval(e, env);
            if (!v.ok)
                return rfail();
            r.ok = r.vok = true;
            r.v = re(v.v);
            r.scale = v.scale;
            return r;
        }
        case SYMENGINE_CONJUGATE:
            return real_eval(*e.get_args()[0], b);
        case SYMENGINE_SIGN: {
            RV a = real_eval(*e.get_args()[0], b);
            if (!a.ok)
                return rfail();
            r.ok = true;
            r.scale = fmaxq(a.scale, 1);
            if (a.vok && clearly(a.v, a.scale)) {
                r.vok = true;
                r.v = a.v > 0 ? 1 : -1;
            } else {
                r.vok = false;
                r.v = 0;
            }
            return r;
        }
        case SYMENGINE_FLOOR:
        case SYMENGINE_CEILING: {
            RV a = real_eval(*e.get_args()[0], b);
            if (!a.ok)
                return rfail();
            r.ok = true;
            r.scale = fmaxq(a.scale, 1);
            if (a.vok && !near_int(a.v)) {
                r.vok = true;
                r.v = e.get_type_code() == SYMENGINE_FLOOR ? floorq(a.v) : ceilq(a.v);
            }
            return r;
        }
        case SYMENGINE_MAX:
        case SYMENGINE_MIN: {
            bool first = true;
            r.ok = r.vok = true;
            for (auto &x : e.get_args()) {
                RV a = real_eval(*x, b);
                if (!a.ok)
                    return rfail();
                r.vok = r.vok && a.vok;
                r.scale = fmaxq(r.scale, a.scale);
                if (first || (e.get_type_code() == SYMENGINE_MAX ? a.v > r.v : a.v < r.v))
                    r.v = a.v;
                first = false;
            }
            return first ? rfail() : r;
        }
        case SYMENGINE_SIN:
        case SYMENGINE_COS: {
            RV a = real_eval(*e.get_args()[0], b);
            if (!a.ok)
                return rfail();
            a.v = e.get_type_code() == SYMENGINE_SIN ? sinq(a.v) : cosq(a.v);
            a.scale = fmaxq(a.scale, 1);
            return a;
        }
        case SYMENGINE_TAN:
        case SYMENGINE_SEC:
        case SYMENGINE_COT:
        case SYMENGINE_CSC: {
            RV a = real_eval(*e.get_args()[0], b);
            if (!a.ok || !a.vok)
                return rfail();
            TypeID t = e.get_type_code();
            rq s = sinq(a.v), c = cosq(a.v);
            rq den = (t == SYMENGINE_TAN || t == SYMENGINE_SEC) ? c : s;
            if (!clearly(den, fmaxq(a.scale, 1)))
                return rfail();
            a.v = t == SYMENGINE_TAN ? s / c : t == SYMENGINE_SEC ? 1 / c : t == SYMENGINE_COT ? c / s : 1 / s;
            a.scale = fmaxq(a.scale, fabsq(a.v));
            return a;
        }
        case SYMENGINE_LOG: {
            RV a = real_eval(*e.get_args()[0], b);
            if (!a.ok || !a.vok || !clearly(a.v, a.scale) || a.v <= 0)
                return rfail();
            a.v = logq(a.v);
            a.scale = fmaxq(a.scale, fabsq(a.v));
            return a;
        }
        default:
            return rfail();
    }
}

inline rq q_from_mpq(const mpq_class &q)
{
    return strtoflt128(q.get_num().get_str().c_str(), nullptr) / strtoflt128(q.get_den().get_str().c_str(), nullptr);
}
// ------------------------------------------------------------------ everything known about the value at one witness assignment
struct PV {
    Value num; // RefEval (113-bit complex)
    RV rv;     // certainly-real evaluation
    XV ex;     // exact evaluation
    rq S = 1;  // scale for margins
    bool inconsistent = false;
    bool illcond = false; // numeric value changes under a 1e-27 relative perturbation of the witnesses (cancellation,
                          // discontinuity): no numeric verdict is taken from it
};
inline Env env_of(const Bind &b)
{
    Env env;
    if (b.wx >= 0)
        env.sym["x"] = wits()[b.wx].v;
    if (b.wy >= 0)
        env.sym["y"] = wits()[b.wy].v;
    return env;
}
inline PV pv_eval(const Basic &e, const Bind &b)
{
    PV p;
    Env env = env_of(b);
    p.num = refeval(e, env);
    p.rv = real_eval(e, b);
    p.ex = ex_eval(e, b);
    p.S = 1;
    if (p.num.ok) {
        Env e2 = env;
        if (b.wx >= 0)
            e2.sym["x"] = env.sym["x"] * mkc(1 + 1e-27Q, 0);
        if (b.wy >= 0)
            e2.sym["y"] = env.sym["y"] * mkc(1 - 0.7e-27Q, 0);
        Value n2 = refeval(e, e2);
        rq s2 = fmaxq(1.0Q, fmaxq(p.num.scale, n2.ok ? n2.scale : 0));
        if (!n2.ok || !closeq(p.num.v, n2.v, 1e-20Q, s2)) {
            p.illcond = true;
            p.num.ok = false;
            p.num.why = "ill-conditioned";
            p.rv.vok = false;
        }
    }
    if (p.num.ok)
        p.S = fmaxq(p.S, p.num.scale);
    if (p.rv.ok)
        p.S = fmaxq(p.S, p.rv.scale);
    // the three evaluators must agree where they overlap, otherwise nothing is judged on this point
    if (p.num.ok && p.rv.ok && p.rv.vok && !closeq(p.num.v, mkc(p.rv.v, 0), 1e-24Q, p.S))
        p.inconsistent = true;
    if (p.num.ok && p.ex.k == 1) {
        cq xv = mkc(q_from_mpq(p.ex.g.re), q_from_mpq(p.ex.g.im));
        if (!closeq(p.num.v, xv, 1e-24Q, p.S))
            p.inconsistent = true;
    }
    if (p.num.ok && p.ex.k == 2)
        p.inconsistent = true;
    return p;
}

// three-valued verdicts about the value: 1 yes, 0 no, -1 undecided
enum { V_NO = 0, V_YES = 1, V_UNK = -1 };
inline int v_not(int v)
{
    return v < 0 ? v : !v;
}
inline int v_real(const PV &p)
{
    if (p.ex.k == 1)
        return p.ex.g.im == 0;
    if (p.ex.k == 2)
        return V_UNK;
    if (p.rv.ok)
        return V_YES;
    if (p.num.ok && fabsq(im(p.num.v)) >= MARGIN * p.S)
        return V_NO;
    return V_UNK;
}
inline int v_zero(const PV &p)
{
    if (p.ex.k == 1)
        return p.ex.g.is_zero();
    if (p.ex.k == 2)
        return V_NO;
    if (p.num.ok && absq(p.num.v) >= MARGIN * p.S)
        return V_NO;
    return V_UNK;
}
// sign: +1 / -1 for "real and > 0 / < 0"
inline int v_sign(const PV &p, int sgn_)
{
    if (p.ex.k == 1)
        return p.ex.g.im == 0 && (sgn_ > 0 ? p.ex.g.re > 0 : p.ex.g.re < 0);
    if (p.ex.k == 2)
        return V_UNK;
    if (v_real(p) == V_NO)
        return V_NO;
    if (p.rv.ok && p.rv.vok && fabsq(p.rv.v) >= MARGIN * p.S)
        return (p.rv.v > 0) == (sgn_ > 0);
    if (p.num.ok && fabsq(re(p.num.v)) >= MARGIN * p.S && (re(p.num.v) > 0) != (sgn_ > 0))
        return V_NO; // real part clearly on the wrong side: not of that sign whether or not it is real
    return V_UNK;
}
// weak sign: real and >= 0 (sgn_=+1) / <= 0 (sgn_=-1)
inline int v_wsign(const PV &p, int sgn_)
{
    if (p.ex.k == 1)
        return p.ex.g.im == 0 && (sgn_ > 0 ? p.ex.g.re >= 0 : p.ex.g.re <= 0);
    if (p.ex.k == 2)
        return V_UNK;
    if (v_real(p) == V_NO)
        return V_NO;
    if (p.rv.ok && p.rv.vok && fabsq(p.rv.v) >= MARGIN * p.S)
        return (p.rv.v > 0) == (sgn_ > 0);
    if (p.num.ok && fabsq(re(p.num.v)) >= MARGIN * p.S && (re(p.num.v) > 0) != (sgn_ > 0))
        return V_NO;
    return V_UNK;
}
inline int v_integer(const PV &p)
{
    if (p.ex.k == 1)
        return p.ex.g.im == 0 && p.ex.g.re.get_den() == 1;
    if (p.ex.k == 2)
        return V_UNK;
    if (v_real(p) == V_NO)
        return V_NO;
    if (p.num.ok && fabsq(re(p.num.v) - roundq(re(p.num.v))) >= MARGIN * p.S)
        return V_NO;
    return V_UNK;
}
// parity: 0 even, 1 odd
inline int v_parity(const PV &p, int odd)
{
    if (p.ex.k == 1) {
        if (p.ex.g.im != 0 || p.ex.g.re.get_den() != 1)
            return V_NO;
        return (int)(mpz_class(abs(p.ex.g.re.get_num()) % 2).get_si()) == odd;
    }
    if (v_integer(p) == V_NO)
        return V_NO;
    if (p.num.ok) {
        rq h = (re(p.num.v) + odd) / 2;
        if (fabsq(h - roundq(h)) >= MARGIN * p.S)
            return V_NO;
    }
    return V_UNK;
}
inline int v_rational(const PV &p)
{
    if (p.ex.k == 1)
        return p.ex.g.im == 0;
    if (p.ex.k == 2)
        return V_UNK;
    if (v_real(p) == V_NO)
        return V_NO;
    return V_UNK;
}
inline int v_irrational(const PV &p)
{ // irrational = real and not rational
    if (p.ex.k == 1)
        return V_NO;
    if (p.ex.k == 2)
        return V_UNK;
    if (v_real(p) == V_NO)
        return V_NO;
    return V_UNK;
}
inline int v_finite(const PV &p)
{ // a finite complex number
    if (p.ex.k == 1)
        return V_YES;
    if (p.ex.k == 2)
        return V_NO;
    if (p.num.ok)
        return V_YES;
    return V_UNK;
}
inline int v_algebraic(const PV &p)
{
    if (p.ex.k == 1)
        return V_YES; // Gaussian rationals are algebraic
    return V_UNK;
}

// ------------------------------------------------------------------ structural classes for signatures
inline std::string tname(const Basic &e)
{
    std::string t = type_code_name(e.get_type_code());
    if (is_a<Integer>(e) || is_a<Rational>(e)) {
        const Number &n = down_cast<const Number &>(e);
        return t + (n.is_zero() ? "=0" : n.is_negative() ? "<0" : ">0");
    }
    return t;
}
inline std::string cls(const Basic &e, int depth)
{
    std::string t = tname(e);
    vec_basic a = e.get_args();
    if (depth <= 0 || a.empty() || is_a_Number(e))
        return t;
    std::vector<std::string> ks;
    for (auto &x : a)
        ks.push_back(cls(*x, depth - 1));
    TypeID tc = e.get_type_code();
    if (tc == SYMENGINE_ADD || tc == SYMENGINE_MUL || tc == SYMENGINE_MAX || tc == SYMENGINE_MIN) {
        // commutative containers: the *set* of argument kinds
        std::sort(ks.begin(), ks.end());
        ks.erase(std::unique(ks.begin(), ks.end()), ks.end());
    }
    std::string o = t + "(";
    for (size_t i = 0; i < ks.size(); i++)
        o += (i ? "," : "") + ks[i];
    return o + ")";
}
inline const char *tri(tribool t)
{
    return is_true(t) ? "true" : is_false(t) ? "false" : "indeterminate";
}
inline std::string bind_str(const Bind &b, bool hx, bool hy)
{
    std::string o;
    if (hx)
        o += "x=" + wits()[b.wx].name;
    if (hy)
        o += std::string(hx ? ", " : "") + "y=" + wits()[b.wy].name;
    return o.empty() ? "(closed)" : o;
}
inline std::string assume_str(int ax, int ay, bool hx, bool hy)
{
    std::string o;
    if (hx)
        o += "x:" + menu()[ax].name;
    if (hy)
        o += std::string(hx ? ", " : "") + "y:" + menu()[ay].name;
    return o.empty() ? "(no symbols)" : o;
}

// ------------------------------------------------------------------ E1 layered state builder
struct OpTable {
    std::vector<std::string> bin_names, un_names;
    std::function<RCP<const Basic>(int, const RCP<const Basic> &, const RCP<const Basic> &)> bin;
    std::function<RCP<const Basic>(int, const RCP<const Basic> &)> un;
};
struct Trans {
    int op; // < nbin: binary, else unary (op - nbin)
    int a, b;
};
inline RCP<const Basic> apply_trans(const OpTable &T, const StateSet &SS, const Trans &t)
{
    int nb = T.bin_names.size();
    if (t.op < nb)
        return T.bin(t.op, SS.S[t.a].e, SS.S[t.b].e);
    return T.un(t.op - nb, SS.S[t.a].e);
}
inline std::string trans_str(const OpTable &T, const StateSet &SS, const Trans &t)
{
    int nb = T.bin_names.size();
    if (t.op < nb)
        return T.bin_names[t.op] + "(" + SS.S[t.a].recipe + ", " + SS.S[t.b].recipe + ")";
    return T.un_names[t.op - nb] + "(" + SS.S[t.a].recipe + ")";
}
// all transitions with left operand in [a0,a1) and right operand in [b0,b1), plus unary ops on [a0,a1) if with_unary
inline void gen_trans(const OpTable &T, int a0, int a1, int b0, int b1, bool with_unary, std::vector<Trans> &out)
{
    int nb = T.bin_names.size(), nu = T.un_names.size();
    for (int a = a0; a < a1; a++)
        for (int b = b0; b < b1; b++)
            for (int op = 0; op < nb; op++)
                out.push_back(Trans{op, a, b});
    if (with_unary)
        for (int a = a0; a < a1; a++)
            for (int op = 0; op < nu; op++)
                out.push_back(Trans{nb + op, a, a});
}
// Execute every transition once in crash-isolated workers (construction only), then add the results of
// the transitions that ran cleanly to SS in the parent.  Returns the index of the first new state.
inline int build_layer(const OpTable &T, StateSet &SS, const std::vector<Trans> &tr, const std::string &name, int depth)
{
    CaseSet cs;
    cs.name = "construct:" + name;
    cs.n = tr.size();
    cs.counter_names = {"constructor_refused(exception)"};
    cs.desc = [&](long long i) { return trans_str(T, SS, tr[i]); };
    cs.crash_sig = [&](long long i, const std::string &oc) {
        const Trans &t = tr[i];
        int nb = T.bin_names.size();
        std::string o = (t.op < nb ? T.bin_names[t.op] : T.un_names[t.op - nb]) + "(" + cls(*SS.S[t.a].e, 1);
        if (t.op < nb)
            o += "," + cls(*SS.S[t.b].e, 1);
        return "construct:" + oc + ":" + o + ")";
    };
    cs.body = [&](long long i, Ctx &c) {
        try {
            RCP<const Basic> r = apply_trans(T, SS, tr[i]);
            (void)r;
        } catch (std::exception &) {
            c.count(0); // refusal; constructor behaviour is judged by C06/C07, not here
        }
    };
    run_cases(cs);
    int first = SS.size();
    for (size_t i = 0; i < tr.size(); i++) {
        if (cs.bad.count(i))
            continue;
        try {
            RCP<const Basic> r = apply_trans(T, SS, tr[i]);
            SS.add(r, trans_str(T, SS, tr[i]), depth);
        } catch (std::exception &) {
        }
    }
    return first;
}

} // namespace a12
#endif
