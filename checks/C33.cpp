// C33  The prime sieve yields exactly the primes after any call history -- E2 operation histories (DESIGN 5 C33)
//
// Every sequence of <= D operations from a 27-op menu is executed on the real, process-global Sieve starting
// from its initial state (and from five fixed prefix histories that pre-set clear=false / a small segment /
// a pre-grown cache).  Each generate_primes result is compared with a reference prime table, each iterator
// value with the prime sequence; ASan/UBSan reports abort the worker and are violations.  Histories are only
// extended from prefixes that executed cleanly (a crashed process has no successor state).
#include "common.h"
#include "key.h"
#include <sys/prctl.h>
using namespace verif;

// ------------------------------------------------------------------ reference primes
static std::vector<unsigned> P;      // all primes <= PMAX ascending
static std::vector<unsigned> PICNT;  // pi(n) for n <= PMAX
static const unsigned PMAX = 1300000;
static void build_reference()
{
    // boring non-segmented Eratosthenes ...
    std::vector<char> comp(PMAX + 1, 0);
    for (unsigned long i = 2; i * i <= PMAX; i++)
        if (!comp[i])
            for (unsigned long j = i * i; j <= PMAX; j += i)
                comp[j] = 1;
    PICNT.assign(PMAX + 1, 0);
    for (unsigned i = 2; i <= PMAX; i++) {
        if (!comp[i])
            P.push_back(i);
        PICNT[i] = P.size();
    }
    // ... cross-checked against plain trial division on the range all menu limits but the default-size ones live in
    size_t k = 0;
    for (unsigned n = 2; n <= 70000; n++) {
        bool pr = true;
        for (unsigned d = 2; d * d <= n; d++)
            if (n % d == 0) {
                pr = false;
                break;
            }
        if (pr) {
            if (P[k] != n) {
                fprintf(stderr, "reference table disagrees with trial division at %u\n", n);
                exit(2);
            }
            k++;
        }
    }
    if (P[k] <= 70000) {
        fprintf(stderr, "reference table has an extra prime %u\n", P[k]);
        exit(2);
    }
}

// ------------------------------------------------------------------ operations
enum Kind { GEN, NEW, NEXT, DESTROY, CLEAR, SETCLEAR, SETSIZE };
struct Op {
    Kind k;
    unsigned a;
    std::string name;
};
static std::vector<Op> OPS;
static int NOPS;
static void build_menu()
{
    // limits: tiny / inside the initial 10-prime cache (29) / just above it / 100;
    // 900 = 30^2 (sqrt_limit == start, recursion no-op), 961 = 31^2 (needs the prime 31 found by the recursive pre-extension);
    // set_sieve_size(1): one segment covers 16384 numbers: 16384 and 30+16384 = 16414 (seam if no pre-extension happened),
    // 16512 / 16513 = last limit inside / first limit beyond the first segment from the fresh state (start = 128 after the
    // recursive extension to sqrt), 32797 and 50000: 2 and 3-4 segments.
    for (unsigned L : {1u, 2u, 10u, 29u, 30u, 31u, 100u, 900u, 961u, 16384u, 16414u, 16512u, 16513u, 32797u, 50000u})
        OPS.push_back({GEN, L, "gen(" + std::to_string(L) + ")"});
    for (unsigned l : {0u, 10u, 100u, 20000u})
        OPS.push_back({NEW, l, "it=iterator(" + std::to_string(l) + ")"});
    OPS.push_back({NEXT, 1, "it.next"});
    OPS.push_back({NEXT, 15, "it.next*15"});
    OPS.push_back({DESTROY, 0, "~it"});
    OPS.push_back({CLEAR, 0, "clear()"});
    OPS.push_back({SETCLEAR, 1, "set_clear(true)"});
    OPS.push_back({SETCLEAR, 0, "set_clear(false)"});
    OPS.push_back({SETSIZE, 1, "set_sieve_size(1)"});
    OPS.push_back({SETSIZE, 2, "set_sieve_size(2)"});
    NOPS = OPS.size();
}
static int opidx(const std::string &n)
{
    for (int i = 0; i < NOPS; i++)
        if (OPS[i].name == n)
            return i;
    fprintf(stderr, "no op %s\n", n.c_str());
    exit(2);
}

typedef std::vector<int> Hist;
static std::string hstr(const Hist &h)
{
    std::string s;
    for (size_t i = 0; i < h.size(); i++)
        s += (i ? "; " : "") + OPS[h[i]].name;
    return s;
}
// static applicability: iterator ops need a live iterator, at most 2 live
static bool applicable(const Hist &h)
{
    int live = 0;
    for (int o : h) {
        switch (OPS[o].k) {
            case NEW:
                if (live >= 2)
                    return false;
                live++;
                break;
            case NEXT:
                if (live == 0)
                    return false;
                break;
            case DESTROY:
                if (live == 0)
                    return false;
                live--;
                break;
            default:
                break;
        }
    }
    return true;
}

struct It {
    std::unique_ptr<Sieve::iterator> it;
    unsigned limit;
    unsigned calls = 0;
};

// bring the global sieve back to the state of a fresh process (only through the public interface)
static bool reset_sieve(std::string &why)
{
    Sieve::set_clear(true);
    Sieve::set_sieve_size(32);
    Sieve::clear();
    if (Sieve::_clear != true || Sieve::_sieve_size != 32u * 1024 * 8) { // read-only peek at the private settings
        why = "after reset: _clear=" + std::to_string(Sieve::_clear) + " _sieve_size=" + std::to_string(Sieve::_sieve_size);
        return false;
    }
    return true;
}

struct Exec {
    bool ok = true;
    std::string sig, desc; // first violation
    std::string trace;     // compact observation trace (for fresh-vs-reset comparison and outcomes)
    unsigned observations = 0, gens = 0, nexts = 0, sentinels = 0, post_limit_primes = 0;
};

// run a history on the real sieve, checking every observation against the reference
static Exec execute(const Hist &h)
{
    Exec x;
    std::vector<It> its;
    auto fail = [&](const std::string &sig, const std::string &d) {
        if (x.ok) {
            x.ok = false;
            x.sig = sig;
            x.desc = d;
        }
    };
    for (size_t step = 0; step < h.size() && x.ok; step++) {
        const Op &o = OPS[h[step]];
        switch (o.k) {
            case GEN: {
                std::vector<unsigned> v;
                Sieve::generate_primes(v, o.a);
                x.observations++;
                x.gens++;
                size_t want = PICNT[o.a];
                x.trace += "g" + std::to_string(v.size()) + ",";
                if (v.size() != want || !std::equal(v.begin(), v.end(), P.begin())) {
                    // classify the first difference
                    size_t d = 0;
                    while (d < v.size() && d < want && v[d] == P[d])
                        d++;
                    std::string cls, det;
                    if (d == v.size()) {
                        cls = "missing-tail";
                        det = "result stops after " + (d ? std::to_string(v[d - 1]) : std::string("nothing")) + ", missing " + std::to_string(P[d]) + " .. (" + std::to_string(want - d) + " primes)";
                    } else if (d == want) {
                        cls = v[d] > o.a ? "beyond-limit" : (v[d] <= v[d - 1] ? "repeat-or-disorder" : "extra");
                        det = "extra element " + std::to_string(v[d]) + " after the last expected prime";
                    } else {
                        bool isprime = v[d] <= PMAX && PICNT[v[d]] != PICNT[v[d] - 1];
                        if (d > 0 && v[d] <= v[d - 1])
                            cls = "repeat-or-disorder";
                        else if (v[d] > P[d])
                            cls = "gap";
                        else
                            cls = isprime ? "repeat-or-disorder" : "composite";
                        det = "element " + std::to_string(d) + " is " + std::to_string(v[d]) + ", expected " + std::to_string(P[d]);
                    }
                    fail("generate_primes:wrong-result:" + cls, "step " + std::to_string(step + 1) + " " + o.name + " returned " + std::to_string(v.size()) + " numbers, expected the " + std::to_string(want) + " primes <= " + std::to_string(o.a) + ": " + det);
                }
                break;
            }
            case NEW: {
                It t;
                t.limit = o.a;
                if (o.a == 0)
                    t.it.reset(new Sieve::iterator());
                else
                    t.it.reset(new Sieve::iterator(o.a));
                its.push_back(std::move(t));
                x.trace += "n,";
                break;
            }
            case NEXT: {
                It &t = its.back();
                for (unsigned r = 0; r < o.a && x.ok; r++) {
                    unsigned v = t.it->next_prime();
                    x.observations++;
                    x.nexts++;
                    unsigned want = P[t.calls];
                    if (t.limit == 0 || want <= t.limit) {
                        if (v != want)
                            fail(std::string("iterator:wrong-prime:") + (v == want ? "" : v < want ? "repeat-or-small" : "gap"),
                                 "step " + std::to_string(step + 1) + " " + o.name + ": call #" + std::to_string(t.calls + 1) + " of iterator(limit=" + std::to_string(t.limit) + ") returned " + std::to_string(v) + ", expected prime " + std::to_string(want));
                        t.calls++;
                        x.trace += "p" + std::to_string(v) + ",";
                    } else {
                        // past the limit: any value > limit ends the iteration for a caller (limit+1 sentinel or a cached larger prime)
                        if (v <= t.limit)
                            fail("iterator:value-within-limit-after-exhaustion",
                                 "step " + std::to_string(step + 1) + " " + o.name + ": iterator(limit=" + std::to_string(t.limit) + ") already yielded all " + std::to_string(t.calls) + " primes <= limit but returned " + std::to_string(v));
                        if (v == t.limit + 1)
                            x.sentinels++;
                        else
                            x.post_limit_primes++;
                        x.trace += "e" + std::to_string(v) + ",";
                    }
                }
                break;
            }
            case DESTROY:
                its.pop_back();
                x.trace += "d,";
                break;
            case CLEAR:
                Sieve::clear();
                x.trace += "c,";
                break;
            case SETCLEAR:
                Sieve::set_clear(o.a != 0);
                x.trace += "s,";
                break;
            case SETSIZE:
                Sieve::set_sieve_size(o.a);
                x.trace += "z,";
                break;
        }
    }
    while (!its.empty())
        its.pop_back();
    return x;
}

// ------------------------------------------------------------------ sanitizer report classification
// The sanitizer runtime would start an external symbolizer on the (200 MB) executable for every report, i.e. for every
// crashing history: seconds each.  Reports are therefore left unsymbolized (ASAN_OPTIONS from the environment still win);
// the parent resolves the frames of the first witness of each signature with one addr2line call.
extern "C" const char *__asan_default_options()
{
    return "symbolize=0";
}

static const char *api_of(const Op &o)
{
    switch (o.k) {
        case GEN:
            return "generate_primes";
        case NEW:
            return "iterator::iterator";
        case NEXT:
            return "iterator::next_prime";
        case DESTROY:
            return "iterator::~iterator";
        case CLEAR:
            return "clear";
        case SETCLEAR:
            return "set_clear";
        default:
            return "set_sieve_size";
    }
}

struct Report {
    std::string kind, access;
    std::vector<std::string> offsets; // frames inside the driver executable
    int status = 0;
};
// run `work` in a child with stderr captured and parse the sanitizer report
static Report capture_report(const std::function<void()> &work, double limit_s = 40)
{
    Report rp;
    char path[] = "/tmp/verif-c33-XXXXXX";
    int fd = mkstemp(path);
    if (fd < 0)
        return rp;
    fflush(stdout);
    fflush(stderr);
    pid_t p = fork();
    if (p == 0) {
        prctl(PR_SET_PDEATHSIG, SIGKILL);
        dup2(fd, 2);
        work();
        _exit(0);
    }
    double t0 = now();
    while (waitpid(p, &rp.status, WNOHANG) != p) {
        if (now() - t0 > limit_s) {
            kill(p, SIGKILL);
            waitpid(p, &rp.status, 0);
            rp.status = -1; // hang
            break;
        }
        usleep(1000);
    }
    close(fd);
    std::ifstream f(path);
    std::string line;
    while (std::getline(f, line)) {
        size_t q;
        if (rp.kind.empty() && (q = line.find("ERROR: AddressSanitizer: ")) != std::string::npos) {
            std::string r = line.substr(q + 25);
            rp.kind = "asan:" + r.substr(0, r.find(' '));
        } else if (rp.kind.empty() && (q = line.find("runtime error: ")) != std::string::npos) {
            std::string r = line.substr(q + 15), t;
            for (char ch : r) // strip numbers so that one defect gives one class
                if (!isdigit((unsigned char)ch))
                    t += ch;
            rp.kind = "ubsan:" + t.substr(0, 60);
        } else if (rp.access.empty() && (line.rfind("READ of size", 0) == 0 || line.rfind("WRITE of size", 0) == 0)) {
            rp.access = line.substr(0, line.find(" at "));
        } else if (line.find("    #") == 0 && (q = line.find("/C33+0x")) != std::string::npos && rp.offsets.size() < 10) {
            std::string r = line.substr(q + 5);
            rp.offsets.push_back(r.substr(0, r.find(')')));
        } else if (line.find("SUMMARY:") == 0)
            break; // frames of the allocation stack etc. are not wanted
        else if (line.find("is located") != std::string::npos)
            break;
    }
    unlink(path);
    return rp;
}
// one addr2line call: first library frame "function at file:line"
static std::string resolve_frames(const std::vector<std::string> &offs)
{
    if (offs.empty())
        return "";
    std::string cmd = "addr2line -f -C -e /proc/" + std::to_string(getpid()) + "/exe";
    for (auto &o : offs)
        cmd += " " + o;
    cmd += " 2>/dev/null";
    FILE *pp = popen(cmd.c_str(), "r");
    if (!pp)
        return "";
    char buf[2048];
    std::vector<std::string> lines;
    while (fgets(buf, sizeof buf, pp)) {
        std::string l = buf;
        while (!l.empty() && (l.back() == '\n' || l.back() == '\r'))
            l.pop_back();
        lines.push_back(l);
    }
    pclose(pp);
    for (size_t i = 0; i + 1 < lines.size(); i += 2)
        if (lines[i].find("SymEngine::") != std::string::npos) {
            std::string fn = lines[i].substr(0, lines[i].find('('));
            return fn + " at " + lines[i + 1];
        }
    return "";
}
static std::set<std::string> resolved_sigs;
static std::string classify_crash(const Hist &full, std::string &detail)
{
    Report rp = capture_report([&]() {
        std::string why;
        reset_sieve(why);
        execute(full);
    });
    std::string sig;
    if (rp.kind.empty())
        sig = WIFSIGNALED(rp.status) ? std::string("signal:") + strsignal(WTERMSIG(rp.status)) + ":" + api_of(OPS[full.back()]) : std::string("not-reproduced-in-classifier:") + api_of(OPS[full.back()]);
    else
        sig = rp.kind + ":" + api_of(OPS[full.back()]);
    detail = rp.access;
    if (resolved_sigs.insert(sig + "|" + rp.access).second) {
        std::string fr = resolve_frames(rp.offsets);
        if (!fr.empty())
            detail += " in " + fr;
    }
    return sig;
}

// modelled settings at the end of a history (only for grouping crash shapes; never used as an oracle)
static std::string shape_of(const Hist &full)
{
    int size = 32, clear = 1, live = 0;
    for (int o : full) {
        if (OPS[o].k == SETSIZE)
            size = OPS[o].a;
        if (OPS[o].k == SETCLEAR)
            clear = OPS[o].a;
        if (OPS[o].k == NEW)
            live++;
        if (OPS[o].k == DESTROY)
            live--;
    }
    (void)clear;
    return OPS[full.back()].name + "|size=" + std::to_string(size) + "|live=" + std::to_string(live);
}

int main(int argc, char **argv)
{
    init(argc, argv, "C33");
    {
        struct rlimit rl = {0, 0};
        setrlimit(RLIMIT_CORE, &rl); // sanitizer aborts must not leave core files
    }
    bool thorough = opts().thorough();
    build_reference();
    build_menu();
    Run &R = run();

    struct Root {
        std::string name;
        Hist h;
        int quick_depth, thorough_depth;
    };
    auto H = [&](std::initializer_list<const char *> l) {
        Hist h;
        for (auto s : l)
            h.push_back(opidx(s));
        return h;
    };
    // Under ASan+UBSan one extension with the default 32K segment costs ~25 ms (a 262144-element valarray is refilled), with
    // set_sieve_size(1) ~1 ms: the deep enumeration therefore starts after set_sieve_size(1); the untouched initial state
    // ("fresh") is enumerated to a smaller depth and its seam is covered by the default-size list below.
    std::vector<Root> roots = {
        {"fresh", {}, 2, 3},
        {"seg1", H({"set_sieve_size(1)"}), 2, 4},
        {"keep+seg1", H({"set_clear(false)", "set_sieve_size(1)"}), 2, 5},
        {"keep+seg1+grown100", H({"set_clear(false)", "set_sieve_size(1)", "gen(100)"}), 2, 3},
        {"keep+seg1+grown16512", H({"set_clear(false)", "set_sieve_size(1)", "gen(16512)"}), 2, 3},
        {"seg1+iter15", H({"set_sieve_size(1)", "it=iterator(0)", "it.next*15"}), 2, 3}, // a live iterator whose index is beyond the initial cache
        // a live iterator far enough ahead (46 primes) that ONE doubling of the cleared 10-prime cache does not reach its position again:
        // re-growth after clear()/auto-clear needs several rounds (added after seeded change C33 escaped the 15-prime root)
        {"seg1+iter46", H({"set_sieve_size(1)", "it=iterator(0)", "it.next*15", "it.next*15", "it.next*15", "it.next"}), 2, 2},
        {"keep+iter46", H({"set_clear(false)", "it=iterator(0)", "it.next*15", "it.next*15", "it.next*15", "it.next"}), 2, 2},
    };
    std::map<std::string, std::string> shape_memo; // crash shape -> signature
    std::map<std::string, std::string> shape_detail;
    // dead[r][len] = codes of histories of that length (after root r) that crashed or violated: never extended
    std::vector<std::vector<std::unordered_set<long long>>> dead(roots.size(), std::vector<std::unordered_set<long long>>(8));
    std::set<int> risky_ops;
    std::vector<int> completed(roots.size(), 0);
    std::vector<bool> stopped(roots.size(), false);

    auto quiet_worker = [&]() {
        // sanitizer reports of crashing workers would flood the log; the parent classifies crashes itself
        static bool quieted = false; // inherited by probe children, whose stderr is captured instead
        if (replaying() || quieted)
            return;
        quieted = true;
        int dn = open("/dev/null", O_WRONLY);
        if (dn >= 0) {
            dup2(dn, 2);
            close(dn);
        }
    };

    auto run_layer = [&](size_t r, int d) {
        const Root &root = roots[r];
        if (stopped[r] || completed[r] != d - 1)
            return;
        if (past_deadline() && !replaying()) {
            R.exhaustive = false;
            R.counters["layers_not_started_deadline"]++;
            stopped[r] = true;
            return;
        }
        long long n = 1;
        for (int t = 0; t < d; t++)
            n *= NOPS;
        auto full_of = [&, d](long long i) {
            Hist f = root.h;
            size_t b = f.size();
            f.resize(b + d);
            for (int t = d - 1; t >= 0; t--) {
                f[b + t] = i % NOPS;
                i /= NOPS;
            }
            return f;
        };
        // 0 run, 1 dead prefix, 2 inapplicable
        auto status = [&, d](long long i) {
            long long c = i;
            for (int len = d - 1; len >= 1; len--) {
                c /= NOPS;
                if (dead[r][len].count(c))
                    return 1;
            }
            return applicable(full_of(i)) ? 0 : 2;
        };
        CaseSet cs;
        cs.name = "hist:" + root.name + ":d" + std::to_string(d);
        cs.n = n;
        cs.hang_s = 60;
        cs.counter_names = {"histories_executed", "skipped_prefix_crashed_or_violated", "skipped_inapplicable_iterator_op", "generate_primes_calls", "next_prime_calls",
                            "iterator_limit_sentinels", "iterator_cached_primes_beyond_limit", "reset_failed", "probe_children", "probe_children_aborted"};
        cs.desc = [&](long long i) { return "[" + hstr(full_of(i)) + "]"; };
        auto run_and_report = [&](const Hist &f, long long i, Ctx &c) {
            std::string why;
            if (!reset_sieve(why)) {
                c.count(7);
                c.violation("reset-failed", why);
                return;
            }
            Exec x = execute(f);
            reset_sieve(why);
            c.eval(f.size());
            c.count(0);
            c.count(3, x.gens);
            c.count(4, x.nexts);
            c.count(5, x.sentinels);
            c.count(6, x.post_limit_primes);
            if (x.observations)
                c.nontrivial();
            c.outcome(x.trace.substr(0, 100));
            if (!x.ok)
                c.violation(x.sig, "history [" + hstr(f) + "]: " + x.desc);
            if (i % 5003 == 0)
                c.sample("{\"history\":" + jstr(hstr(f)) + ",\"trace\":" + jstr(x.trace.substr(0, 200)) + ",\"ok\":" + (x.ok ? "true" : "false") + "}");
        };
        cs.body = [&](long long i, Ctx &c) {
            int s = status(i);
            if (s) {
                c.count(s);
                return;
            }
            quiet_worker();
            Hist f = full_of(i);
            if (replaying() || !risky_ops.count(f.back())) {
                run_and_report(f, i, c);
                return;
            }
            // The last operation has aborted the process in an earlier layer: execute this history in a probe child of the
            // worker, so that a sanitizer abort costs one process instead of a worker respawn plus a re-run by the parent.
            // (Only a cost optimisation: histories that crash unexpectedly are still caught by the case runner.)
            fflush(c.out);
            Report rp = capture_report([&]() {
                run_and_report(f, i, c);
                fflush(c.out);
            });
            c.count(8);
            if (WIFEXITED(rp.status) && WEXITSTATUS(rp.status) == 0)
                return;
            c.count(9);
            c.eval(f.size());
            c.count(0);
            std::string sig = rp.status == -1 ? "hang:" + OPS[f.back()].name
                              : !rp.kind.empty() ? rp.kind + ":" + api_of(OPS[f.back()])
                              : WIFSIGNALED(rp.status) ? std::string("signal:") + strsignal(WTERMSIG(rp.status)) + ":" + api_of(OPS[f.back()])
                                                       : "exit:" + std::to_string(WEXITSTATUS(rp.status)) + ":" + api_of(OPS[f.back()]);
            c.outcome("abort:" + sig);
            c.violation(sig, "process aborted (" + (rp.access.empty() ? std::string("no sanitizer access line") : rp.access) + ") in history [" + hstr(f) + "]");
        };
        cs.crash_sig = [&](long long i, const std::string &oc) {
            Hist f = full_of(i);
            if (oc == "hang")
                return "hang:" + OPS[f.back()].name;
            std::string sh = shape_of(f);
            auto it = shape_memo.find(sh);
            if (it == shape_memo.end()) {
                std::string det;
                std::string sig = classify_crash(f, det);
                shape_memo[sh] = sig;
                shape_detail[sh] = det;
                printf("CRASH-CLASS shape=%s => %s (%s) e.g. [%s]\n", sh.c_str(), sig.c_str(), det.c_str(), hstr(f).c_str());
                return sig;
            }
            return it->second;
        };
        double t_layer = now();
        run_cases(cs);
        if (replaying()) {
            completed[r] = d; // nothing was executed; indices of deeper layers do not depend on earlier results
            return;
        }
        printf("LAYER %s indices=%lld crashed_or_violated=%zu wall=%.1fs\n", cs.name.c_str(), n, cs.bad.size(), now() - t_layer);
        for (long long b : cs.bad) {
            dead[r][d].insert(b);
            risky_ops.insert(full_of(b).back()); // from now on histories ending in this operation run in a probe child
        }
        if (R.counters.count(cs.name + ":cut_by_deadline")) {
            stopped[r] = true;
            return;
        }
        completed[r] = d;
    };
    auto run_root = [&](size_t r, int upto) {
        for (int d = 1; d <= upto; d++)
            run_layer(r, d);
    };
    // breadth first over the roots; the deepest layers (deadline-capped in the thorough tier) run last, after the side checks
    for (size_t r = 0; r < roots.size(); r++)
        run_root(r, thorough ? std::min(roots[r].thorough_depth, 3) : roots[r].quick_depth);

    // ---------------------------------------------------------------- default segment size (32K => 524288 numbers per segment)
    {
        // fresh-state seam: start = 720 after the recursive extension to sqrt(L) ~ 724 => first segment ends at 720+524288 = 525008
        std::vector<unsigned> LS = {100, 524288, 524318, 525008, 525009, 525010, 600000, 1100000};
        long long m = LS.size();
        CaseSet cs;
        cs.name = "default-size";
        cs.n = m + m * m;
        cs.hang_s = 120;
        cs.counter_names = {"default_size_histories"};
        auto hist = [&](long long i, bool &keep) {
            std::vector<unsigned> ls;
            if (i < m) {
                keep = false;
                ls = {LS[i]};
            } else {
                keep = true;
                ls = {LS[(i - m) / m], LS[(i - m) % m]};
            }
            return ls;
        };
        cs.desc = [&, hist](long long i) {
            bool keep;
            auto ls = hist(i, keep);
            std::string s = keep ? "[set_clear(false); " : "[";
            for (size_t t = 0; t < ls.size(); t++)
                s += (t ? "; " : "") + std::string("gen(") + std::to_string(ls[t]) + ")";
            return s + "] (default sieve size 32)";
        };
        auto direct = [&, hist](long long i, Ctx &c) {
            bool keep;
            auto ls = hist(i, keep);
            std::string why;
            quiet_worker();
            reset_sieve(why);
            Sieve::set_clear(!keep);
            c.count(0);
            std::string tr;
            for (size_t t = 0; t < ls.size(); t++) {
                std::vector<unsigned> v;
                Sieve::generate_primes(v, ls[t]);
                c.eval();
                c.nontrivial();
                tr += "g" + std::to_string(v.size()) + ",";
                if (v.size() != PICNT[ls[t]] || !std::equal(v.begin(), v.end(), P.begin())) {
                    size_t d = 0;
                    while (d < v.size() && d < PICNT[ls[t]] && v[d] == P[d])
                        d++;
                    c.violation("generate_primes:wrong-result:default-size", cs.desc(i) + ": call " + std::to_string(t + 1) + " returned " + std::to_string(v.size()) + " numbers, expected " + std::to_string(PICNT[ls[t]])
                                                                                 + "; first difference at element " + std::to_string(d));
                    break;
                }
            }
            c.outcome("default:" + tr);
            reset_sieve(why);
        };
        cs.body = [&, direct](long long i, Ctx &c) {
            if (replaying()) {
                direct(i, c);
                return;
            }
            // every default-size history runs in a probe child of the worker (5 of the 8 limits cross the seam and abort)
            quiet_worker();
            fflush(c.out);
            Report rp = capture_report(
                [&]() {
                    direct(i, c);
                    fflush(c.out);
                },
                100);
            if (WIFEXITED(rp.status) && WEXITSTATUS(rp.status) == 0)
                return;
            c.eval();
            c.nontrivial();
            std::string sig = (rp.status == -1 ? std::string("hang") : rp.kind.empty() ? std::string("crash") : rp.kind) + ":generate_primes:default-size";
            c.outcome("abort:" + sig);
            c.violation(sig, "process aborted (" + rp.access + ") in history " + cs.desc(i));
        };
        cs.crash_sig = [&, hist](long long i, const std::string &oc) {
            bool keep;
            auto ls = hist(i, keep);
            if (oc == "hang")
                return std::string("hang:default-size");
            static std::map<int, std::string> memo;
            if (memo.count(keep))
                return memo[keep];
            Report rp = capture_report([&]() {
                std::string why;
                reset_sieve(why);
                Sieve::set_clear(!keep);
                for (unsigned L : ls) {
                    std::vector<unsigned> v;
                    Sieve::generate_primes(v, L);
                }
            });
            std::string sig = (rp.kind.empty() ? "crash" : rp.kind) + ":generate_primes:default-size";
            std::string fr = resolve_frames(rp.offsets);
            printf("CRASH-CLASS default-size => %s (%s%s) e.g. %s\n", sig.c_str(), rp.access.c_str(), fr.empty() ? "" : (" in " + fr).c_str(), cs.desc(i).c_str());
            memo[keep] = sig;
            return sig;
        };
        double t_side = now();
        if (!past_deadline() || replaying())
            run_cases(cs);
        else
            R.exhaustive = false;
        if (!replaying())
            printf("SIDE default-size cases=%lld wall=%.1fs\n", cs.n, now() - t_side);
    }

    // ---------------------------------------------------------------- reset == fresh process (all histories of depth <= 2 from every root)
    {
        // Each case runs the history twice: in a freshly forked grandchild that never touched the sieve before (state of a new
        // process), and in the long-lived worker after reset_sieve().  Equal traces justify running many histories per worker.
        struct FH {
            Hist h;
        };
        std::vector<Hist> hs;
        for (auto &root : roots)
            for (int d = 1; d <= ((thorough ? root.h.size() <= 2 : root.name == "keep+seg1") ? 2 : 1); d++) {
                long long n = d == 1 ? NOPS : NOPS * NOPS;
                for (long long i = 0; i < n; i++) {
                    Hist f = root.h;
                    if (d == 2)
                        f.push_back(i / NOPS);
                    f.push_back(i % NOPS);
                    if (applicable(f))
                        hs.push_back(f);
                }
            }
        CaseSet cs;
        cs.name = "fresh-vs-reset";
        cs.n = hs.size();
        cs.hang_s = 60;
        cs.counter_names = {"fresh_process_runs", "fresh_process_crashed_too", "traces_equal"};
        cs.desc = [&](long long i) { return "[" + hstr(hs[i]) + "] fresh process vs reset"; };
        cs.body = [&](long long i, Ctx &c) {
            int pfd[2];
            if (pipe(pfd) != 0)
                return;
            fflush(stdout);
            pid_t p = fork();
            if (p == 0) {
                close(pfd[0]);
                int dn = open("/dev/null", O_WRONLY);
                dup2(dn, 2);
                Exec x = execute(hs[i]); // no reset: state inherited from the parent driver, which never used the sieve
                std::string t = (x.ok ? "ok|" : "bad|") + x.trace;
                if (write(pfd[1], t.data(), t.size()) < 0)
                    _exit(4);
                _exit(0);
            }
            close(pfd[1]);
            std::string fresh;
            char buf[4096];
            ssize_t k;
            while ((k = read(pfd[0], buf, sizeof buf)) > 0)
                fresh.append(buf, k);
            close(pfd[0]);
            int st = 0;
            waitpid(p, &st, 0);
            c.count(0);
            c.eval();
            if (!(WIFEXITED(st) && WEXITSTATUS(st) == 0)) {
                // crashes are reported by the history layers; here we only record that the crash is not an artefact of reset
                c.count(1);
                c.outcome("fresh-crash");
                return;
            }
            // before running in-process make sure the worker is not about to die on a history the layers already reported
            std::string why;
            reset_sieve(why);
            Exec x = execute(hs[i]);
            reset_sieve(why);
            std::string here = (x.ok ? "ok|" : "bad|") + x.trace;
            c.nontrivial();
            c.outcome("same:" + std::string(here == fresh ? "1" : "0"));
            if (here == fresh)
                c.count(2);
            else
                c.violation("reset-not-equivalent-to-fresh-process", "[" + hstr(hs[i]) + "]: fresh process trace " + fresh.substr(0, 300) + " vs after reset " + here.substr(0, 300));
        };
        // a history that crashes in-process after being clean in the fresh process is a state-dependent crash: default signature
        double t_side = now();
        if (!past_deadline() || replaying())
            run_cases(cs);
        else
            R.exhaustive = false;
        if (!replaying())
            printf("SIDE fresh-vs-reset cases=%lld wall=%.1fs\n", cs.n, now() - t_side);
    }

    if (thorough)
        for (int d = 4; d <= 5; d++) // deepest layers last: deadline-capped
            for (size_t r = 0; r < roots.size(); r++)
                if (roots[r].thorough_depth >= d) {
                    if (replaying())
                        completed[r] = d - 1; // layers are skipped in replay mode; indices do not depend on them
                    run_layer(r, d);
                }
    std::string bounds;
    for (size_t r = 0; r < roots.size(); r++)
        bounds += (r ? "; " : "") + roots[r].name + ": depth<=" + std::to_string(completed[r]) + (stopped[r] ? " (+ partial depth " + std::to_string(completed[r] + 1) + ")" : "");
    for (auto &kv : shape_memo)
        R.counters["crash_shapes"]++;
    R.states = R.counters["histories_executed"];
    R.transitions = R.evaluations;
    R.bound_completed = "all histories over " + std::to_string(NOPS) + " ops: " + bounds + "; default-size boundary list; reset==fresh for depth<=2";
    R.rule = "every sequence of operations {generate_primes(L) for 15 limits around the cache/segment/square boundaries, iterator new(4 limits)/next/next*15/destroy (<=2 live), clear, "
             "set_clear(t/f), set_sieve_size(1|2)} up to the stated depth after each root prefix, executed on the real global Sieve (reset through the public API between histories, "
             "cross-validated against fresh processes); histories are extended only from prefixes that ran cleanly. distinct_nontrivial = executed histories with at least one observed result";
    R.assumptions = {"reference primes: plain Eratosthenes table cross-checked against trial division up to 70000", "ASan/UBSan (with libstdc++ vector annotations) detect out-of-bounds accesses",
                     "an iterator past its limit may return any value > limit (limit+1 sentinel or a cached larger prime), which is how all library callers use it",
                     "the cached prime vector itself is not observable (function-local static); state equivalence of reset is established observationally"};
    return R.finish();
}
