// C38  Finite-difference weights are exact -- E5 full grid table, exact mpq decision (DESIGN 5 C38)
//
// For a grid g_0..g_{n-1} of distinct points the weights w_{i,k} of derivative order k are the unique
// solution of the n linear conditions  sum_i w_{i,k} g_i^j = d^k x^j/dx^k |_{x=c}  (j = 0..n-1), the
// Vandermonde matrix being invertible.  Checking these conditions exactly on the monomial basis therefore
// decides the weights completely (and, by linearity, the statement for every polynomial of degree < n).
#include "common.h"
#include "key.h"
using namespace verif;

static std::vector<mpq_class> PTS;
static std::vector<RCP<const Basic>> PTSB;
static std::vector<mpq_class> CEN;
static std::vector<RCP<const Basic>> CENB;

static RCP<const Basic> qb(const mpq_class &q)
{
    return Rational::from_two_ints(*integer(integer_class(q.get_num().get_str())), *integer(integer_class(q.get_den().get_str())));
}
static bool to_q(const Basic &e, mpq_class &out)
{
    if (is_a<Integer>(e)) {
        out = mpq_class(to_mpz(down_cast<const Integer &>(e).as_integer_class()));
        return true;
    }
    if (is_a<Rational>(e)) {
        out = to_mpq(down_cast<const Rational &>(e).as_rational_class());
        return true;
    }
    return false;
}
static mpq_class qpow(const mpq_class &b, unsigned e)
{
    mpq_class r = 1;
    for (unsigned i = 0; i < e; i++)
        r *= b;
    return r;
}
// d^k/dx^k x^j at c
static mpq_class dmono(unsigned j, unsigned k, const mpq_class &c)
{
    if (k > j)
        return 0;
    mpq_class f = 1;
    for (unsigned t = 0; t < k; t++)
        f *= (j - t);
    return f * qpow(c, j - k);
}

struct Grid {
    std::vector<int> p; // indices into PTS, ordered
};
static std::vector<Grid> GRIDS;
static void gen_grids(int maxsize)
{
    // simplest first: by size, then lexicographic
    int P = PTS.size();
    for (int sz = 1; sz <= maxsize; sz++) {
        std::vector<int> cur;
        std::function<void()> rec = [&]() {
            if ((int)cur.size() == sz) {
                GRIDS.push_back(Grid{cur});
                return;
            }
            for (int i = 0; i < P; i++) {
                if (std::find(cur.begin(), cur.end(), i) != cur.end())
                    continue;
                cur.push_back(i);
                rec();
                cur.pop_back();
            }
        };
        rec();
    }
}

static std::string gridstr(const Grid &g)
{
    std::string s = "[";
    for (size_t i = 0; i < g.p.size(); i++)
        s += (i ? "," : "") + PTS[g.p[i]].get_str();
    return s + "]";
}

int main(int argc, char **argv)
{
    init(argc, argv, "C38");
    bool thorough = opts().thorough();
    // points: sign classes, zero, integers, non-integers, unequal spacing, collisions with the centres
    for (const char *s : {"0", "1", "-1", "2", "-2", "1/3", "-1/2", "3"})
        PTS.push_back(mpq_class(s));
    for (const char *s : {"0", "1/2", "-1", "7/3"})
        CEN.push_back(mpq_class(s));
    for (auto &q : PTS)
        PTSB.push_back(qb(q));
    for (auto &q : CEN)
        CENB.push_back(qb(q));
    const int maxsize = thorough ? 6 : 5;
    gen_grids(maxsize);
    const long long NG = GRIDS.size(), NC = CEN.size();
    const int NORD = maxsize + 2; // max_deriv in 0..size+1 (orders >= size must give all-zero weights)

    // ---------------------------------------------------------------- numeric grids
    CaseSet cs;
    cs.name = "rational-grid";
    cs.n = NG * NC * NORD;
    cs.counter_names = {"weight_vectors", "monomial_conditions", "max_deriv_above_size_cases", "order_ge_size_rows", "centre_on_grid_point",
                        "not_applicable_max_deriv"};
    auto decode = [&](long long i, long long &g, int &c, int &md) {
        md = i % NORD;
        c = (i / NORD) % NC;
        g = i / NORD / NC;
    };
    cs.desc = [&](long long i) {
        long long g;
        int c, md;
        decode(i, g, c, md);
        return "generate_fdiff_weights_vector(grid=" + gridstr(GRIDS[g]) + ", max_deriv=" + std::to_string(md) + ", around=" + CEN[c].get_str() + ")";
    };
    cs.body = [&](long long i, Ctx &c) {
        long long gi;
        int ci, md;
        decode(i, gi, ci, md);
        const Grid &G = GRIDS[gi];
        const unsigned n = G.p.size();
        if ((unsigned)md > n + 1) {
            c.count(5);
            return;
        }
        vec_basic grid;
        for (int p : G.p)
            grid.push_back(PTSB[p]);
        std::string d = cs.desc(i);
        vec_basic w;
        c.eval();
        c.count(0);
        try {
            w = generate_fdiff_weights_vector(grid, (unsigned)md, CENB[ci]);
        } catch (std::exception &x) {
            c.violation("rational-grid(size=" + std::to_string(n) + "):throws", d + " threw " + x.what());
            c.outcome("throws");
            return;
        }
        if (n >= 2)
            c.nontrivial();
        if ((unsigned)md >= n)
            c.count(2);
        for (int p : G.p)
            if (PTS[p] == CEN[ci]) {
                c.count(4);
                break;
            }
        if (w.size() != (size_t)n * (md + 1)) {
            c.violation("rational-grid:wrong-length", d + " returned " + std::to_string(w.size()) + " weights, expected " + std::to_string(n * (md + 1)));
            return;
        }
        std::vector<mpq_class> wq(w.size());
        for (size_t t = 0; t < w.size(); t++) {
            if (w[t].is_null() || !to_q(*w[t], wq[t])) {
                c.violation("rational-grid:non-rational-weight", d + ": weight[" + std::to_string(t) + "] = " + (w[t].is_null() ? "null" : sstr(w[t])) + " is not a rational number");
                return;
            }
        }
        int nz = 0;
        for (auto &q : wq)
            nz += (q != 0);
        c.outcome("n=" + std::to_string(n) + ",md=" + std::to_string(md) + ",nonzero=" + std::to_string(nz));
        for (unsigned k = 0; k <= (unsigned)md; k++) {
            if (k >= n)
                c.count(3);
            for (unsigned j = 0; j < n; j++) {
                mpq_class s = 0;
                for (unsigned t = 0; t < n; t++)
                    s += wq[t + k * n] * qpow(PTS[G.p[t]], j);
                mpq_class want = dmono(j, k, CEN[ci]);
                c.count(1);
                if (s != want) {
                    std::string ws;
                    for (unsigned t = 0; t < n; t++)
                        ws += (t ? "," : "") + wq[t + k * n].get_str();
                    c.violation("rational-grid(size=" + std::to_string(n) + ",order" + (k >= n ? ">=size" : "<size") + (k == (unsigned)md ? ",k=max" : ",k<max") + "):monomial-condition",
                                d + ": order " + std::to_string(k) + " weights [" + ws + "] applied to x^" + std::to_string(j) + " give " + s.get_str() + ", exact derivative at the centre is " + want.get_str());
                    return;
                }
            }
        }
        if (i % 4001 == 0) {
            std::string ws;
            for (size_t t = 0; t < wq.size(); t++)
                ws += (t ? "," : "") + jstr(wq[t].get_str());
            c.sample("{\"grid\":" + jstr(gridstr(G)) + ",\"around\":" + jstr(CEN[ci].get_str()) + ",\"max_deriv\":" + std::to_string(md) + ",\"weights\":[" + ws + "],\"conditions_checked\":" + std::to_string(n * (md + 1)) + "}");
        }
    };
    run_cases(cs);

    // ---------------------------------------------------------------- symbolic grids
    RCP<const Basic> x0 = symbol("x0"), h = symbol("h"), cc = symbol("c");
    auto lin = [&](int a) { return add(x0, mul(integer(a), h)); }; // x0 + a*h
    std::vector<std::vector<int>> shapes = {{-1, 0, 1}, {0, 1, 3}, {-2, 0, 1}, {0, 1}, {-1, 0, 1, 2}};
    struct SG {
        std::vector<int> off;
    };
    std::vector<SG> sg;
    for (auto sh : shapes) {
        std::sort(sh.begin(), sh.end());
        do
            sg.push_back(SG{sh});
        while (std::next_permutation(sh.begin(), sh.end()));
    }
    std::vector<std::pair<std::string, RCP<const Basic>>> arounds
        = {{"x0", x0}, {"x0+h/2", add(x0, div(h, integer(2)))}, {"c", cc}, {"x0-h", sub(x0, h)}};
    const int SORD = 4;
    CaseSet ss;
    ss.name = "symbolic-grid";
    ss.n = (long long)sg.size() * arounds.size() * SORD;
    ss.counter_names = {"symbolic_weight_vectors", "symbolic_conditions", "decided_by_expand", "expand_left_residue_numeric_ok", "decided_by_second_expand"};
    auto sdesc = [&](long long i) {
        int md = i % SORD;
        int a = (i / SORD) % arounds.size();
        int g = i / SORD / arounds.size();
        std::string s = "generate_fdiff_weights_vector(grid=[";
        for (size_t t = 0; t < sg[g].off.size(); t++)
            s += (t ? "," : "") + std::string("x0") + (sg[g].off[t] == 0 ? "" : (sg[g].off[t] > 0 ? "+" : "") + std::to_string(sg[g].off[t]) + "*h");
        return s + "], max_deriv=" + std::to_string(md) + ", around=" + arounds[a].first + ")";
    };
    ss.desc = sdesc;
    ss.body = [&](long long i, Ctx &c) {
        int md = i % SORD;
        int a = (i / SORD) % arounds.size();
        int g = i / SORD / arounds.size();
        const unsigned n = sg[g].off.size();
        vec_basic grid;
        for (int o : sg[g].off)
            grid.push_back(lin(o));
        std::string d = sdesc(i);
        c.eval();
        c.count(0);
        c.nontrivial();
        vec_basic w;
        try {
            w = generate_fdiff_weights_vector(grid, (unsigned)md, arounds[a].second);
        } catch (std::exception &x) {
            c.violation("symbolic-grid:throws", d + " threw " + x.what());
            return;
        }
        if (w.size() != (size_t)n * (md + 1)) {
            c.violation("symbolic-grid:wrong-length", d + " returned " + std::to_string(w.size()) + " weights");
            return;
        }
        // numeric instantiation used when expand() leaves a residue (cannot decide syntactically)
        map_basic_basic num;
        mpq_class x0q("3/7"), hq("2/5"), cq("11/13");
        num[x0] = qb(x0q);
        num[h] = qb(hq);
        num[cc] = qb(cq);
        for (unsigned k = 0; k <= (unsigned)md; k++)
            for (unsigned j = 0; j < n; j++) {
                c.count(1);
                // expected: j!/(j-k)! * around^(j-k)
                RCP<const Basic> want = zero;
                if (k <= j) {
                    long f = 1;
                    for (unsigned t = 0; t < k; t++)
                        f *= (j - t);
                    want = mul(integer(f), pow(arounds[a].second, integer(j - k)));
                }
                RCP<const Basic> s = zero;
                for (unsigned t = 0; t < n; t++)
                    s = add(s, mul(w[t + k * n], pow(grid[t], integer(j))));
                RCP<const Basic> res = expand(sub(s, want));
                if (eq(*res, *zero)) {
                    c.count(2);
                    c.outcome("expand-zero,k=" + std::to_string(k) + ",j=" + std::to_string(j));
                    continue;
                }
                // expand() may return an Add whose like terms are not merged ((1/2)/h + (-1/2)*h**(-1)): a second pass merges them
                res = expand(res);
                if (eq(*res, *zero)) {
                    c.count(4);
                    c.outcome("second-expand-zero");
                    continue;
                }
                RCP<const Basic> r2 = expand(res->subs(num));
                mpq_class rq;
                if (to_q(*r2, rq) && rq == 0) {
                    c.count(3);
                    c.outcome("expand-residue-numeric-zero");
                    continue;
                }
                c.violation("symbolic-grid(size=" + std::to_string(n) + "):monomial-condition",
                            d + ": order " + std::to_string(k) + " weights applied to x^" + std::to_string(j) + " minus exact derivative = " + sstr(res)
                                + " (at x0=3/7,h=2/5,c=11/13: " + sstr(r2) + "), expected 0");
                return;
            }
    };
    run_cases(ss);

    Run &R = run();
    R.states = NG + sg.size();
    R.transitions = R.evaluations;
    R.bound_completed = "all ordered grids of 1.." + std::to_string(maxsize) + " distinct points from 8 rationals (" + std::to_string(NG) + " grids) x 4 centres x max_deriv 0..size+1; "
                        + std::to_string(sg.size()) + " symbolic grids x 4 centres x max_deriv 0..3";
    R.rule = "every ordered grid of distinct points from {0,1,-1,2,-2,1/3,-1/2,3} up to the size bound, every centre in {0,1/2,-1,7/3}, every max_deriv in 0..size+1: each returned "
             "order-k weight row is applied to every monomial x^j (j < size) in exact GMP rationals and compared with d^k x^j/dx^k at the centre (unique solution of an invertible "
             "Vandermonde system => complete decision of the weights); symbolic grids x0+a*h (all orderings) decided by expand(...)==0. distinct_nontrivial = weight vectors of grids with >= 2 points";
    R.assumptions = {"GMP rational arithmetic is exact", "Rational/Integer weights are converted to mpq through their decimal strings", "for symbolic grids expand() returning 0 is trusted as a proof of identity; a non-zero residue is re-decided at one rational point"};
    return R.finish();
}
