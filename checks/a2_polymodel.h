// a2_polymodel.h -- boring reference models and helpers shared by C21 / C22 / C23 (author a2).
//   PolyA      : polynomial in one coefficient symbol `a` over Q (std::map<int, mpq>)
//   UM<K>      : univariate coefficient list  (std::map<unsigned, K>), schoolbook arithmetic
//   MM<K>      : multivariate monomial dictionary over (x,y,z) (std::map<array<int,3>, K>)
//   walk()     : independent tree walker  Basic -> MM<PolyA>   (Integer, Rational, Symbol x/y/z/a,
//                Add, Mul, Pow with non-negative integer exponent); uses get_args() only
//   guarded()  : run one hazardous operation in a forked grandchild with a CPU-time limit (immune to
//                machine load) and an address-space limit, so that a hang / crash / allocation bomb
//                is one observed outcome of the case and not the death of the worker
#ifndef A2_POLYMODEL_H
#define A2_POLYMODEL_H
#include "common.h"
#include "key.h"
#include "exact.h"

namespace a2
{
using namespace verif;

// ------------------------------------------------------------------ lib number -> GMP
inline mpz_class Z(const integer_class &i)
{
#if SYMENGINE_INTEGER_CLASS == SYMENGINE_GMP || SYMENGINE_INTEGER_CLASS == SYMENGINE_GMPXX
    return mpz_class(get_mpz_t(i));
#else
    return to_mpz(i);
#endif
}
inline mpq_class Q(const rational_class &q)
{
    mpq_class r(Z(get_num(q)), Z(get_den(q)));
    r.canonicalize();
    return r;
}
inline integer_class LZ(const mpz_class &z)
{
    return integer_class(z.get_str());
}
inline rational_class LQ(const mpq_class &q)
{
    return rational_class(LZ(q.get_num()), LZ(q.get_den()));
}

// ------------------------------------------------------------------ PolyA
struct PolyA {
    std::map<int, mpq_class> t;
    PolyA() {}
    PolyA(long v)
    {
        if (v != 0)
            t[0] = mpq_class(v);
    }
    PolyA(const mpq_class &v)
    {
        if (v != 0)
            t[0] = v;
    }
    PolyA(const mpz_class &v)
    {
        if (v != 0)
            t[0] = mpq_class(v);
    }
    static PolyA sym(int e = 1)
    {
        PolyA r;
        r.t[e] = 1;
        return r;
    }
    PolyA &operator+=(const PolyA &o)
    {
        for (auto &kv : o.t) {
            mpq_class &c = t[kv.first];
            c += kv.second;
            if (c == 0)
                t.erase(kv.first);
        }
        return *this;
    }
    PolyA &operator-=(const PolyA &o)
    {
        for (auto &kv : o.t) {
            mpq_class &c = t[kv.first];
            c -= kv.second;
            if (c == 0)
                t.erase(kv.first);
        }
        return *this;
    }
    PolyA operator-() const
    {
        PolyA r;
        for (auto &kv : t)
            r.t[kv.first] = -kv.second;
        return r;
    }
    bool operator==(const PolyA &o) const
    {
        return t == o.t;
    }
    bool operator!=(const PolyA &o) const
    {
        return !(t == o.t);
    }
    bool is_const() const
    {
        return t.empty() || (t.size() == 1 && t.begin()->first == 0);
    }
    mpq_class cst() const
    {
        auto it = t.find(0);
        return it == t.end() ? mpq_class(0) : it->second;
    }
};
inline PolyA operator+(PolyA a, const PolyA &b)
{
    a += b;
    return a;
}
inline PolyA operator-(PolyA a, const PolyA &b)
{
    a -= b;
    return a;
}
inline PolyA operator*(const PolyA &a, const PolyA &b)
{
    PolyA r;
    for (auto &x : a.t)
        for (auto &y : b.t) {
            mpq_class &c = r.t[x.first + y.first];
            c += x.second * y.second;
            if (c == 0)
                r.t.erase(x.first + y.first);
        }
    return r;
}

inline bool kzero(const mpz_class &k)
{
    return k == 0;
}
inline bool kzero(const mpq_class &k)
{
    return k == 0;
}
inline bool kzero(const PolyA &k)
{
    return k.t.empty();
}
inline std::string kstr(const mpz_class &k)
{
    return k.get_str();
}
inline std::string kstr(const mpq_class &k)
{
    return k.get_str();
}
inline std::string kstr(const PolyA &k)
{
    if (k.t.empty())
        return "0";
    std::string o;
    for (auto &kv : k.t) {
        if (!o.empty())
            o += "+";
        if (kv.first == 0)
            o += kv.second.get_str();
        else
            o += (kv.second == 1 ? std::string() : kv.second.get_str() + "*") + "a" + (kv.first == 1 ? "" : "^" + std::to_string(kv.first));
    }
    return k.t.size() > 1 ? "(" + o + ")" : o;
}
template <class K>
K kpow(const K &b, unsigned n)
{
    K r(1);
    for (unsigned i = 0; i < n; i++)
        r = r * b;
    return r;
}

// ------------------------------------------------------------------ UM<K>
template <class K>
struct UM {
    std::map<unsigned, K> t; // never stores a zero coefficient
    UM() {}
    static UM cst(const K &k)
    {
        UM r;
        if (!kzero(k))
            r.t[0] = k;
        return r;
    }
    void addterm(unsigned e, const K &k)
    {
        auto it = t.find(e);
        if (it == t.end()) {
            if (!kzero(k))
                t[e] = k;
        } else {
            it->second += k;
            if (kzero(it->second))
                t.erase(it);
        }
    }
    bool operator==(const UM &o) const
    {
        return t == o.t;
    }
    bool zero() const
    {
        return t.empty();
    }
    int degree() const // -1 for the zero polynomial
    {
        return t.empty() ? -1 : (int)t.rbegin()->first;
    }
    K coeff(unsigned e) const
    {
        auto it = t.find(e);
        return it == t.end() ? K(0) : it->second;
    }
    K lc() const
    {
        return t.empty() ? K(0) : t.rbegin()->second;
    }
    std::string str() const
    {
        if (t.empty())
            return "0";
        std::string o;
        for (auto &kv : t) {
            if (!o.empty())
                o += " + ";
            o += kstr(kv.second);
            if (kv.first >= 1)
                o += "*x";
            if (kv.first >= 2)
                o += "^" + std::to_string(kv.first);
        }
        return o;
    }
};
template <class K>
UM<K> uadd(const UM<K> &a, const UM<K> &b)
{
    UM<K> r = a;
    for (auto &kv : b.t)
        r.addterm(kv.first, kv.second);
    return r;
}
template <class K>
UM<K> uneg(const UM<K> &a)
{
    UM<K> r;
    for (auto &kv : a.t)
        r.t[kv.first] = -kv.second;
    return r;
}
template <class K>
UM<K> usub(const UM<K> &a, const UM<K> &b)
{
    UM<K> r = a;
    for (auto &kv : b.t)
        r.addterm(kv.first, -kv.second);
    return r;
}
template <class K>
UM<K> umul(const UM<K> &a, const UM<K> &b)
{
    UM<K> r;
    for (auto &x : a.t)
        for (auto &y : b.t)
            r.addterm(x.first + y.first, x.second * y.second);
    return r;
}
template <class K>
UM<K> upow(const UM<K> &a, unsigned n) // a^0 = 1 (also for a = 0)
{
    UM<K> r = UM<K>::cst(K(1));
    for (unsigned i = 0; i < n; i++)
        r = umul(r, a);
    return r;
}
template <class K>
UM<K> udiff(const UM<K> &a)
{
    UM<K> r;
    for (auto &kv : a.t)
        if (kv.first > 0)
            r.addterm(kv.first - 1, kv.second * K((long)kv.first));
    return r;
}
template <class K>
K ueval(const UM<K> &a, const K &x)
{
    K r(0);
    for (auto &kv : a.t)
        r += kv.second * kpow(x, kv.first);
    return r;
}

// ------------------------------------------------------------------ MM<K>
typedef std::array<int, 3> Mono;
template <class K>
struct MM {
    std::map<Mono, K> t;
    static MM cst(const K &k)
    {
        MM r;
        if (!kzero(k))
            r.t[Mono{0, 0, 0}] = k;
        return r;
    }
    void addterm(const Mono &e, const K &k)
    {
        auto it = t.find(e);
        if (it == t.end()) {
            if (!kzero(k))
                t[e] = k;
        } else {
            it->second += k;
            if (kzero(it->second))
                t.erase(it);
        }
    }
    bool operator==(const MM &o) const
    {
        return t == o.t;
    }
    std::string str() const
    {
        if (t.empty())
            return "0";
        static const char *vn[3] = {"x", "y", "z"};
        std::string o;
        for (auto &kv : t) {
            if (!o.empty())
                o += " + ";
            o += kstr(kv.second);
            for (int v = 0; v < 3; v++)
                if (kv.first[v] > 0)
                    o += std::string("*") + vn[v] + (kv.first[v] > 1 ? "^" + std::to_string(kv.first[v]) : "");
        }
        return o;
    }
    unsigned usedvars() const // bitmask of variables with a positive exponent somewhere
    {
        unsigned m = 0;
        for (auto &kv : t)
            for (int v = 0; v < 3; v++)
                if (kv.first[v] > 0)
                    m |= 1u << v;
        return m;
    }
};
template <class K>
MM<K> madd(const MM<K> &a, const MM<K> &b)
{
    MM<K> r = a;
    for (auto &kv : b.t)
        r.addterm(kv.first, kv.second);
    return r;
}
template <class K>
MM<K> msub(const MM<K> &a, const MM<K> &b)
{
    MM<K> r = a;
    for (auto &kv : b.t)
        r.addterm(kv.first, -kv.second);
    return r;
}
template <class K>
MM<K> mneg(const MM<K> &a)
{
    MM<K> r;
    for (auto &kv : a.t)
        r.t[kv.first] = -kv.second;
    return r;
}
template <class K>
MM<K> mmul(const MM<K> &a, const MM<K> &b)
{
    MM<K> r;
    for (auto &x : a.t)
        for (auto &y : b.t)
            r.addterm(Mono{x.first[0] + y.first[0], x.first[1] + y.first[1], x.first[2] + y.first[2]}, x.second * y.second);
    return r;
}
template <class K>
MM<K> mpow(const MM<K> &a, unsigned n)
{
    MM<K> r = MM<K>::cst(K(1));
    for (unsigned i = 0; i < n; i++)
        r = mmul(r, a);
    return r;
}
template <class K>
K meval(const MM<K> &a, const K v[3])
{
    K r(0);
    for (auto &kv : a.t) {
        K term = kv.second;
        for (int i = 0; i < 3; i++)
            term = term * kpow(v[i], kv.first[i]);
        r += term;
    }
    return r;
}

// ------------------------------------------------------------------ tree walker
// Symbols named x,y,z are polynomial variables, the symbol named a is the coefficient symbol.
inline bool walk(const Basic &b, MM<PolyA> &out, int depth = 0)
{
    if (depth > 40)
        return false;
    if (is_a<Integer>(b)) {
        out = MM<PolyA>::cst(PolyA(Z(down_cast<const Integer &>(b).as_integer_class())));
        return true;
    }
    if (is_a<Rational>(b)) {
        out = MM<PolyA>::cst(PolyA(Q(down_cast<const Rational &>(b).as_rational_class())));
        return true;
    }
    if (is_a<Symbol>(b)) {
        const std::string &n = down_cast<const Symbol &>(b).get_name();
        out = MM<PolyA>();
        if (n == "x")
            out.t[Mono{1, 0, 0}] = PolyA(1);
        else if (n == "y")
            out.t[Mono{0, 1, 0}] = PolyA(1);
        else if (n == "z")
            out.t[Mono{0, 0, 1}] = PolyA(1);
        else if (n == "a")
            out.t[Mono{0, 0, 0}] = PolyA::sym();
        else
            return false;
        return true;
    }
    if (is_a<Add>(b)) {
        MM<PolyA> r, t;
        for (auto &arg : b.get_args()) {
            if (!walk(*arg, t, depth + 1))
                return false;
            r = madd(r, t);
        }
        out = r;
        return true;
    }
    if (is_a<Mul>(b)) {
        MM<PolyA> r = MM<PolyA>::cst(PolyA(1)), t;
        for (auto &arg : b.get_args()) {
            if (!walk(*arg, t, depth + 1))
                return false;
            r = mmul(r, t);
        }
        out = r;
        return true;
    }
    if (is_a<Pow>(b)) {
        const Pow &p = down_cast<const Pow &>(b);
        if (!is_a<Integer>(*p.get_exp()))
            return false;
        const Integer &e = down_cast<const Integer &>(*p.get_exp());
        if (e.is_negative() || !(e.as_integer_class() <= integer_class(64)))
            return false;
        MM<PolyA> base;
        if (!walk(*p.get_base(), base, depth + 1))
            return false;
        out = mpow(base, (unsigned)e.as_int());
        return true;
    }
    return false;
}
inline bool walk_expr(const Basic &b, PolyA &out) // expression free of x,y,z
{
    MM<PolyA> m;
    if (!walk(b, m))
        return false;
    if (m.t.empty()) {
        out = PolyA();
        return true;
    }
    if (m.t.size() != 1 || m.t.begin()->first != Mono{0, 0, 0})
        return false;
    out = m.t.begin()->second;
    return true;
}
// univariate view (only x may occur)
inline bool to_um(const MM<PolyA> &m, UM<PolyA> &out)
{
    out = UM<PolyA>();
    for (auto &kv : m.t) {
        if (kv.first[1] || kv.first[2])
            return false;
        out.t[(unsigned)kv.first[0]] = kv.second;
    }
    return true;
}

// ------------------------------------------------------------------ guarded execution
// Runs fn in a forked grandchild with a CPU-time limit (RLIMIT_CPU, so that machine load cannot fake a hang),
// an address-space limit and a generous wall backstop.  Returns "" when fn returned, else "hang" (CPU limit
// or wall backstop hit) / "crash:<signal>" / "exit:<n>".  fn reports through Ctx (shared-memory counters and
// the flushed record file), so verdicts computed inside survive.
template <class F>
std::string guarded(Ctx &c, unsigned cpu_s, F fn)
{
    fflush(c.out);
    pid_t p = fork();
    if (p == 0) {
        struct rlimit rl;
        rl.rlim_cur = rl.rlim_max = (rlim_t)1536 << 20;
        setrlimit(RLIMIT_AS, &rl);
        rl.rlim_cur = rl.rlim_max = 0;
        setrlimit(RLIMIT_CORE, &rl);
        rl.rlim_cur = cpu_s;
        rl.rlim_max = cpu_s + 1;
        setrlimit(RLIMIT_CPU, &rl);
        fn();
        fflush(c.out);
        _exit(0);
    }
    double t = now();
    int st = 0;
    long spin = 0;
    while (true) {
        pid_t r = waitpid(p, &st, WNOHANG);
        if (r == p)
            break;
        if (now() - t > 120.0 + 60.0 * cpu_s) {
            kill(p, SIGKILL);
            waitpid(p, &st, 0);
            return "hang";
        }
        if (++spin > 200)
            usleep(500);
    }
    if (WIFSIGNALED(st) && (WTERMSIG(st) == SIGXCPU || WTERMSIG(st) == SIGKILL))
        return "hang";
    if (WIFSIGNALED(st))
        return std::string("crash:") + strsignal(WTERMSIG(st));
    if (WIFEXITED(st) && WEXITSTATUS(st) != 0)
        return "exit:" + std::to_string(WEXITSTATUS(st));
    return "";
}
// address-space cap for a whole worker (safety net against allocation bombs in unguarded cases)
inline void cap_memory_once()
{
    static bool done = false;
    if (done)
        return;
    done = true;
    struct rlimit rl;
    rl.rlim_cur = rl.rlim_max = (rlim_t)3072 << 20;
    setrlimit(RLIMIT_AS, &rl);
    rl.rlim_cur = rl.rlim_max = 0;
    setrlimit(RLIMIT_CORE, &rl);
}

} // namespace a2
#endif
