// C36  Algebraic rewriting transformations preserve value -- E1 + RefEval (DESIGN 5 C36)
//
// States: distinct canonical expressions with <= n constructor calls over arithmetic (add, mul, div, pow), sqrt, exp,
// abs, the six trigonometric, six hyperbolic and six inverse trigonometric functions.  Every state is pushed through
//   as_numer_denom   n/d == e at positive real points; neither n nor d keeps a negative top-level exponent
//   as_real_imag     re, im real and re + I*im == e at positive real points
//   rewrite_as_exp / rewrite_as_sin / rewrite_as_cos / expand_as_exp / trig_to_sqrt / conjugate
//                    value-equal to e (to conj(e)) at the complex grid wherever both sides are finite and off-cut
// and judged by RefEval (113-bit, two-sided branch-cut rule).  Library exceptions are refusals and are counted.
// A violation is shrunk to the smallest violating sub-expression (direct arguments, recursively) and the signature is
// built from that sub-expression's class.
#include "common.h"
#include "explore.h"
#include "refeval.h"
using namespace verif;

// ------------------------------------------------------------------ alphabet
enum BinOp { B_ADD, B_MUL, B_DIV, B_POW, NBIN };
static const char *BINN[] = {"add", "mul", "div", "pow"};
typedef RCP<const Basic> (*Un)(const RCP<const Basic> &);
struct UnOp {
    const char *name;
    Un f;
};
static RCP<const Basic> u_sqrt(const RCP<const Basic> &a)
{
    return sqrt(a);
}
static RCP<const Basic> u_exp(const RCP<const Basic> &a)
{
    return exp(a);
}
static std::vector<UnOp> UN = {{"sqrt", u_sqrt}, {"exp", u_exp},   {"abs", abs},     {"sin", sin},     {"cos", cos},   {"tan", tan},
                               {"cot", cot},     {"sec", sec},     {"csc", csc},     {"sinh", sinh},   {"cosh", cosh}, {"tanh", tanh},
                               {"coth", coth},   {"sech", sech},   {"csch", csch},   {"asin", asin},   {"acos", acos}, {"atan", atan},
                               {"acot", acot},   {"asec", asec},   {"acsc", acsc}};
struct Tr {
    int op; // < NBIN binary, else NBIN + unary index
    int a, b;
};
static StateSet SS;
static std::vector<int> TOP; // constructor of the first recipe of each state (-1 leaf)
static std::string tr_recipe(const Tr &t)
{
    if (t.op < NBIN)
        return std::string(BINN[t.op]) + "(" + SS.S[t.a].recipe + ", " + SS.S[t.b].recipe + ")";
    return std::string(UN[t.op - NBIN].name) + "(" + SS.S[t.a].recipe + ")";
}
static RCP<const Basic> tr_apply(const Tr &t)
{
    const RCP<const Basic> &a = SS.S[t.a].e;
    if (t.op >= NBIN)
        return UN[t.op - NBIN].f(a);
    const RCP<const Basic> &b = SS.S[t.b].e;
    switch (t.op) {
        case B_ADD:
            return add(a, b);
        case B_MUL:
            return mul(a, b);
        case B_DIV:
            return div(a, b);
        default:
            return pow(a, b);
    }
}
static bool contains_nonfinite(const Basic &e)
{
    if (is_a<Infty>(e) || is_a<NaN>(e))
        return true;
    for (auto &a : e.get_args())
        if (contains_nonfinite(*a))
            return true;
    return false;
}

// ------------------------------------------------------------------ transformations
enum Tf { T_NUMDEN, T_REIM, T_RWEXP, T_RWSIN, T_RWCOS, T_EXPASEXP, T_TRIGSQRT, T_CONJ, NTF };
static const char *TFN[] = {"as_numer_denom", "as_real_imag", "rewrite_as_exp", "rewrite_as_sin", "rewrite_as_cos", "expand_as_exp",
                            "trig_to_sqrt",   "conjugate"};

static std::vector<Env> GC; // complex grid
static std::vector<Env> GP; // positive real points

static std::string cls1(const Basic &e)
{
    if (is_a<Integer>(e) || is_a<Rational>(e)) {
        const Number &n = down_cast<const Number &>(e);
        return type_code_name(e.get_type_code()) + (n.is_zero() ? "=0" : n.is_negative() ? "<0" : ">0");
    }
    return type_code_name(e.get_type_code());
}
static std::string cls(const Basic &e)
{
    std::string o = cls1(e);
    if (is_a<Add>(e) || is_a<Mul>(e) || e.get_args().empty())
        return o;
    o += "(";
    bool first = true;
    for (auto &a : e.get_args()) {
        o += (first ? "" : ",") + cls1(*a);
        first = false;
    }
    return o + ")";
}

// values of a tree at env: one entry, or two when some node sat exactly on a cut
static bool vals(const Basic &e, const Env &env, std::vector<Value> &out, std::string &why)
{
    out.clear();
    Value v0 = refeval(e, env, +1);
    if (!v0.ok) {
        why = v0.why;
        return false;
    }
    out.push_back(v0);
    if (v0.on_cut) {
        Value v1 = refeval(e, env, -1);
        if (v1.ok)
            out.push_back(v1);
    }
    return true;
}
struct Cand {
    cq v;
    rq scale;
    long nodes;
    bool fl;
};
// 1 equal (strict budget), 0 grossly different (relative 1e-9), 2 in between: ill-conditioned, not judged
static int compare(const std::vector<Cand> &A, const std::vector<Cand> &B, std::string &why)
{
    bool gross_ok = false;
    for (auto &a : A)
        for (auto &b : B) {
            rq tol = (a.fl || b.fl) ? 1e-9Q : 1e-25Q;
            if (closeq(a.v, b.v, tol * (rq)(a.nodes + b.nodes + 1), fmaxq(a.scale, b.scale)))
                return 1;
            if (closeq(a.v, b.v, 1e-9Q, 0))
                gross_ok = true;
        }
    if (gross_ok)
        return 2;
    why = "expected " + cstr(A[0].v) + " got " + cstr(B[0].v);
    return 0;
}
static std::vector<Cand> cands(const std::vector<Value> &v)
{
    std::vector<Cand> c;
    for (auto &x : v)
        c.push_back({x.v, x.scale, x.nodes, x.has_float});
    return c;
}

// Is some node of the tree evaluated at (or within rounding distance of) a pole, a logarithmic or a square-root
// branch point?  There RefEval returns rounding noise instead of a value (sin(pi) = 1e-34, atan(i(1+1e-34)) = 39 i),
// so such a point cannot be judged.  Only consulted when a comparison fails.
static bool near_singularity(const Basic &e, const Env &env)
{
    const rq eps = 1e-15Q;
    auto val = [&](const Basic &a, cq &v) {
        Value r = refeval(a, env);
        v = r.v;
        return r.ok;
    };
    auto tiny = [&](cq z) { return absq(z) < eps; };
    auto pow_sing = [&](const Basic &b, const Basic &x) {
        cq vb;
        if (!val(b, vb))
            return true;
        if (!tiny(vb))
            return false;
        if (is_a<Integer>(x))
            return down_cast<const Integer &>(x).is_negative();
        return true; // tiny base with a non-integer / symbolic exponent
    };
    if (is_a<Pow>(e)) {
        const Pow &p = down_cast<const Pow &>(e);
        if (pow_sing(*p.get_base(), *p.get_exp()))
            return true;
    } else if (is_a<Mul>(e)) {
        for (auto &p : down_cast<const Mul &>(e).get_dict()) {
            if (pow_sing(*p.first, *p.second))
                return true;
            if (near_singularity(*p.first, env) || near_singularity(*p.second, env))
                return true;
        }
        return false;
    } else if (is_a<Add>(e)) {
        for (auto &p : down_cast<const Add &>(e).get_dict())
            if (near_singularity(*p.first, env))
                return true;
        return false;
    } else if (e.get_args().size() == 1) {
        cq a;
        if (!val(*e.get_args()[0], a))
            return true;
        const cq one = mkc(1, 0), ii = mkc(0, 1);
        switch (e.get_type_code()) {
            case SYMENGINE_TAN:
            case SYMENGINE_SEC:
                if (tiny(ccosq(a)))
                    return true;
                break;
            case SYMENGINE_COT:
            case SYMENGINE_CSC:
                if (tiny(csinq(a)))
                    return true;
                break;
            case SYMENGINE_TANH:
            case SYMENGINE_SECH:
                if (tiny(ccoshq(a)))
                    return true;
                break;
            case SYMENGINE_COTH:
            case SYMENGINE_CSCH:
                if (tiny(csinhq(a)))
                    return true;
                break;
            case SYMENGINE_LOG:
                if (tiny(a))
                    return true;
                break;
            case SYMENGINE_ATAN:
                if (tiny(a - ii) || tiny(a + ii))
                    return true;
                break;
            case SYMENGINE_ACOT:
                if (tiny(a) || tiny(one / a - ii) || tiny(one / a + ii))
                    return true;
                break;
            case SYMENGINE_ASIN:
            case SYMENGINE_ACOS:
            case SYMENGINE_ATANH:
                if (tiny(a - one) || tiny(a + one))
                    return true;
                break;
            case SYMENGINE_ASEC:
            case SYMENGINE_ACSC:
            case SYMENGINE_ACOTH:
                if (tiny(a) || tiny(one / a - one) || tiny(one / a + one))
                    return true;
                break;
            default:
                break;
        }
    }
    cq v;
    if (val(e, v) && absq(v) > 1e15Q)
        return true; // numerically a pole
    for (auto &a : e.get_args())
        if (near_singularity(*a, env))
            return true;
    return false;
}

static bool neg_exponent(const Basic &x, std::string &how)
{
    if (is_a<Integer>(x) || is_a<Rational>(x)) {
        if (down_cast<const Number &>(x).is_negative()) {
            how = "negative-numeric-exponent";
            return true;
        }
        return false;
    }
    if (is_a<Mul>(x)) {
        const Number &c = *down_cast<const Mul &>(x).get_coef();
        if ((is_a<Integer>(c) || is_a<Rational>(c)) && c.is_negative()) {
            how = "negative-coefficient-symbolic-exponent";
            return true;
        }
    }
    return false;
}
static bool top_level_negative_exponent(const Basic &e, std::string &how)
{
    if (is_a<Pow>(e))
        return neg_exponent(*down_cast<const Pow &>(e).get_exp(), how);
    if (is_a<Mul>(e)) {
        for (auto &p : down_cast<const Mul &>(e).get_dict())
            if (neg_exponent(*p.second, how))
                return true;
    }
    return false;
}

enum { J_OK, J_VIOLATION, J_REFUSED, J_UNJUDGED };
struct Judge {
    int status = J_UNJUDGED;
    std::string kind, detail, refusal;
    bool changed = false;
    int points = 0, skipped = 0, ill = 0;
    std::string result; // printable result
};

static Judge judge(int tf, const RCP<const Basic> &e)
{
    Judge J;
    RCP<const Basic> r, r2; // r2: denominator / imaginary part
    try {
        switch (tf) {
            case T_NUMDEN:
                as_numer_denom(e, outArg(r), outArg(r2));
                break;
            case T_REIM:
                as_real_imag(e, outArg(r), outArg(r2));
                break;
            case T_RWEXP:
                r = rewrite_as_exp(e);
                break;
            case T_RWSIN:
                r = rewrite_as_sin(e);
                break;
            case T_RWCOS:
                r = rewrite_as_cos(e);
                break;
            case T_EXPASEXP:
                r = e->expand_as_exp();
                break;
            case T_TRIGSQRT:
                r = trig_to_sqrt(e);
                break;
            default:
                r = conjugate(e);
        }
    } catch (SymEngineException &x) {
        J.status = J_REFUSED;
        J.refusal = x.what();
        return J;
    }
    if (r.is_null() || ((tf == T_NUMDEN || tf == T_REIM) && r2.is_null())) {
        J.status = J_VIOLATION;
        J.kind = "null-result";
        J.detail = "returned a null pointer";
        return J;
    }
    J.result = sstr(r) + (r2.is_null() ? "" : "  ,  " + sstr(r2));
    J.changed = key(*r) != key(*e);
    if (!r2.is_null()) // two-part results: trivial when (e, 1) resp. (e, 0) comes back
        J.changed = J.changed || key(*r2) != (tf == T_NUMDEN ? "I:1" : "I:0");
    if (!J.changed && r2.is_null()) { // the identical tree was returned: trivially value-equal
        J.status = J_OK;
        return J;
    }
    if (tf == T_NUMDEN) {
        std::string how;
        if (top_level_negative_exponent(*r, how) || top_level_negative_exponent(*r2, how)) {
            J.status = J_VIOLATION;
            J.kind = how;
            J.detail = "numerator or denominator keeps a negative top-level exponent";
            return J;
        }
    }
    const std::vector<Env> &pts = (tf == T_NUMDEN || tf == T_REIM) ? GP : GC;
    for (size_t g = 0; g < pts.size(); g++) {
        std::vector<Value> ve, vr, vr2;
        std::string why;
        if (!vals(*e, pts[g], ve, why) || !vals(*r, pts[g], vr, why) || (!r2.is_null() && !vals(*r2, pts[g], vr2, why))) {
            J.skipped++;
            continue;
        }
        std::vector<Cand> want = cands(ve), got;
        if (tf == T_CONJ)
            for (auto &w : want)
                w.v = conjq(w.v);
        if (tf == T_NUMDEN) {
            bool pole = false;
            for (auto &n : vr)
                for (auto &d : vr2) {
                    if (d.v == 0) {
                        pole = true;
                        continue;
                    }
                    rq ad = absq(d.v);
                    got.push_back({n.v / d.v, n.scale / ad + absq(n.v / d.v) * (d.scale / ad), n.nodes + d.nodes, n.has_float || d.has_float});
                }
            if (got.empty()) {
                (void)pole;
                J.skipped++;
                continue;
            }
        } else if (tf == T_REIM) {
            // parts must be real
            bool re_real = false, im_real = false;
            for (auto &a : vr)
                if (fabsq(im(a.v)) <= 1e-25Q * (rq)(a.nodes + 1) * fmaxq(a.scale, absq(a.v)))
                    re_real = true;
            for (auto &b : vr2)
                if (fabsq(im(b.v)) <= 1e-25Q * (rq)(b.nodes + 1) * fmaxq(b.scale, absq(b.v)))
                    im_real = true;
            if (!re_real || !im_real) {
                // only a gross imaginary component counts
                const Value &bad = !re_real ? vr[0] : vr2[0];
                if (fabsq(im(bad.v)) > 1e-9Q * fmaxq(absq(bad.v), 1e-300Q) && !near_singularity(*e, pts[g])
                    && !near_singularity(*r, pts[g]) && !near_singularity(*r2, pts[g])) {
                    J.status = J_VIOLATION;
                    J.kind = !re_real ? "real-part-not-real" : "imaginary-part-not-real";
                    J.detail = std::string(!re_real ? "the real part " : "the imaginary part ") + "evaluates to " + cstr(bad.v) + " at point "
                               + std::to_string(g);
                    return J;
                }
                J.ill++;
                continue;
            }
            for (auto &a : vr)
                for (auto &b : vr2)
                    got.push_back({a.v + mkc(0, 1) * b.v, fmaxq(a.scale, b.scale), a.nodes + b.nodes, a.has_float || b.has_float});
        } else
            got = cands(vr);
        int c = compare(want, got, why);
        if (c == 0
            && (near_singularity(*e, pts[g]) || near_singularity(*r, pts[g]) || (!r2.is_null() && near_singularity(*r2, pts[g]))))
            c = 2; // a node sits on a pole / branch point: rounding noise, not a value
        if (c == 1)
            J.points++;
        else if (c == 2)
            J.ill++;
        else {
            J.status = J_VIOLATION;
            J.kind = "value";
            J.detail = "at point " + std::to_string(g) + " " + why;
            return J;
        }
    }
    J.status = J.points ? J_OK : J_UNJUDGED;
    return J;
}

// smallest violating sub-expression (same transformation, same kind of failure not required)
static RCP<const Basic> shrink(int tf, const RCP<const Basic> &e, Judge &J, int depth = 0)
{
    if (depth > 6)
        return e;
    for (auto &a : e->get_args()) {
        Judge ja = judge(tf, a);
        if (ja.status == J_VIOLATION) {
            J = ja;
            return shrink(tf, a, J, depth + 1);
        }
    }
    return e;
}

enum { K_JUDGED, K_REFUSED, K_UNJUDGED, K_POINTS, K_SKIPPED_POINTS, K_ILL_POINTS, K_CHANGED, K_NONFINITE_INPUT, K_PER_TF };
static std::vector<std::string> counter_names()
{
    std::vector<std::string> n = {"cases_value_judged",
                                  "cases_library_refused(exception)",
                                  "cases_not_judged(no decidable point)",
                                  "points_compared_equal",
                                  "points_skipped(pole/nonfinite/near-cut/unsupported)",
                                  "points_ill_conditioned_or_at_a_singularity(not judged)",
                                  "cases_result_differs_from_input(rewrite fired)",
                                  "cases_input_nonfinite_skipped"};
    for (int t = 0; t < NTF; t++) {
        n.push_back(std::string(TFN[t]) + ":judged");
        n.push_back(std::string(TFN[t]) + ":refused");
        n.push_back(std::string(TFN[t]) + ":changed");
    }
    return n;
}

static void check_case(int tf, const RCP<const Basic> &e, const std::string &recipe, Ctx &c)
{
    if (contains_nonfinite(*e)) {
        c.count(K_NONFINITE_INPUT);
        c.outcome("input-nonfinite");
        return;
    }
    c.eval();
    Judge J = judge(tf, e);
    c.count(K_POINTS, J.points);
    c.count(K_SKIPPED_POINTS, J.skipped);
    c.count(K_ILL_POINTS, J.ill);
    if (J.changed) {
        c.count(K_CHANGED);
        c.count(K_PER_TF + 3 * tf + 2);
        c.nontrivial();
    }
    switch (J.status) {
        case J_REFUSED:
            c.count(K_REFUSED);
            c.count(K_PER_TF + 3 * tf + 1);
            c.outcome(std::string(TFN[tf]) + ":refused:" + J.refusal);
            break;
        case J_UNJUDGED:
            c.count(K_UNJUDGED);
            c.outcome(std::string(TFN[tf]) + ":unjudged");
            break;
        case J_OK:
            c.count(K_JUDGED);
            c.count(K_PER_TF + 3 * tf);
            c.outcome(std::string(TFN[tf]) + ":ok:" + cls1(*e) + (J.changed ? ":changed" : ":same"));
            break;
        default: {
            Judge Jm = J;
            RCP<const Basic> m = shrink(tf, e, Jm);
            c.outcome(std::string(TFN[tf]) + ":VIOLATION:" + Jm.kind);
            c.violation(std::string(TFN[tf]) + ":" + Jm.kind + ":" + cls(*m),
                        std::string(TFN[tf]) + "(" + sstr(m) + ") = " + Jm.result + " : " + Jm.detail + "   [smallest violating sub-expression of "
                            + recipe + " = " + sstr(e) + ", for which " + TFN[tf] + " gives " + J.result + " : " + J.detail + "]");
        }
    }
    if (c.index % 30011 == 0)
        c.sample("{\"transformation\":" + jstr(TFN[tf]) + ",\"recipe\":" + jstr(recipe) + ",\"input\":" + jstr(sstr(e)) + ",\"result\":"
                 + jstr(J.status == J_REFUSED ? "refused: " + J.refusal : J.result) + ",\"points_equal\":" + std::to_string(J.points) + "}");
}

int main(int argc, char **argv)
{
    init(argc, argv, "C36");
    const bool thorough = opts().thorough();
    GC = complex_grid();
    GP.resize(2);
    GP[0] = GC[1]; // x=1.7 y=0.6 z=2.3 t=0.9
    GP[1].sym = {{"x", mkc(0.35Q, 0)}, {"y", mkc(2.6Q, 0)}, {"z", mkc(1.2Q, 0)}, {"t", mkc(3.1Q, 0)}};
    RCP<const Basic> x = symbol("x"), y = symbol("y");
    auto R = [](long a, long b) { return Rational::from_two_ints(a, b); };
    std::vector<std::pair<std::string, RCP<const Basic>>> leaves = {
        {"x", x},           {"y", y},          {"2", integer(2)}, {"-1", integer(-1)},
        {"1/2", R(1, 2)},   {"-2/3", R(-2, 3)}, {"I", I},          {"1/2+I/3", Complex::from_two_nums(*R(1, 2), *R(1, 3))},
        // structured leaves: closed complex bases that are NOT plain Complex numbers (so pow() cannot fold them) with |z| != 1,
        // and the exponents -2, -3: as_real_imag of z**(-n) has its own branch (added after seeded change C36 escaped: the
        // atom-only alphabet reaches (sqrt(2)+I)**(-2) only after 4 operations)
        {"sqrt(2)+I", add(sqrt(integer(2)), I)}, {"2+sqrt(3)*I", add(integer(2), mul(sqrt(integer(3)), I))}, {"sin(2+I)", sin(add(integer(2), I))},
        {"-2", integer(-2)}, {"-3", integer(-3)}};
    for (auto &l : leaves) {
        bool fresh;
        SS.add(l.second, l.first, 0, &fresh);
        if (fresh)
            TOP.push_back(-1);
    }
    Run &Rn = run();
    std::vector<std::string> cn = counter_names();
    std::string bound;

    auto layer_transitions = [&](int L, std::vector<Tr> &T) {
        int n = (int)SS.size();
        for (int a = 0; a < n; a++) {
            int da = SS.S[a].depth;
            if (da + 1 == L)
                for (int u = 0; u < (int)UN.size(); u++)
                    T.push_back({NBIN + u, a, a});
            for (int b = 0; b < n; b++) {
                int db = SS.S[b].depth;
                if (da + db + 1 != L)
                    continue;
                for (int op = 0; op < NBIN; op++) {
                    if ((op == B_ADD || op == B_MUL) && b < a)
                        continue; // commutative constructors: unordered pairs
                    T.push_back({op, a, b});
                }
            }
        }
    };

    const int NFULL = 2; // all states with <= 2 operations are stored
    size_t first_of_layer = 0;
    for (int L = 0; L <= NFULL && !past_deadline(); L++) {
        std::vector<Tr> T;
        if (L > 0) {
            layer_transitions(L, T);
            CaseSet ca;
            ca.name = "construct:L" + std::to_string(L);
            ca.n = (long long)T.size();
            ca.counter_names = {"constructor_calls_for_state_building", "constructor_refused(exception)"};
            ca.desc = [&](long long i) { return tr_recipe(T[i]); };
            ca.body = [&](long long i, Ctx &c) {
                c.count(0);
                try {
                    RCP<const Basic> e = tr_apply(T[i]);
                    (void)key(*e);
                } catch (SymEngineException &) {
                    c.count(1);
                }
            };
            run_cases(ca);
            first_of_layer = SS.size();
            for (size_t i = 0; i < T.size(); i++) {
                if (ca.bad.count((long long)i))
                    continue;
                try {
                    RCP<const Basic> e = tr_apply(T[i]);
                    if (contains_nonfinite(*e)) {
                        Rn.counters["transitions_to_nonfinite_state(not used)"]++;
                        continue;
                    }
                    bool fresh;
                    SS.add(e, tr_recipe(T[i]), L, &fresh);
                    if (fresh)
                        TOP.push_back(T[i].op);
                } catch (SymEngineException &) {
                }
            }
        }
        Rn.counters["states_depth<=" + std::to_string(L)] = SS.size();
        CaseSet cb;
        cb.name = "rewrite:S" + std::to_string(L);
        cb.n = (long long)(SS.size() - first_of_layer) * NTF;
        cb.counter_names = cn;
        cb.desc = [&](long long i) { return std::string(TFN[i % NTF]) + "(" + SS.S[first_of_layer + i / NTF].recipe + ")"; };
        cb.crash_sig = [&](long long i, const std::string &oc) {
            return std::string(TFN[i % NTF]) + ":" + oc + ":" + cls(*SS.S[first_of_layer + i / NTF].e);
        };
        cb.body = [&](long long i, Ctx &c) {
            const State &s = SS.S[first_of_layer + i / NTF];
            check_case((int)(i % NTF), s.e, s.recipe, c);
        };
        run_cases(cb);
        if (Rn.exhaustive)
            bound = "every distinct state with <= " + std::to_string(L) + " operations (" + std::to_string(SS.size()) + " states) x "
                    + std::to_string(NTF) + " transformations";
    }
    if (thorough) {
        // depth 3, not stored, two sub-layers (each completed before the next starts):
        //   (a) every binary operation of two depth-1 states            op(S1, S1)
        //   (b) every unary function of a depth-2 state that is itself a unary function of a depth-1 state   f(g(S1))
        // (binary operations of a depth-2 state with a leaf and f(a op b) with a depth-2 binary state are outside the bound)
        for (int sub = 0; sub < 2 && !past_deadline(); sub++) {
            std::vector<Tr> T;
            int n = (int)SS.size();
            for (int a = 0; a < n; a++) {
                if (sub == 0) {
                    if (SS.S[a].depth != 1)
                        continue;
                    for (int b = 0; b < n; b++) {
                        if (SS.S[b].depth != 1)
                            continue;
                        for (int op = 0; op < NBIN; op++)
                            if (!((op == B_ADD || op == B_MUL) && b < a))
                                T.push_back({op, a, b});
                    }
                } else if (SS.S[a].depth == 2 && TOP[a] >= NBIN)
                    for (int u = 0; u < (int)UN.size(); u++)
                        T.push_back({NBIN + u, a, a});
            }
            CaseSet cl;
            cl.name = sub == 0 ? "rewrite:T3:op(S1,S1)" : "rewrite:T3:f(g(S1))";
            cl.n = (long long)T.size() * NTF;
            cl.counter_names = cn;
            cl.desc = [&](long long i) { return std::string(TFN[i % NTF]) + "(" + tr_recipe(T[i / NTF]) + ")"; };
            cl.crash_sig = [&](long long i, const std::string &oc) {
                const Tr &t = T[i / NTF];
                return std::string(TFN[i % NTF]) + ":" + oc + ":" + (t.op < NBIN ? BINN[t.op] : UN[t.op - NBIN].name) + "(...)";
            };
            cl.body = [&](long long i, Ctx &c) {
                RCP<const Basic> e;
                try {
                    e = tr_apply(T[i / NTF]);
                } catch (SymEngineException &) {
                    c.outcome("constructor-refused");
                    return;
                }
                check_case((int)(i % NTF), e, tr_recipe(T[i / NTF]), c);
            };
            run_cases(cl);
            Rn.counters[std::string("recipes_depth_3_") + (sub == 0 ? "op(S1,S1)" : "f(g(S1))")] = T.size();
            if (Rn.exhaustive)
                bound += std::string("; plus every depth-3 recipe ") + (sub == 0 ? "op(S1,S1)" : "f(g(S1))") + " (" + std::to_string(T.size())
                         + ") x " + std::to_string(NTF) + " transformations";
        }
    }
    Rn.states = SS.size();
    Rn.transitions = Rn.evaluations;
    Rn.bound_completed = bound;
    Rn.rule = "E1: leaves {x, y, 2, -1, 1/2, -2/3, I, 1/2+I/3}; constructors add, mul, div, pow, sqrt, exp, abs, sin..csc, sinh..csch, asin..acsc; "
              "states de-duplicated by structural key; every state x {as_numer_denom, as_real_imag, rewrite_as_exp, rewrite_as_sin, "
              "rewrite_as_cos, expand_as_exp, trig_to_sqrt, conjugate}: the returned tree(s) are evaluated by RefEval (113-bit complex, "
              "two-sided branch-cut rule) and compared with RefEval of the input: n/d and re+I*im (parts real) at 2 positive real points, the "
              "others at 4 complex grid points; tolerance 1e-25 * nodes * scale; a difference below relative 1e-9 that misses the strict budget "
              "or that occurs where some node sits within 1e-15 of a pole/branch point (e.g. cot(abs(pi)), atan(atan(tan(I)))) is counted as "
              "ill-conditioned and not judged; as_numer_denom results are also scanned for negative top-level exponents. "
              "Exceptions are refusals (counted). distinct_nontrivial = cases whose result differs from the input.";
    Rn.assumptions = {"libquadmath complex elementary functions", "principal branch with arg(negative real)=+pi; acot z = atan(1/z) etc. as in eval_double",
                      "points where either side is non-finite, near a cut or uses an unsupported node are skipped and counted",
                      "expressions outside the alphabet / deeper than the bound are not covered"};
    return Rn.finish();
}
