// C06  Mixed-kind number arithmetic is commutative and obeys oo/nan rules -- E5 full pair table (DESIGN 5 C06)
//
// V = representative values of every number kind (Integer, Rational, Complex, RealDouble incl. signed zeros,
// +-inf and nan doubles, ComplexDouble incl. zero / inf / nan parts, +oo, -oo, zoo, NaN).  Every ordered pair x
// {add, sub, mul, div, pow} through Number double dispatch and through the top-level functions.
// Oracle = abstract extended-number model written here (no library predicate is consulted: operands and
// results are classified from their raw stored fields):
//   R1 commutativity of add and mul by structural key (all nan-class results are one class),
//   R2 nan (the NaN object or a double with a NaN part) absorbs every operation,
//   R3 rules for the Infty objects: oo + -oo = nan, 0*oo = nan, a nonzero finite real factor/divisor keeps or flips
//      the direction by its sign, products/quotients/sums of infinities, finite/oo = 0, nonzero exact / exact 0 = zoo,
//      0/0 = nan; +-oo times or over a non-real finite number has no representable value: refusing, nan or zoo are
//      tolerated, a real-signed infinity or a finite number is wrong; no rule is judged for pow with infinities,
//   R4 a finite float combined with a finite number never gives an exact number (Integer/Rational/Complex).
// Cases the model leaves open (zoo + oo, oo ** x for most x, double infinities, ...) are counted as not judged.
#include "common.h"
#include "key.h"
using namespace verif;

enum Cls { FIN, PINF, NINF, ZOO, NANV, DINF, ODD /* Infty with an unexpected direction */, SYM /* not a Number */ };
struct AbsV {
    Cls c = FIN;
    bool exact = false, real = false, zero = false;
    bool one = false;    // the value is exactly 1 (Integer 1, 1.0, 1.0+0.0i)
    bool nanobj = false; // the NaN object (as opposed to a NaN inside a double)
    int sign = 0;     // of a finite real value
    int cmp1 = 0;     // |x| vs 1 for finite real values (-1, 0, 1)
    std::string kind; // type name
    std::string tag;  // kind + value class, used in signatures
};

static AbsV classify(const Basic &e)
{
    AbsV a;
    a.kind = type_code_name(e.get_type_code());
    auto setreal = [&](int sgn, int c1) {
        a.real = true;
        a.sign = sgn;
        a.zero = sgn == 0;
        a.cmp1 = c1;
        a.tag = a.kind + (sgn == 0 ? "=0" : sgn > 0 ? ">0" : "<0");
    };
    switch (e.get_type_code()) {
        case SYMENGINE_INTEGER: {
            mpz_class z = to_mpz(down_cast<const Integer &>(e).as_integer_class());
            a.exact = true;
            setreal(sgn(z), cmp(abs(z), 1));
            a.one = z == 1;
            break;
        }
        case SYMENGINE_RATIONAL: {
            mpq_class q = to_mpq(down_cast<const Rational &>(e).as_rational_class());
            a.exact = true;
            setreal(sgn(q), cmp(abs(q), 1));
            break;
        }
        case SYMENGINE_COMPLEX:
            a.exact = true;
            a.tag = a.kind;
            break;
        case SYMENGINE_REAL_DOUBLE: {
            double d = down_cast<const RealDouble &>(e).i;
            if (std::isnan(d)) {
                a.c = NANV;
                a.tag = a.kind + "=nan";
            } else if (std::isinf(d)) {
                a.c = DINF;
                a.tag = a.kind + (d > 0 ? "=inf" : "=-inf");
            } else
                setreal(d > 0 ? 1 : d < 0 ? -1 : 0, std::fabs(d) > 1 ? 1 : std::fabs(d) < 1 ? -1 : 0);
            a.one = d == 1.0;
            break;
        }
        case SYMENGINE_COMPLEX_DOUBLE: {
            std::complex<double> z = down_cast<const ComplexDouble &>(e).i;
            if (std::isnan(z.real()) || std::isnan(z.imag())) {
                a.c = NANV;
                a.tag = a.kind + "=nan";
            } else if (std::isinf(z.real()) || std::isinf(z.imag())) {
                a.c = DINF;
                a.tag = a.kind + "=inf";
            } else {
                a.zero = z.real() == 0 && z.imag() == 0;
                a.one = z.real() == 1.0 && z.imag() == 0;
                a.tag = a.kind + (a.zero ? "=0" : "");
            }
            break;
        }
        case SYMENGINE_INFTY: {
            std::string d = key(*down_cast<const Infty &>(e).get_direction());
            a.c = d == "I:1" ? PINF : d == "I:-1" ? NINF : d == "I:0" ? ZOO : ODD;
            a.tag = a.c == PINF ? "Infty+" : a.c == NINF ? "Infty-" : a.c == ZOO ? "zoo" : "Infty[" + d + "]";
            break;
        }
        case SYMENGINE_NOT_A_NUMBER:
            a.c = NANV;
            a.nanobj = true;
            a.tag = "NaN";
            break;
        default:
            a.c = SYM;
            a.tag = "Symbolic:" + a.kind;
    }
    return a;
}
static int tag_rank(const AbsV &a) // Integer < Rational < Complex < RealDouble < ComplexDouble < +oo < -oo < zoo < NaN
{
    if (a.nanobj)
        return 9;
    if (a.c == PINF || a.c == NINF || a.c == ZOO || a.c == ODD)
        return a.c == PINF ? 5 : a.c == NINF ? 6 : a.c == ZOO ? 7 : 8;
    return a.kind == "Integer" ? 0 : a.kind == "Rational" ? 1 : a.kind == "Complex" ? 2 : a.kind == "RealDouble" ? 3 : 4;
}
static bool is_inf(const AbsV &a)
{
    return a.c == PINF || a.c == NINF || a.c == ZOO;
}

// ---- the abstract model -------------------------------------------------------------------------
enum Exp { E_NOJUDGE, E_NAN, E_PINF, E_NINF, E_ZOO, E_ZERO, E_UNREP };
static const char *EXPN[] = {"not-judged", "nan", "+oo", "-oo", "zoo", "zero", "complex-direction infinity (not representable)"};
static Exp inf_of(Cls c)
{
    return c == PINF ? E_PINF : c == NINF ? E_NINF : E_ZOO;
}
static Cls negc(Cls c)
{
    return c == PINF ? NINF : c == NINF ? PINF : c;
}
static Exp flip(Cls c, int sign)
{
    return inf_of(sign < 0 ? negc(c) : c);
}
enum { ADD, SUB, MUL, DIV, POW, NOPS };
static const char *OPN[] = {"add", "sub", "mul", "div", "pow"};

static Exp model_add(const AbsV &x, Cls yc, const AbsV &y) // yc = class of y after an optional negation
{
    if (is_inf(x) && (yc == PINF || yc == NINF || yc == ZOO)) {
        if (x.c == ZOO || yc == ZOO)
            return E_NOJUDGE; // zoo + oo, zoo + zoo: conventions differ
        return x.c == yc ? inf_of(x.c) : E_NAN;
    }
    Cls ic = is_inf(x) ? x.c : yc;
    const AbsV &fin = is_inf(x) ? y : x;
    if (fin.real || ic == ZOO)
        return inf_of(ic);
    return E_NOJUDGE; // +-oo + non-real finite
}
// rule name is returned through *rule
static Exp model(int op, const AbsV &a, const AbsV &b, const char **rule)
{
    *rule = "inf-rule";
    if (a.c == SYM || b.c == SYM || a.c == ODD || b.c == ODD)
        return E_NOJUDGE;
    if (a.c == NANV || b.c == NANV) {
        *rule = "nan-absorb";
        // A NaN inside a double follows IEEE 754 / C99, which exempts exactly pow(x, +-0) = 1 and pow(1, y) = 1.
        if (op == POW && !a.nanobj && !b.nanobj && (b.zero || a.one))
            return E_NOJUDGE;
        return E_NAN;
    }
    if (a.c == DINF || b.c == DINF)
        return E_NOJUDGE; // IEEE infinities inside doubles: outside the statement's rules
    bool ai = is_inf(a), bi = is_inf(b);
    if (!ai && !bi) {
        if (op == DIV && a.exact && b.exact && b.zero) {
            *rule = "zero-div";
            return a.zero ? E_NAN : E_ZOO;
        }
        return E_NOJUDGE;
    }
    switch (op) {
        case ADD:
            return model_add(a, b.c, b);
        case SUB:
            return model_add(a, negc(b.c), b);
        case MUL: {
            if (ai && bi) {
                if (a.c == ZOO || b.c == ZOO)
                    return E_ZOO;
                return a.c == b.c ? E_PINF : E_NINF;
            }
            const AbsV &inf = ai ? a : b, &fin = ai ? b : a;
            if (fin.zero)
                return E_NAN;
            if (inf.c == ZOO)
                return E_ZOO;
            if (fin.real)
                return flip(inf.c, fin.sign);
            return E_UNREP;
        }
        case DIV: {
            if (ai && bi)
                return E_NAN;
            if (bi)
                return E_ZERO; // finite / infinity
            if (b.zero)
                return b.exact ? E_ZOO : E_NOJUDGE;
            if (a.c == ZOO)
                return E_ZOO;
            if (b.real)
                return flip(a.c, b.sign);
            return E_UNREP;
        }
        default: // POW with infinities: the statement lists no rule (and the library's documented choices differ from
                 // sympy's, e.g. (1/2)**-oo = zoo); only nan absorption and the float rule are judged for pow
            return E_NOJUDGE;
    }
}

struct Val {
    std::string name;
    RCP<const Number> e;
    AbsV a;
    std::string k;
};
static std::vector<Val> V;
static void addv(const std::string &name, const RCP<const Number> &e)
{
    Val v;
    v.name = name;
    v.e = e;
    v.a = classify(*e);
    v.k = key(*e);
    V.push_back(v);
}

struct Obs {
    int st = 0; // 0 value, 1 library exception (refusal), 2 other std::exception
    std::string what, k;
    AbsV a;
    RCP<const Basic> r;
    std::string cls() const
    {
        return st == 1 ? "throws" : st == 2 ? "throws-std" : a.tag;
    }
    std::string show() const
    {
        return st ? "throws '" + what + "'" : sstr(r) + " [" + k + "]";
    }
};
static Obs observe(const std::function<RCP<const Basic>()> &f)
{
    Obs o;
    try {
        o.r = f();
        o.k = key(*o.r);
        o.a = classify(*o.r);
    } catch (SymEngineException &x) {
        o.st = 1;
        o.what = x.what();
    } catch (std::exception &x) {
        o.st = 2;
        o.what = x.what();
    }
    return o;
}
static Obs apply(int api, int op, const Val &a, const Val &b)
{
    return observe([&]() -> RCP<const Basic> {
        if (api == 0) {
            switch (op) {
                case ADD:
                    return a.e->add(*b.e);
                case SUB:
                    return a.e->sub(*b.e);
                case MUL:
                    return a.e->mul(*b.e);
                case DIV:
                    return a.e->div(*b.e);
                default:
                    return a.e->pow(*b.e);
            }
        }
        switch (op) {
            case ADD:
                return add(a.e, b.e);
            case SUB:
                return sub(a.e, b.e);
            case MUL:
                return mul(a.e, b.e);
            case DIV:
                return div(a.e, b.e);
            default:
                return pow(a.e, b.e);
        }
    });
}
static bool matches(Exp want, const Obs &o)
{
    if (o.st)
        return want == E_UNREP && o.st == 1; // (add/mul) refusing is fine only where no value is representable
    switch (want) {
        case E_NAN:
            return o.a.c == NANV;
        case E_PINF:
            return o.a.c == PINF;
        case E_NINF:
            return o.a.c == NINF;
        case E_ZOO:
            return o.a.c == ZOO;
        case E_ZERO:
            return o.a.c == FIN && o.a.zero;
        case E_UNREP:
            return o.a.c == NANV || o.a.c == ZOO || o.a.c == SYM;
        default:
            return true;
    }
}
static bool same_outcome(const Obs &x, const Obs &y)
{
    if (x.st || y.st)
        return (x.st != 0) == (y.st != 0);
    if (x.a.c == NANV && y.a.c == NANV)
        return true;
    return x.k == y.k;
}

int main(int argc, char **argv)
{
    init(argc, argv, "C06");
    const bool thorough = opts().thorough();
    auto I = [](const char *s) { return integer(integer_class(s)); };
    auto Q = [](const char *n, const char *d) { return Rational::from_two_ints(*integer(integer_class(n)), *integer(integer_class(d))); };
    auto C = [&](RCP<const Number> re, RCP<const Number> im) { return Complex::from_two_nums(*re, *im); };
    const double inf = INFINITY, qnan = std::numeric_limits<double>::quiet_NaN();
    // simplest first within each kind
    addv("Integer:0", I("0"));
    addv("Integer:1", I("1"));
    addv("Integer:-1", I("-1"));
    addv("Integer:2", I("2"));
    addv("Integer:-3", I("-3"));
    addv("Integer:10^20", I("100000000000000000000"));
    addv("Integer:-10^20", I("-100000000000000000000"));
    addv("Rational:1/2", Q("1", "2"));
    addv("Rational:-1/2", Q("-1", "2"));
    addv("Rational:3/2", Q("3", "2"));
    addv("Rational:-7/3", Q("-7", "3"));
    addv("Rational:(10^20+1)/3", Q("100000000000000000001", "3"));
    addv("Complex:I", C(I("0"), I("1")));
    addv("Complex:-I", C(I("0"), I("-1")));
    addv("Complex:1+I", C(I("1"), I("1")));
    addv("Complex:3*I", C(I("0"), I("3")));
    addv("Complex:1/2-I", C(Q("1", "2"), I("-1")));
    addv("Complex:-2+3/2*I", C(I("-2"), Q("3", "2")));
    addv("RealDouble:0.0", real_double(0.0));
    addv("RealDouble:-0.0", real_double(-0.0));
    addv("RealDouble:1.0", real_double(1.0));
    addv("RealDouble:-1.0", real_double(-1.0));
    addv("RealDouble:0.5", real_double(0.5));
    addv("RealDouble:-2.5", real_double(-2.5));
    addv("RealDouble:1e308", real_double(1e308));
    addv("RealDouble:-1e308", real_double(-1e308));
    addv("RealDouble:5e-324", real_double(5e-324));
    addv("RealDouble:inf", real_double(inf));
    addv("RealDouble:-inf", real_double(-inf));
    addv("RealDouble:nan", real_double(qnan));
    addv("ComplexDouble:0+0i", complex_double(0.0, 0.0));
    addv("ComplexDouble:-0-0i", complex_double(-0.0, -0.0));
    addv("ComplexDouble:1+0i", complex_double(1.0, 0.0));
    addv("ComplexDouble:-1+0i", complex_double(-1.0, 0.0));
    addv("ComplexDouble:0+1i", complex_double(0.0, 1.0));
    addv("ComplexDouble:1.5-2i", complex_double(1.5, -2.0));
    addv("ComplexDouble:1e308+1e308i", complex_double(1e308, 1e308));
    addv("ComplexDouble:inf+0i", complex_double(inf, 0.0));
    addv("ComplexDouble:0-inf*i", complex_double(0.0, -inf));
    addv("ComplexDouble:nan+0i", complex_double(qnan, 0.0));
    addv("ComplexDouble:0+nan*i", complex_double(0.0, qnan));
    addv("Infty:+oo", Inf);
    addv("Infty:-oo", NegInf);
    addv("Infty:zoo", ComplexInf);
    addv("NaN", Nan);
    if (thorough) {
        addv("Integer:-2", I("-2"));
        addv("Integer:7", I("7")); // (no huge integers beyond 10^20 here: x ** 2^53 legitimately exhausts memory)
        addv("Rational:1/3", Q("1", "3"));
        addv("Rational:-22/7", Q("-22", "7"));
        addv("Rational:1/10^20", Q("1", "100000000000000000000"));
        addv("Complex:10^20+I", C(I("100000000000000000000"), I("1")));
        addv("Complex:-1/2-1/2*I", C(Q("-1", "2"), Q("-1", "2")));
        addv("RealDouble:2.0", real_double(2.0));
        addv("RealDouble:-0.5", real_double(-0.5));
        addv("RealDouble:1/3", real_double(1.0 / 3.0));
        addv("RealDouble:2^53", real_double(9007199254740992.0));
        addv("RealDouble:-5e-324", real_double(-5e-324));
        addv("ComplexDouble:0-1i", complex_double(0.0, -1.0));
        addv("ComplexDouble:-2.5+0.5i", complex_double(-2.5, 0.5));
        addv("ComplexDouble:0+5e-324i", complex_double(0.0, 5e-324));
        addv("ComplexDouble:-inf+inf*i", complex_double(-inf, inf));
        addv("ComplexDouble:nan+nan*i", complex_double(qnan, qnan));
    }
    const long long n = V.size();

    enum { K_EVAL, K_NAN, K_INF, K_ZDIV, K_FLOAT, K_COMM, K_NOJUDGE, K_REFUSED, K_UNREP_TOL, K_MIXED, K_REFUSED_JUDGED, K_IEEE };
    CaseSet cs;
    cs.name = "pair";
    cs.n = n * n;
    cs.counter_names = {"operations_evaluated",        "judged_nan_absorption",          "judged_infinity_rule",
                        "judged_exact_zero_division",  "judged_float_never_exact",       "judged_commutativity_comparisons",
                        "not_judged_by_class_model",   "library_refusals_(SymEngineException)", "unrepresentable_result_tolerated",
                        "mixed_kind_pairs",            "refusals_where_model_had_a_value_(sub/div/pow)", "nan_double_pow_ieee_exemptions"};
    cs.desc = [&](long long i) { return "a=" + V[i / n].name + "  b=" + V[i % n].name + "  ops add,sub,mul,div,pow via Number::op and top-level"; };
    cs.crash_sig = [&](long long i, const std::string &oc) { return "pair:" + oc + ":(" + V[i / n].a.tag + "," + V[i % n].a.tag + ")"; };
    cs.body = [&](long long i, Ctx &c) {
        const Val &a = V[i / n], &b = V[i % n];
        if (a.a.kind != b.a.kind) {
            c.count(K_MIXED);
            c.nontrivial();
        } else if (a.a.c != FIN || b.a.c != FIN)
            c.nontrivial();
        for (int op = 0; op < NOPS; op++) {
            const char *rule;
            Exp want = model(op, a.a, b.a, &rule);
            bool floatrule = a.a.c == FIN && b.a.c == FIN && (!a.a.exact || !b.a.exact);
            if (want == E_NOJUDGE && (a.a.c == NANV || b.a.c == NANV))
                c.count(K_IEEE, 2);
            for (int api = 0; api < 2; api++) {
                Obs o = apply(api, op, a, b);
                c.eval();
                c.count(K_EVAL);
                if (o.st == 1)
                    c.count(K_REFUSED);
                std::string fn = std::string(api == 0 ? "Number::" : "") + OPN[op];
                std::string call = fn + "(" + a.name + ", " + b.name + ")";
                std::string sigcall = fn + "(" + a.a.tag + "," + b.a.tag + ")";
                c.outcome(std::string(OPN[op]) + "(" + a.a.tag + "," + b.a.tag + ")->" + o.cls());
                if (o.st == 2)
                    c.violation("std-exception:" + sigcall, call + " threw a non-library exception: " + o.what);
                if (want != E_NOJUDGE && o.st == 1 && op != ADD && op != MUL) {
                    // sub/div/pow: a library exception is a refusal, not a result (add and mul must evaluate: the
                    // statement equates a+b with b+a and a*b with b*a for every pair)
                    c.count(K_REFUSED_JUDGED);
                } else if (want != E_NOJUDGE) {
                    c.count(want == E_NAN && std::string(rule) == "nan-absorb" ? K_NAN : std::string(rule) == "zero-div" ? K_ZDIV : K_INF);
                    if (!matches(want, o))
                        c.violation(std::string(rule) + ":" + sigcall + "=" + o.cls(), call + " = " + o.show() + "; extended-number model: " + EXPN[want]);
                    else if (want == E_UNREP)
                        c.count(K_UNREP_TOL);
                } else if (!floatrule)
                    c.count(K_NOJUDGE);
                if (floatrule && o.st == 0) {
                    c.count(K_FLOAT);
                    if (o.a.exact)
                        c.violation("float-exact:" + sigcall + "=" + o.cls(),
                                    call + " = " + o.show() + ": an operation between a finite float and a finite number returned an exact number");
                }
                // R1: commutativity of add and mul, judged once per unordered pair
                if ((op == ADD || op == MUL) && i / n < i % n) {
                    Obs r = apply(api, op, b, a);
                    c.eval();
                    c.count(K_EVAL);
                    c.count(K_COMM);
                    if (!same_outcome(o, r)) {
                        bool sw = std::make_pair(tag_rank(b.a), b.a.tag) < std::make_pair(tag_rank(a.a), a.a.tag); // canonical operand order in the signature
                        c.violation("commute:" + fn + "(" + (sw ? b.a.tag + "," + a.a.tag : a.a.tag + "," + b.a.tag) + ")="
                                        + (sw ? r.cls() + "|" + o.cls() : o.cls() + "|" + r.cls()),
                                    call + " = " + o.show() + " but " + fn + "(" + b.name + ", " + a.name + ") = " + r.show());
                    }
                }
            }
        }
        if (key(*a.e) != a.k || key(*b.e) != b.k)
            c.violation("operand-mutated(" + a.a.tag + "," + b.a.tag + ")", "an operand changed under arithmetic: a=" + a.name + " b=" + b.name);
        if (i % 211 == 5) {
            const char *rule;
            Exp want = model(MUL, a.a, b.a, &rule);
            c.sample("{\"op\":\"mul\",\"a\":" + jstr(a.name) + ",\"b\":" + jstr(b.name) + ",\"model\":" + jstr(EXPN[want]) + ",\"impl\":" + jstr(apply(1, MUL, a, b).cls())
                     + "}");
        }
    };
    run_cases(cs);

    Run &R = run();
    R.states = n;
    R.transitions = R.evaluations;
    R.bound_completed = "full table: " + std::to_string(n) + " values of every number kind, all " + std::to_string(n * n)
                        + " ordered pairs x {add,sub,mul,div,pow} x {Number::op, top-level}";
    R.rule = "all ordered pairs of the value alphabet (Integer, Rational, Complex, RealDouble incl. +-0.0/+-inf/nan/denormal/huge, ComplexDouble incl. "
             "zero/inf/nan parts, +oo, -oo, zoo, NaN) x 5 operations x 2 call paths; results classified from raw stored fields and compared with an "
             "abstract extended-number model (nan absorbs; oo-oo, 0*oo, sign rule for finite real factors/divisors, inf*inf, inf/inf, finite/inf, "
             "exact x/0, 0/0; float-with-finite never exact; add/mul commutative by key). distinct_nontrivial = ordered pairs of different kinds or "
             "with a non-finite operand";
    R.assumptions = {"the abstract extended-number model in checks/C06.cpp (sympy-compatible, only uncontroversial entries are judged; others counted as not judged)",
                     "a NaN inside a RealDouble/ComplexDouble counts as nan; IEEE infinities inside doubles are not the Infty objects and are only "
                     "subject to commutativity and nan absorption",
                     "key() distinguishes doubles by bit pattern (so +0.0 and -0.0 results are different outcomes for commutativity)"};
    return R.finish();
}
