// C37  Common-subexpression elimination is a faithful factoring -- E5 over expression lists (DESIGN 5 C37)
//
// Every ordered list of <= 2 (quick) / <= 3 (thorough) expressions from a 40-expression pool goes through cse().
// The pool is built from reading cse.cpp: shared subtrees, shared sub-sums / sub-products (match_common_args),
// negated terms and negative powers (OptsCSEVisitor rewrites them as mul(-1, .) / pow(., -1)), functions, and
// names that collide with the implementation's private vocabulary: symbols x0, x1 (next_symbol) and user
// FunctionSymbols called add / mul / pow (the markers RebuildVisitor turns back into operations).
// Oracle (independent of cse): replacements substituted back last -> first with a plain structural
// replacement must reproduce each input (same structural key, and eq); replacement symbols are Symbols, pairwise
// distinct, not free in any input (own tree walk); replacement i mentions only replacement symbols < i; the
// reduced expressions mention only input symbols and replacement symbols.
#include "common.h"
#include "key.h"
#include "refeval.h"
namespace SymEngine
{
void cse(vec_pair &replacements, vec_basic &reduced_exprs, const vec_basic &exprs);
}
using namespace verif;

struct PoolE {
    std::string name;
    RCP<const Basic> e;
};
static std::vector<PoolE> P;

static void free_syms(const Basic &e, std::set<std::string> &out)
{
    if (is_a<Symbol>(e)) {
        out.insert(down_cast<const Symbol &>(e).get_name());
        return;
    }
    for (auto &a : e.get_args())
        free_syms(*a, out);
}

// own structural substitution symbol-name -> expression (rebuilds through the public constructors)
static RCP<const Basic> subst(const RCP<const Basic> &e, const std::string &name, const RCP<const Basic> &by)
{
    if (is_a<Symbol>(*e))
        return down_cast<const Symbol &>(*e).get_name() == name ? by : e;
    vec_basic args = e->get_args();
    if (args.empty())
        return e;
    bool changed = false;
    vec_basic na;
    for (auto &a : args) {
        RCP<const Basic> b = subst(a, name, by);
        if (b.get() != a.get())
            changed = true;
        na.push_back(b);
    }
    if (!changed)
        return e;
    if (is_a<Add>(*e))
        return add(na);
    if (is_a<Mul>(*e))
        return mul(na);
    if (is_a<Pow>(*e))
        return pow(na[0], na[1]);
    if (is_a<FunctionSymbol>(*e))
        return function_symbol(down_cast<const FunctionSymbol &>(*e).get_name(), na);
    if (is_a_sub<OneArgFunction>(*e))
        return down_cast<const OneArgFunction &>(*e).create(na[0]);
    // anything else in the pool (Derivative/Subs are opaque to cse): fall back to the library's structural replace
    map_basic_basic m;
    m[symbol(name)] = by;
    return e->xreplace(m);
}

static std::string tclass(const Basic &e)
{
    if (is_a<FunctionSymbol>(e))
        return "FunctionSymbol(" + down_cast<const FunctionSymbol &>(e).get_name() + ")";
    return type_code_name(e.get_type_code());
}
// innermost differing sub-pair (structural descent through positions whose siblings agree)
static void innermost_diff(const RCP<const Basic> &a, const RCP<const Basic> &b, RCP<const Basic> &da, RCP<const Basic> &db)
{
    da = a;
    db = b;
    if (a->get_type_code() != b->get_type_code())
        return;
    if (is_a<FunctionSymbol>(*a) && down_cast<const FunctionSymbol &>(*a).get_name() != down_cast<const FunctionSymbol &>(*b).get_name())
        return;
    vec_basic x = a->get_args(), y = b->get_args();
    if (x.empty() || y.empty())
        return;
    if (x.size() != y.size()) {
        // a flattened sum/product: report the one input argument that has no counterpart
        if (!(is_a<Add>(*a) || is_a<Mul>(*a)))
            return;
        std::multiset<std::string> ky;
        for (auto &t : y)
            ky.insert(key(*t));
        std::vector<int> un;
        for (size_t i = 0; i < x.size(); i++) {
            auto it = ky.find(key(*x[i]));
            if (it == ky.end())
                un.push_back(i);
            else
                ky.erase(it);
        }
        if (un.size() == 1)
            da = x[un[0]];
        return;
    }
    std::vector<int> ux, uy;
    if (is_a<Add>(*a) || is_a<Mul>(*a)) {
        std::multimap<std::string, int> ky;
        for (size_t j = 0; j < y.size(); j++)
            ky.insert({key(*y[j]), (int)j});
        for (size_t i = 0; i < x.size(); i++) {
            auto it = ky.find(key(*x[i]));
            if (it == ky.end())
                ux.push_back(i);
            else
                ky.erase(it);
        }
        for (auto &kv : ky)
            uy.push_back(kv.second);
    } else {
        for (size_t i = 0; i < x.size(); i++)
            if (key(*x[i]) != key(*y[i])) {
                ux.push_back(i);
                uy.push_back(i);
            }
    }
    if (ux.size() == 1 && uy.size() == 1)
        innermost_diff(x[ux[0]], y[uy[0]], da, db);
}

enum { K_LISTS, K_WITH_REPL, K_REPL_TOTAL, K_BACKSUB_OK, K_VALUE_COMPARED, K_VALUE_UNDECIDED, K_THROW };

static std::vector<Env> G;

static std::string list_desc(const std::vector<int> &ix)
{
    std::string o = "cse([";
    for (size_t k = 0; k < ix.size(); k++)
        o += (k ? ", " : "") + sstr(P[ix[k]].e);
    return o + "])";
}

static void check_list(const std::vector<int> &ix, Ctx &c)
{
    c.eval();
    c.count(K_LISTS);
    vec_basic in;
    for (int i : ix)
        in.push_back(P[i].e);
    vec_pair rep;
    vec_basic red;
    std::string what = list_desc(ix);
    try {
        SymEngine::cse(rep, red, in);
    } catch (SymEngineException &x) {
        c.count(K_THROW);
        c.violation("cse:throws", what + " threw " + x.what());
        return;
    }
    std::string out = " -> replacements [";
    for (auto &p : rep)
        out += sstr(p.first) + " := " + sstr(p.second) + "; ";
    out += "] reduced [";
    for (auto &e : red)
        out += sstr(e) + "; ";
    out += "]";
    if (!rep.empty()) {
        c.nontrivial();
        c.count(K_WITH_REPL);
        c.count(K_REPL_TOTAL, rep.size());
    }
    {
        std::string oc = "repl=" + std::to_string(rep.size());
        for (auto &p : rep)
            oc += ":" + tclass(*p.second);
        oc += " reduced";
        for (auto &e : red)
            oc += ":" + tclass(*e);
        c.outcome(oc);
    }
    if (red.size() != in.size()) {
        c.violation("cse:reduced-count", what + out + ": " + std::to_string(red.size()) + " reduced expressions for " + std::to_string(in.size()) + " inputs");
        return;
    }
    // ---- replacement symbols: Symbols, distinct, fresh
    std::set<std::string> insyms;
    for (auto &e : in)
        free_syms(*e, insyms);
    std::vector<std::string> rs;
    for (size_t i = 0; i < rep.size(); i++) {
        if (!is_a<Symbol>(*rep[i].first)) {
            c.violation("cse:replacement-lhs-not-a-symbol", what + out);
            return;
        }
        std::string n = down_cast<const Symbol &>(*rep[i].first).get_name();
        if (insyms.count(n)) {
            c.violation("cse:replacement-symbol-not-fresh", what + out + ": symbol " + n + " occurs free in the inputs");
            return;
        }
        if (std::find(rs.begin(), rs.end(), n) != rs.end()) {
            c.violation("cse:replacement-symbol-repeated", what + out + ": symbol " + n + " defined twice");
            return;
        }
        // replacement i mentions only input symbols and replacement symbols < i
        std::set<std::string> fs;
        free_syms(*rep[i].second, fs);
        for (auto &s : fs)
            if (!insyms.count(s) && std::find(rs.begin(), rs.end(), s) == rs.end()) {
                c.violation("cse:replacement-refers-forward-or-unknown-symbol",
                            what + out + ": definition of " + n + " mentions " + s + " which is neither an input symbol nor an earlier replacement");
                return;
            }
        rs.push_back(n);
    }
    for (auto &e : red) {
        std::set<std::string> fs;
        free_syms(*e, fs);
        for (auto &s : fs)
            if (!insyms.count(s) && std::find(rs.begin(), rs.end(), s) == rs.end()) {
                c.violation("cse:reduced-mentions-unknown-symbol", what + out + ": reduced expression mentions " + s);
                return;
            }
    }
    // ---- back-substitution last -> first
    for (size_t k = 0; k < in.size(); k++) {
        RCP<const Basic> e = red[k];
        for (size_t i = rep.size(); i-- > 0;)
            e = subst(e, rs[i], rep[i].second);
        std::string ke = key(*e), ki = key(*in[k]);
        bool same_key = (ke == ki), same_eq = eq(*e, *in[k]);
        if (same_key && same_eq)
            continue;
        // classify: innermost differing pair + does the value differ?
        RCP<const Basic> da, db;
        innermost_diff(in[k], e, da, db);
        int verdict = 1;
        std::string why;
        for (auto &g : G) {
            int r = same_value(*in[k], *e, g, why);
            if (r < 0) {
                verdict = -1;
                break;
            }
            if (r == 0) {
                verdict = 0;
                break;
            }
        }
        c.count(verdict < 0 ? K_VALUE_UNDECIDED : K_VALUE_COMPARED);
        std::string sig = "cse:backsubst:" + tclass(*da) + "=>" + tclass(*db) + (verdict == 0 ? ":value-changed" : verdict == 1 ? ":same-value" : ":value-undecided");
        if (same_key != same_eq)
            sig += same_eq ? ":eq-but-different-key" : ":same-key-but-not-eq";
        c.violation(sig, what + out + ": substituting back gives " + sstr(e) + " for input " + std::to_string(k) + " = " + sstr(in[k])
                             + " (differs at " + sstr(da) + " vs " + sstr(db) + (verdict == 0 ? "; values differ: " + why : "") + ")");
        return;
    }
    c.count(K_BACKSUB_OK);
    if (!rep.empty() && c.index % 211 == 0)
        c.sample("{\"call\":" + jstr(what) + ",\"result\":" + jstr(out) + "}");
}

int main(int argc, char **argv)
{
    init(argc, argv, "C37");
    bool thorough = opts().thorough();
    G = complex_grid();
    for (auto &g : G) {
        g.sym["w"] = mkc(0.55Q, 0.35Q);
        g.sym["x0"] = mkc(-0.6Q, 0.45Q);
        g.sym["x1"] = mkc(1.2Q, -0.3Q);
    }
    RCP<const Basic> x = symbol("x"), y = symbol("y"), z = symbol("z"), w = symbol("w"), x0 = symbol("x0"), x1 = symbol("x1");
    auto F = [](const char *n, vec_basic a) { return (RCP<const Basic>)function_symbol(n, a); };
    auto I_ = [](long k) { return (RCP<const Basic>)integer(k); };
    auto put = [&](const std::string &n, RCP<const Basic> e) { P.push_back({n, e}); };
    // shared sub-sums and sub-products
    put("x+y", add(x, y));
    put("x+y+z", add({x, y, z}));
    put("x+y+w", add({x, y, w}));
    put("x+y+z+w", add({x, y, z, w}));
    put("x*y", mul(x, y));
    put("x*y*z", mul({x, y, z}));
    put("x*y*w", mul({x, y, w}));
    put("x*y*z*w", mul({x, y, z, w}));
    // negated terms / negative coefficients
    put("-(x+y)", neg(add(x, y)));
    put("-x-y", add(neg(x), neg(y)));
    put("x-y", sub(x, y));
    put("-x*y", neg(mul(x, y)));
    put("-x*y*z", neg(mul({x, y, z})));
    put("2*x+2*y+z", add({mul(I_(2), x), mul(I_(2), y), z}));
    put("2*(x+y)", mul(I_(2), add(x, y)));
    // negative powers
    put("1/x", div(one, x));
    put("1/(x*y)", div(one, mul(x, y)));
    put("x/y", div(x, y));
    put("x**(-2)", pow(x, I_(-2)));
    put("x**(-y)", pow(x, neg(y)));
    put("x**y", pow(x, y));
    put("(x+y)**(-1)", div(one, add(x, y)));
    put("(x+y)**2", pow(add(x, y), I_(2)));
    put("sqrt(x+y)", sqrt(add(x, y)));
    // functions over shared arguments
    put("sin(x+y)", sin(add(x, y)));
    put("cos(x+y)+sin(x+y)", add(cos(add(x, y)), sin(add(x, y))));
    put("f(x+y)", F("f", {add(x, y)}));
    put("f(x,x*y)", F("f", {x, mul(x, y)}));
    put("exp(x*y*z)", exp(mul({x, y, z})));
    put("(x+y)*(x+y+z)", mul(add(x, y), add({x, y, z})));
    put("sin(x*y)+x*y", add(sin(mul(x, y)), mul(x, y)));
    put("(x+y)/(z+w)", div(add(x, y), add(z, w)));
    // collisions with private names
    put("x0+x", add(x0, x));
    put("x0*x1", mul(x0, x1));
    put("sin(x0+x1)+x0+x1", add({sin(add(x0, x1)), x0, x1}));
    put("F:add(x,y)", F("add", {x, y}));
    put("F:mul(x,y)", F("mul", {x, y}));
    put("F:pow(x,y)", F("pow", {x, y}));
    put("F:add(x,y)+z", add(F("add", {x, y}), z));
    put("F:mul(x+y,z)", F("mul", {add(x, y), z}));
    if (P.size() != 40) {
        fprintf(stderr, "pool size %zu != 40\n", P.size());
        return 2;
    }
    const long long n = P.size(); // the ordered-list enumeration below uses the first 40 only
    // ---- subset lattice: every sum (and every product) of >= 2 of the symbols a..e.  Lists of FOUR overlapping sums are what
    //      match_common_args needs before a stale argument index can matter (fold {a,b} out of one sum, then "find" {a,c} in
    //      it); added after seeded change C37 escaped the lists of <= 3 from the 40-expression pool
    std::vector<int> LS, LP; // indices into P of the lattice sums / products
    {
        vec_basic sy = {symbol("a"), symbol("b"), symbol("c"), symbol("d"), symbol("e")};
        for (int mask = 1; mask < 32; mask++) {
            if (__builtin_popcount(mask) < 2)
                continue;
            vec_basic t;
            std::string nm;
            for (int k = 0; k < 5; k++)
                if (mask & (1 << k)) {
                    t.push_back(sy[k]);
                    nm += "abcde"[k];
                }
            LS.push_back(P.size());
            put("L+:" + nm, add(t));
            LP.push_back(P.size());
            put("L*:" + nm, mul(t));
        }
    }
    std::vector<std::string> cn = {"lists", "lists_with_replacements", "replacements_total", "lists_backsubstitution_exact",
                                   "mismatches_value_compared", "mismatches_value_undecided", "cse_threw"};
    Run &R = run();
    int maxlen = thorough ? 3 : 2;
    long long total = 0, pw = 1;
    std::vector<long long> off; // offsets per length
    for (int l = 1; l <= maxlen; l++) {
        pw *= n;
        off.push_back(total);
        total += pw;
    }
    auto decode = [&](long long i) {
        int l = 0;
        while (l + 1 < (int)off.size() && i >= off[l + 1])
            l++;
        long long j = i - off[l];
        std::vector<int> ix(l + 1);
        for (int k = l; k >= 0; k--) {
            ix[k] = j % n;
            j /= n;
        }
        return ix;
    };
    CaseSet cs;
    cs.name = "lists";
    cs.n = total;
    cs.counter_names = cn;
    cs.desc = [&](long long i) { return list_desc(decode(i)); };
    cs.crash_sig = [&](long long, const std::string &oc) { return "cse:" + oc; };
    cs.body = [&](long long i, Ctx &c) { check_list(decode(i), c); };
    run_cases(cs);
    printf("[C37] E5: pool of %lld expressions, all ordered lists of length <= %d: %lld lists\n", n, maxlen, total);
    long long lattice_lists = 0;
    if (!past_deadline()) {
        // every 4-subset of the 26 lattice sums (resp. products), in increasing and in decreasing order
        std::vector<std::vector<int>> L4;
        for (const std::vector<int> *src : {&LS, &LP}) {
            const int m = src->size();
            for (int i = 0; i < m; i++)
                for (int j = i + 1; j < m; j++)
                    for (int k = j + 1; k < m; k++)
                        for (int l = k + 1; l < m; l++) {
                            L4.push_back({(*src)[i], (*src)[j], (*src)[k], (*src)[l]});
                            L4.push_back({(*src)[l], (*src)[k], (*src)[j], (*src)[i]});
                        }
        }
        lattice_lists = L4.size();
        CaseSet c4;
        c4.name = "lattice4";
        c4.n = L4.size();
        c4.counter_names = cn;
        c4.desc = [&](long long i) { return list_desc(L4[i]); };
        c4.crash_sig = [&](long long, const std::string &oc) { return "cse:" + oc; };
        c4.body = [&](long long i, Ctx &c) { check_list(L4[i], c); };
        run_cases(c4);
        total += lattice_lists;
    }
    R.states = total;
    R.transitions = R.evaluations;
    R.bound_completed = "all ordered lists of <= " + std::to_string(maxlen) + " expressions from the 40-expression pool; every 4-subset (2 orders) of the 26 sums and of the 26 products of >= 2 symbols out of {a,b,c,d,e} (" + std::to_string(lattice_lists) + " lists); " + std::to_string(total) + " lists in all";
    R.rule = "E5: pool = shared sub-sums/sub-products (x+y, x+y+z, x+y+w, ...), negated terms, negative powers, functions over shared "
             "arguments, private-name collisions (symbols x0,x1; user FunctionSymbols add/mul/pow). For every list: cse() on the real library; "
             "replacements substituted back last->first by an own structural substitution must give the same structural key and eq() for every "
             "input; replacement symbols are distinct Symbols not free in the inputs (own tree walk); definition i mentions only input symbols and "
             "replacement symbols < i; reduced expressions mention no other symbols. Mismatches are additionally value-compared (RefEval) to classify. "
             "distinct_nontrivial = lists for which cse produced at least one replacement";
    R.assumptions = {"the public constructors add/mul/pow/function_symbol and OneArgFunction::create rebuild a node from unchanged arguments identically",
                     "expressions outside the pool (other functions, deeper nesting) are not covered"};
    return R.finish();
}
