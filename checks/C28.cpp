// C28  Boolean simplification preserves truth value -- E1 over formulas + truth tables (DESIGN 5 C28)
// Every transition r = op(args) on the real library is judged by an independent interpreter of
// the *result tree* at all 36 assignments (x,y) in {-1,0,1/2,1,2,3}^2 against the operator's
// truth function applied to the operand tables.
#include "common.h"
#include "key.h"
#include "explore.h"
using namespace verif;

static std::vector<mpq_class> VALS;
static int NPT;
static RCP<const Basic> X, Y;
static std::vector<RCP<const Basic>> VALE; // library numbers of VALS

// ---------------------------------------------------------------- interpreter
static bool scalar(const Basic &e, const mpq_class &x, const mpq_class &y, mpq_class &out)
{
    if (is_a<Symbol>(e)) {
        const std::string &n = down_cast<const Symbol &>(e).get_name();
        if (n == "x") {
            out = x;
            return true;
        }
        if (n == "y") {
            out = y;
            return true;
        }
        return false;
    }
    ExtReal v;
    if (to_extreal(e, v) && !v.inf && !v.is_float) {
        out = v.v;
        return true;
    }
    return false;
}
// membership of a rational in a set tree: 1 / 0 / -1 undecided
static int memb(const Basic &s, const mpq_class &q)
{
    switch (s.get_type_code()) {
        case SYMENGINE_EMPTYSET:
            return 0;
        case SYMENGINE_UNIVERSALSET:
        case SYMENGINE_COMPLEXES:
        case SYMENGINE_REALS:
        case SYMENGINE_RATIONALS:
            return 1;
        case SYMENGINE_INTEGERS:
            return q.get_den() == 1;
        case SYMENGINE_NATURALS:
            return q.get_den() == 1 && q > 0;
        case SYMENGINE_NATURALS0:
            return q.get_den() == 1 && q >= 0;
        case SYMENGINE_INTERVAL: {
            const Interval &iv = down_cast<const Interval &>(s);
            ExtReal lo, hi, v;
            if (!to_extreal(*iv.get_start(), lo) || !to_extreal(*iv.get_end(), hi) || lo.is_float || hi.is_float)
                return -1;
            v.v = q;
            int cl = cmp(v, lo), ch = cmp(v, hi);
            if (cl < 0 || ch > 0)
                return 0;
            if (cl == 0)
                return !iv.get_left_open();
            if (ch == 0)
                return !iv.get_right_open();
            return 1;
        }
        case SYMENGINE_FINITESET: {
            bool und = false;
            for (auto &el : down_cast<const FiniteSet &>(s).get_container()) {
                ExtReal v;
                if (to_extreal(*el, v) && !v.inf && !v.is_float) {
                    if (v.v == q)
                        return 1;
                } else
                    und = true;
            }
            return und ? -1 : 0;
        }
        case SYMENGINE_UNION: {
            bool und = false;
            for (auto &a : down_cast<const Union &>(s).get_container()) {
                int m = memb(*a, q);
                if (m == 1)
                    return 1;
                if (m < 0)
                    und = true;
            }
            return und ? -1 : 0;
        }
        case SYMENGINE_COMPLEMENT: {
            const Complement &c = down_cast<const Complement &>(s);
            int u = memb(*c.get_universe(), q), k = memb(*c.get_container(), q);
            if (u == 0 || k == 1)
                return 0;
            if (u < 0 || k < 0)
                return -1;
            return 1;
        }
        default:
            return -1;
    }
}
// truth value of a formula tree: 1 / 0 / -1 undecided
static int truth(const Basic &f, const mpq_class &x, const mpq_class &y)
{
    switch (f.get_type_code()) {
        case SYMENGINE_BOOLEAN_ATOM:
            return down_cast<const BooleanAtom &>(f).get_val();
        case SYMENGINE_CONTAINS: {
            const Contains &c = down_cast<const Contains &>(f);
            mpq_class v;
            if (!scalar(*c.get_expr(), x, y, v))
                return -1;
            return memb(*c.get_set(), v);
        }
        case SYMENGINE_AND: {
            bool und = false;
            for (auto &a : down_cast<const And &>(f).get_container()) {
                int t = truth(*a, x, y);
                if (t == 0)
                    return 0;
                if (t < 0)
                    und = true;
            }
            return und ? -1 : 1;
        }
        case SYMENGINE_OR: {
            bool und = false;
            for (auto &a : down_cast<const Or &>(f).get_container()) {
                int t = truth(*a, x, y);
                if (t == 1)
                    return 1;
                if (t < 0)
                    und = true;
            }
            return und ? -1 : 0;
        }
        case SYMENGINE_NOT: {
            int t = truth(*down_cast<const Not &>(f).get_arg(), x, y);
            return t < 0 ? -1 : !t;
        }
        case SYMENGINE_XOR: {
            int p = 0;
            for (auto &a : down_cast<const Xor &>(f).get_container()) {
                int t = truth(*a, x, y);
                if (t < 0)
                    return -1;
                p ^= t;
            }
            return p;
        }
        case SYMENGINE_EQUALITY:
        case SYMENGINE_UNEQUALITY:
        case SYMENGINE_LESSTHAN:
        case SYMENGINE_STRICTLESSTHAN: {
            vec_basic a = f.get_args();
            mpq_class l, r;
            if (a.size() != 2 || !scalar(*a[0], x, y, l) || !scalar(*a[1], x, y, r))
                return -1;
            switch (f.get_type_code()) {
                case SYMENGINE_EQUALITY:
                    return l == r;
                case SYMENGINE_UNEQUALITY:
                    return l != r;
                case SYMENGINE_LESSTHAN:
                    return l <= r;
                default:
                    return l < r;
            }
        }
        default:
            return -1;
    }
}

struct Table {
    uint64_t val = 0, und = 0; // bit p: value / undecided at point p
    bool operator==(const Table &o) const
    {
        return val == o.val && und == o.und;
    }
};
static Table table_of(const Basic &f)
{
    Table t;
    for (int p = 0; p < NPT; p++) {
        int v = truth(f, VALS[p / (int)VALS.size()], VALS[p % (int)VALS.size()]);
        if (v < 0)
            t.und |= 1ULL << p;
        else if (v)
            t.val |= 1ULL << p;
    }
    return t;
}
static std::string pt_str(int p)
{
    return "(x=" + VALS[p / (int)VALS.size()].get_str() + ", y=" + VALS[p % (int)VALS.size()].get_str() + ")";
}

// ---------------------------------------------------------------- operations
enum Op { AND, OR, NAND, NOR, XOR, XNOR, NOPS };
static const char *OPN[] = {"logical_and", "logical_or", "logical_nand", "logical_nor", "logical_xor", "logical_xnor"};
static bool is_setop(int op)
{
    return op <= NOR;
}
static RCP<const Boolean> B_(const RCP<const Basic> &b)
{
    return rcp_static_cast<const Boolean>(b);
}
static RCP<const Boolean> apply_op(int op, const std::vector<RCP<const Basic>> &a)
{
    if (is_setop(op)) {
        set_boolean s;
        for (auto &x : a)
            s.insert(B_(x));
        switch (op) {
            case AND:
                return logical_and(s);
            case OR:
                return logical_or(s);
            case NAND:
                return logical_nand(s);
            default:
                return logical_nor(s);
        }
    }
    vec_boolean v;
    for (auto &x : a)
        v.push_back(B_(x));
    return op == XOR ? logical_xor(v) : logical_xnor(v);
}
static int sem(int op, const std::vector<int> &t)
{
    int all = 1, any = 0, par = 0;
    for (int x : t) {
        all &= x;
        any |= x;
        par ^= x;
    }
    switch (op) {
        case AND:
            return all;
        case OR:
            return any;
        case NAND:
            return !all;
        case NOR:
            return !any;
        case XOR:
            return par;
        default:
            return !par;
    }
}

enum { K_JUDGED, K_POINTS, K_POINTS_UND, K_REFUSED, K_RESULT_ATOM, K_SUBS_ATOM, K_SUBS_UNEVAL, K_SUBS_THROW, K_PW_JUDGED, K_PW_DOMAINERR_OK, K_SKIPPED_NONCANON };
static std::vector<std::string> CN = {"transitions_truth_table_judged",
                                      "assignments_compared",
                                      "assignments_undecided(skipped)",
                                      "transitions_library_refused(exception)",
                                      "transitions_result_is_BooleanAtom",
                                      "subs_evaluations_definite_checked",
                                      "subs_evaluations_left_unevaluated",
                                      "subs_evaluations_refused(exception)",
                                      "piecewise_cases_judged",
                                      "piecewise_DomainError_consistent_with_model",
                                      "case_indices_skipped(non-canonical_order_of_a_set_operand_list)"};

static StateSet SS;
static std::vector<Table> TB;

static std::string kinds(const std::vector<int> &ix, bool sorted)
{
    std::vector<std::string> k;
    for (int i : ix)
        k.push_back(type_code_name(SS.S[i].e->get_type_code()));
    if (sorted)
        std::sort(k.begin(), k.end());
    std::string o;
    for (auto &s : k)
        o += (o.empty() ? "" : ",") + s;
    return o;
}
static std::string recipe_of(const std::string &name, const std::vector<int> &ix)
{
    std::string o = name + "(";
    for (size_t i = 0; i < ix.size(); i++)
        o += (i ? ", " : "") + SS.S[ix[i]].recipe;
    return o + ")";
}

// judge a boolean result against an expected table
static void judge(Ctx &c, const std::string &sig, const std::string &recipe, const RCP<const Basic> &r, const Table &want)
{
    Table got = table_of(*r);
    bool judged = false;
    for (int p = 0; p < NPT; p++) {
        uint64_t b = 1ULL << p;
        if ((want.und | got.und) & b) {
            c.count(K_POINTS_UND);
            continue;
        }
        c.count(K_POINTS);
        judged = true;
        if ((want.val ^ got.val) & b) {
            c.violation(sig, recipe + " returned " + sstr(r) + " [" + key(*r) + "]; at " + pt_str(p) + " the recipe is "
                                 + ((want.val & b) ? "true" : "false") + " but the returned formula is " + ((got.val & b) ? "true" : "false"));
            break;
        }
    }
    if (judged)
        c.count(K_JUDGED);
}

static void check_nary(Ctx &c, int op, const std::vector<int> &ix)
{
    std::vector<RCP<const Basic>> args;
    for (int i : ix)
        args.push_back(SS.S[i].e);
    std::string recipe = recipe_of(OPN[op], ix);
    c.eval();
    RCP<const Boolean> r;
    try {
        r = apply_op(op, args);
    } catch (SymEngineException &x) {
        c.count(K_REFUSED);
        c.outcome(std::string("throw:") + x.what());
        return;
    }
    Table want;
    for (int p = 0; p < NPT; p++) {
        std::vector<int> t;
        bool und = false;
        for (int i : ix) {
            if (TB[i].und >> p & 1)
                und = true;
            t.push_back(TB[i].val >> p & 1);
        }
        if (und)
            want.und |= 1ULL << p;
        else if (sem(op, t))
            want.val |= 1ULL << p;
    }
    TypeID plain = (op == AND) ? SYMENGINE_AND : (op == OR) ? SYMENGINE_OR : (op == XOR) ? SYMENGINE_XOR : SYMENGINE_NOT;
    if (r->get_type_code() != plain || (op <= OR || op == XOR ? r->get_args().size() != ix.size() : false))
        c.nontrivial();
    if (is_a<BooleanAtom>(*r))
        c.count(K_RESULT_ATOM);
    c.outcome(std::string(OPN[op]) + "/" + std::to_string(ix.size()) + "->" + type_code_name(r->get_type_code()));
    judge(c, std::string("truth:") + OPN[op] + "(" + kinds(ix, true) + ")", recipe, r, want);
    if (c.index % 5003 == 0)
        c.sample("{\"recipe\":" + jstr(recipe) + ",\"result\":" + jstr(sstr(r)) + "}");
}

static void check_not(Ctx &c, int i)
{
    c.eval();
    RCP<const Boolean> r;
    std::string recipe = "logical_not(" + SS.S[i].recipe + ")";
    try {
        r = logical_not(B_(SS.S[i].e));
    } catch (SymEngineException &x) {
        c.count(K_REFUSED);
        return;
    }
    Table want;
    want.und = TB[i].und;
    want.val = ~TB[i].val & ((NPT == 64 ? 0 : (1ULL << NPT)) - 1) & ~want.und;
    if (!is_a<Not>(*r))
        c.nontrivial();
    c.outcome(std::string("logical_not(") + type_code_name(SS.S[i].e->get_type_code()) + ")->" + type_code_name(r->get_type_code()));
    judge(c, std::string("truth:logical_not(") + type_code_name(SS.S[i].e->get_type_code()) + ")", recipe, r, want);
}

// piecewise({{10,c1},{20,c2},{30,c3}}): value = expression of the first true condition
static void check_piecewise(Ctx &c, const std::vector<int> &ix)
{
    PiecewiseVec pv;
    std::string recipe = "piecewise({";
    for (size_t k = 0; k < ix.size(); k++) {
        pv.push_back({integer(10 * (k + 1)), B_(SS.S[ix[k]].e)});
        recipe += std::string(k ? ", " : "") + "{" + std::to_string(10 * (k + 1)) + ", " + SS.S[ix[k]].recipe + "}";
    }
    recipe += "})";
    c.eval();
    // expected value per point: 10(k+1) of the first true condition, 0 = undefined, -1 = undecided
    std::vector<int> want(NPT, 0);
    bool any_defined = false;
    for (int p = 0; p < NPT; p++) {
        for (size_t k = 0; k < ix.size(); k++) {
            if (TB[ix[k]].und >> p & 1) {
                want[p] = -1;
                break;
            }
            if (TB[ix[k]].val >> p & 1) {
                want[p] = 10 * (k + 1);
                break;
            }
        }
        if (want[p] > 0)
            any_defined = true;
    }
    std::string sig = "piecewise(" + kinds(ix, false) + ")";
    RCP<const Basic> r;
    try {
        r = piecewise(pv);
    } catch (DomainError &x) {
        if (any_defined)
            c.violation("piecewise-DomainError(" + kinds(ix, false) + ")",
                        recipe + " threw DomainError although some condition is true at some assignment");
        else
            c.count(K_PW_DOMAINERR_OK);
        c.outcome("piecewise:DomainError");
        return;
    } catch (SymEngineException &x) {
        c.count(K_REFUSED);
        return;
    }
    if (!is_a<Piecewise>(*r) || down_cast<const Piecewise &>(*r).get_vec().size() != ix.size())
        c.nontrivial();
    c.outcome(std::string("piecewise/") + std::to_string(ix.size()) + "->" + type_code_name(r->get_type_code())
              + (is_a<Piecewise>(*r) ? "/" + std::to_string(down_cast<const Piecewise &>(*r).get_vec().size()) : ""));
    bool judged = false;
    for (int p = 0; p < NPT; p++) {
        if (want[p] < 0) {
            c.count(K_POINTS_UND);
            continue;
        }
        const mpq_class &x = VALS[p / (int)VALS.size()], &y = VALS[p % (int)VALS.size()];
        int got = 0; // 0 undefined, -1 undecided
        if (is_a<Piecewise>(*r)) {
            for (auto &pr : down_cast<const Piecewise &>(*r).get_vec()) {
                int t = truth(*pr.second, x, y);
                if (t < 0) {
                    got = -1;
                    break;
                }
                if (t) {
                    mpq_class v;
                    got = scalar(*pr.first, x, y, v) && v.get_den() == 1 ? (int)v.get_num().get_si() : -1;
                    break;
                }
            }
        } else {
            mpq_class v;
            got = scalar(*r, x, y, v) && v.get_den() == 1 ? (int)v.get_num().get_si() : -1;
        }
        if (got < 0) {
            c.count(K_POINTS_UND);
            continue;
        }
        c.count(K_POINTS);
        judged = true;
        if (got != want[p]) {
            auto vs = [](int v) { return v == 0 ? std::string("undefined") : std::to_string(v); };
            c.violation(sig, recipe + " returned " + sstr(r) + " [" + key(*r) + "]; at " + pt_str(p) + " the recipe selects " + vs(want[p])
                                 + " but the returned expression selects " + vs(got));
            break;
        }
    }
    if (judged)
        c.count(K_PW_JUDGED);
}

// substitution of every assignment into a state must agree with its truth table.  Every value of the grid is exactly
// representable as a double, so each assignment is also made with x (mode 1) or y (mode 2) given as a RealDouble of the
// same value: "every assignment of numeric values" includes equal values of different kinds, and ties between an exact
// and a floating number take their own branch in the relational constructors.  The float modes are applied to formulas
// without membership and Eq/Ne atoms only (FiniteSet/Interval membership of a double is a question about sets, C27).
static std::vector<RCP<const Basic>> VALF; // the same values as RealDouble
static bool has_contains(const Basic &e)
{
    // Eq/Ne between an exact and a floating number are structural in this library by design (Eq(0, 0.0) is False;
    // C29 only requires Eq/Ne to be symmetric and negations of each other), so they are kept out of the float modes too
    if (is_a<Contains>(e) || is_a<Equality>(e) || is_a<Unequality>(e))
        return true;
    for (auto &a : e.get_args())
        if (has_contains(*a))
            return true;
    return false;
}
static void check_subs(Ctx &c, int i)
{
    const State &A = SS.S[i];
    const int modes = has_contains(*A.e) ? 1 : 3;
    for (int mode = 0; mode < modes; mode++)
        for (int p = 0; p < NPT; p++) {
            c.eval();
            map_basic_basic d;
            int px = p / (int)VALS.size(), py = p % (int)VALS.size();
            d[X] = mode == 1 ? VALF[px] : VALE[px];
            d[Y] = mode == 2 ? VALF[py] : VALE[py];
            RCP<const Basic> r;
            try {
                r = A.e->subs(d);
            } catch (SymEngineException &x) {
                c.count(K_SUBS_THROW);
                continue;
            }
            if (!is_a<BooleanAtom>(*r)) {
                c.count(K_SUBS_UNEVAL);
                continue;
            }
            if (TB[i].und >> p & 1) {
                c.count(K_POINTS_UND);
                continue;
            }
            c.count(K_SUBS_ATOM);
            c.nontrivial();
            bool got = down_cast<const BooleanAtom &>(*r).get_val(), want = TB[i].val >> p & 1;
            if (got != want) {
                c.violation(std::string(mode ? "subs-float:" : "subs:") + type_code_name(A.e->get_type_code()),
                            "(" + sstr(A.e) + ").subs" + pt_str(p) + (mode == 1 ? " [x as double]" : mode == 2 ? " [y as double]" : "") + " = "
                                + (got ? "True" : "False") + " but the formula [" + A.key + "] is " + (want ? "true" : "false")
                                + " there; formula obtained by " + A.recipe);
                return;
            }
        }
    c.outcome(std::string("subs:") + type_code_name(A.e->get_type_code()));
}

int main(int argc, char **argv)
{
    init(argc, argv, "C28");
    bool thorough = opts().thorough();
    Run &R = run();
    for (const char *q : {"-1", "0", "1/2", "1", "2", "3"})
        VALS.push_back(mpq_class(q));
    NPT = VALS.size() * VALS.size();
    for (auto &q : VALS)
        VALE.push_back(Rational::from_two_ints(q.get_num().get_si(), q.get_den().get_si()));
    for (auto &q : VALS)
        VALF.push_back(real_double(q.get_d()));
    X = symbol("x");
    Y = symbol("y");
    RCP<const Set> iv01 = interval(integer(0), integer(1), false, false);
    RCP<const Set> fs012 = finiteset({integer(0), integer(1), integer(2)});
    std::vector<std::pair<std::string, RCP<const Basic>>> leaves = {
        {"x<0", Lt(X, integer(0))},
        {"x<=0", Le(X, integer(0))},
        {"1<x", Lt(integer(1), X)},
        {"Eq(x,0)", Eq(X, integer(0))},
        {"Ne(x,1)", Ne(X, integer(1))},
        {"y<x", Lt(Y, X)},
        {"Contains(x,[0,1])", contains(X, iv01)},
        {"Contains(x,{0,1,2})", contains(X, fs012)},
        {"True", boolTrue},
        {"False", boolFalse}};
    if (thorough) {
        leaves.push_back({"Contains(y,{0,3})", contains(Y, finiteset({integer(0), integer(3)}))});
        leaves.push_back({"x<=y", Le(X, Y)});
        leaves.push_back({"Contains(x,{1/2,3})", contains(X, finiteset({Rational::from_two_ints(1, 2), integer(3)}))});
    }
    for (auto &l : leaves)
        SS.add(l.second, l.first, 0);
    auto sync = [&]() {
        while (TB.size() < SS.size())
            TB.push_back(table_of(*SS.S[TB.size()].e));
    };
    sync();
    const long long n0 = SS.size();
    for (long long i = 0; i < n0; i++)
        if (TB[i].und) {
            fprintf(stderr, "leaf %s has an undecided table\n", SS.S[i].recipe.c_str());
            return 2;
        }

    // generic n-ary case set over a state range [0,n): NOT, binary, ternary (ternary optional), piecewise optional
    struct Dec {
        int kind; // 0 not, 1 nary op, 2 piecewise
        int op;
        std::vector<int> ix;
    };
    auto make_layer = [&](const std::string &name, long long nfirst, bool with_unary_binary, long long nsecond, long long nthird,
                          bool with_pw, long long skip_below) {
        // index layout: [NOT: n] [bin: n*n*NOPS] [tern: nfirst*nsecond*nthird*NOPS] [pw2: n*n] [pw3: nfirst*nsecond*nthird]
        // (n = nfirst when with_unary_binary, else 0)
        CaseSet *cs = new CaseSet;
        long long n = with_unary_binary ? nfirst : 0;
        long long nb = n * n * NOPS, nt = nfirst * nsecond * nthird * NOPS, np2 = with_pw ? n * n : 0,
                  np3 = with_pw ? nfirst * nsecond * nthird : 0;
        cs->name = name;
        cs->n = n + nb + nt + np2 + np3;
        cs->counter_names = CN;
        auto dec = [=](long long i) {
            Dec d;
            if (i < n) {
                d.kind = 0;
                d.ix = {(int)i};
                return d;
            }
            i -= n;
            if (i < nb) {
                d.kind = 1;
                d.op = i % NOPS;
                i /= NOPS;
                d.ix = {(int)(i / n), (int)(i % n)};
                return d;
            }
            i -= nb;
            if (i < nt) {
                d.kind = 1;
                d.op = i % NOPS;
                i /= NOPS;
                d.ix = {(int)(i / nthird / nsecond), (int)((i / nthird) % nsecond), (int)(i % nthird)};
                return d;
            }
            i -= nt;
            d.kind = 2;
            if (i < np2) {
                d.ix = {(int)(i / n), (int)(i % n)};
                return d;
            }
            i -= np2;
            d.ix = {(int)(i / nthird / nsecond), (int)((i / nthird) % nsecond), (int)(i % nthird)};
            return d;
        };
        cs->desc = [=](long long i) {
            Dec d = dec(i);
            return recipe_of(d.kind == 0 ? "logical_not" : d.kind == 1 ? OPN[d.op] : "piecewise", d.ix);
        };
        cs->body = [=](long long i, Ctx &c) {
            Dec d = dec(i);
            bool fresh = false;
            for (int k : d.ix)
                if (k >= skip_below)
                    fresh = true;
            if (!fresh)
                return; // covered by an earlier layer
            if (d.kind == 0)
                check_not(c, d.ix[0]);
            else if (d.kind == 1) {
                if (is_setop(d.op) && !std::is_sorted(d.ix.begin(), d.ix.end())) {
                    c.count(K_SKIPPED_NONCANON); // the argument is a std::set: one representative per multiset
                    return;
                }
                check_nary(c, d.op, d.ix);
            } else
                check_piecewise(c, d.ix);
        };
        return std::make_pair(cs, dec);
    };

    // ---- layer 1: everything over the atoms (NOT, 2 and 3 operands, piecewise with 2 and 3 pieces)
    auto L1 = make_layer("L1:ops(S0)", n0, true, n0, n0, true, 0);
    {
        // replaying a case of a later case set needs the same S1: run L1 for real then
        long long keep = opts().only_index;
        bool later = replaying() && opts().only_check != L1.first->name;
        if (later)
            opts().only_index = -1;
        run_cases(*L1.first);
        if (later)
            opts().only_index = keep;
        else if (replaying())
            return R.finish();
    }
    // S1a: results of NOT and binary ops; S1b: results of ternary ops
    auto harvest = [&](CaseSet &cs, const std::function<Dec(long long)> &dec, int depth, int arity) {
        for (long long i = 0; i < cs.n; i++) {
            if (cs.bad.count(i))
                continue;
            Dec d = dec(i);
            if (d.kind == 2 || (int)d.ix.size() != arity)
                continue;
            if (d.kind == 1 && is_setop(d.op) && !std::is_sorted(d.ix.begin(), d.ix.end()))
                continue;
            try {
                RCP<const Basic> r;
                if (d.kind == 0)
                    r = logical_not(B_(SS.S[d.ix[0]].e));
                else {
                    std::vector<RCP<const Basic>> a;
                    for (int k : d.ix)
                        a.push_back(SS.S[k].e);
                    r = apply_op(d.op, a);
                }
                SS.add(r, cs.desc(i), depth);
            } catch (std::exception &) {
            }
        }
    };
    harvest(*L1.first, L1.second, 1, 1);
    harvest(*L1.first, L1.second, 1, 2);
    const long long n1a = SS.size();
    harvest(*L1.first, L1.second, 1, 3);
    const long long n1 = SS.size();
    sync();
    R.counters["states_S0(atoms)"] = n0;
    R.counters["states_S1a(not+binary)"] = n1a;
    R.counters["states_S1(all)"] = n1;
    std::string bound = "NOT, all 6 connectives with 2 and 3 operands, piecewise with 2 and 3 pieces over the " + std::to_string(n0) + " atoms";

    // ---- subs evaluation of every state at every assignment
    CaseSet sc;
    sc.name = "SUBS(S1)";
    sc.n = n1;
    sc.counter_names = CN;
    sc.desc = [&](long long i) { return "subs of all assignments into " + SS.S[i].recipe; };
    sc.body = [&](long long i, Ctx &c) { check_subs(c, i); };
    if (!past_deadline()) {
        run_cases(sc);
        bound += "; subs of all " + std::to_string(NPT) + " assignments into the " + std::to_string(n1) + " states of S1";
    }

    // ---- layer 2: NOT, all binary connectives and 2-piece piecewise over S1a
    auto L2 = make_layer("L2:ops(S1a)", n1a, true, 0, 0, true, n0);
    if (!past_deadline()) {
        run_cases(*L2.first);
        bound += "; NOT, all binary connectives and 2-piece piecewise over the " + std::to_string(n1a)
                 + " states of S1a (results of NOT and binary connectives on atoms)";
    }
    if (thorough && !past_deadline()) {
        // ---- layer 3: 3-operand connectives and 3-piece piecewise: first in S1a, second among the first 80 states, third an atom
        long long nsec = std::min<long long>(n1a, 80);
        auto L3 = make_layer("L3:ternary(S1a,S1a',S0)", n1a, false, nsec, n0, true, n0);
        run_cases(*L3.first);
        bound += "; 3-operand connectives and 3-piece piecewise with operands in S1a x (first " + std::to_string(nsec) + " states) x atoms";
        // ---- layer 4: binary connectives between the ternary results (S1 \ S1a) and everything in S1a, both orders
        if (!past_deadline()) {
            CaseSet l4;
            l4.name = "L4:binary(S1b,S1a)";
            const long long nbq = n1 - n1a;
            l4.n = nbq * n1a * 2 * NOPS;
            l4.counter_names = CN;
            auto dec4 = [=](long long i, int &op, std::vector<int> &ix) {
                op = i % NOPS;
                i /= NOPS;
                int dir = i % 2;
                i /= 2;
                int a = n1a + i / n1a, b = i % n1a;
                ix = dir ? std::vector<int>{b, a} : std::vector<int>{a, b};
            };
            l4.desc = [&](long long i) {
                int op;
                std::vector<int> ix;
                dec4(i, op, ix);
                return recipe_of(OPN[op], ix);
            };
            l4.body = [&](long long i, Ctx &c) {
                int op;
                std::vector<int> ix;
                dec4(i, op, ix);
                if (is_setop(op) && !std::is_sorted(ix.begin(), ix.end())) {
                    c.count(K_SKIPPED_NONCANON);
                    return;
                }
                check_nary(c, op, ix);
            };
            run_cases(l4);
            bound += "; binary connectives between the " + std::to_string(nbq) + " results of 3-operand connectives and S1a, both orders";
        }
    }
    R.states = SS.size();
    R.transitions = R.evaluations;
    R.bound_completed = bound;
    R.rule = "E1: atoms x<0, x<=0, 1<x, Eq(x,0), Ne(x,1), y<x, Contains(x,[0,1]), Contains(x,{0,1,2}), True, False (+3 thorough); ops "
             "logical_not/and/or/nand/nor/xor/xnor (2-3 operands; and/or/nand/nor take a std::set so one representative per multiset), "
             "piecewise (values 10,20,30); each result tree is interpreted by the driver's own evaluator at all (x,y) in "
             "{-1,0,1/2,1,2,3}^2 and compared with the connective's truth function applied to the operand tables (states are "
             "de-duplicated results of non-violating transitions); subs() of every assignment into every state must give the same "
             "BooleanAtom. distinct_nontrivial = transitions whose result is not the connective's plain node over its operands";
    R.assumptions = {"trusted: the driver's formula/set interpreter over GMP rationals", "assignments outside the 6x6 grid are not covered",
                     "x and y range over rationals only (no complex, NaN or infinite assignments)"};
    return R.finish();
}
