// C44  Alternative printers are total and well-formed -- E1 over each printer's fragment (DESIGN 5 C44)
//
// States: every expression reachable with <= n constructor applications over a sorted alphabet
// (expressions, booleans, sets).  On every state the five printers latex / mathml / unicode /
// julia_str / sbml are run; each must return (a SymEngineException is a refusal, allowed only for
// MathML on expressions containing a node type outside its bvisit list); the output is checked by
// small independent well-formedness checkers written here (XML, TeX groups and delimiters, UTF-8
// boxes, bracket balance) and, on the SBML fragment, by the parse_sbml round trip.
#include "common.h"
#include "key.h"
#include "explore.h"
#include <symengine/printers/unicode.h>
#include <symengine/printers/stringbox.h>
using namespace verif;
typedef RCP<const Basic> B;

enum Sort { EX, BO, ST };
struct Con {
    std::string name;
    std::vector<Sort> in;
    Sort out;
    std::function<B(const std::vector<B> &)> mk;
    bool reduced;
};
static std::vector<Con> CONS;
struct St {
    B e;
    std::string recipe;
    Sort sort;
    int size;
    bool reduced;
};
static std::vector<St> S;
static std::unordered_map<std::string, int> IDX;
static std::vector<int> BY[4][3][2]; // [size][sort][reduced-only?] -> state indices

static bool add_state(const B &e, const std::string &recipe, Sort sort, int size, bool reduced)
{
    std::string k = key(*e);
    auto it = IDX.find(k);
    if (it != IDX.end()) {
        // a state first reached through the full alphabet may also be reachable through the reduced one
        St &s = S[it->second];
        if (reduced && !s.reduced && s.size == size) {
            s.reduced = true;
            BY[size][s.sort][1].push_back(it->second);
        }
        return false;
    }
    int id = S.size();
    S.push_back(St{e, recipe, sort, size, reduced});
    IDX[k] = id;
    BY[size][sort][0].push_back(id);
    if (reduced)
        BY[size][sort][1].push_back(id);
    return true;
}

static RCP<const Boolean> asbool(const B &b)
{
    return rcp_static_cast<const Boolean>(b);
}
static RCP<const Set> asset(const B &b)
{
    return rcp_static_cast<const Set>(b);
}

static void build_alphabet()
{
    B x = symbol("x"), y = symbol("y");
    auto leaf = [&](const std::string &n, const B &e, Sort s, bool red) { add_state(e, n, s, 0, red); };
    // ---- leaves (one per printer branch: sign, kind, special names)
    leaf("x", x, EX, true);
    leaf("y", y, EX, true);
    leaf("2", integer(2), EX, true);
    leaf("-1", integer(-1), EX, true);
    leaf("1/2", Rational::from_two_ints(1, 2), EX, true);
    leaf("pi", pi, EX, true);
    leaf("0", integer(0), EX, false);
    leaf("1", integer(1), EX, false);
    leaf("-3", integer(-3), EX, false);
    leaf("10", integer(10), EX, false);
    leaf("-2/3", Rational::from_two_ints(-2, 3), EX, false);
    leaf("0.5", real_double(0.5), EX, false);
    leaf("-1.5", real_double(-1.5), EX, false);
    leaf("1e20", real_double(1e20), EX, false);
    leaf("I", I, EX, false);
    leaf("1+2*I", Complex::from_two_nums(*integer(1), *integer(2)), EX, false);
    leaf("-1/2*I", Complex::from_two_nums(*integer(0), *Rational::from_two_ints(-1, 2)), EX, false);
    leaf("1.0+2.0i", complex_double(std::complex<double>(1.0, 2.0)), EX, false);
    leaf("1.0-2.0i", complex_double(std::complex<double>(1.0, -2.0)), EX, false);
    leaf("alpha", symbol("alpha"), EX, false);
    leaf("x_1", symbol("x_1"), EX, false);
    leaf("x_ab", symbol("x_ab"), EX, false);
    leaf("a&b<c", symbol("a&b<c"), EX, false);
    leaf("E", E, EX, false);
    leaf("EulerGamma", EulerGamma, EX, false);
    leaf("Catalan", Catalan, EX, false);
    leaf("GoldenRatio", GoldenRatio, EX, false);
    leaf("oo", Inf, EX, false);
    leaf("-oo", NegInf, EX, false);
    leaf("zoo", ComplexInf, EX, false);
    leaf("nan", Nan, EX, false);
    leaf("True", boolTrue, BO, true);
    leaf("False", boolFalse, BO, false);
    leaf("Reals", reals(), ST, true);
    leaf("EmptySet", emptyset(), ST, false);
    leaf("UniversalSet", universalset(), ST, false);
    leaf("Rationals", rationals(), ST, false);
    leaf("Integers", integers(), ST, true);
    leaf("Complexes", complexes(), ST, false);
    leaf("Naturals", naturals(), ST, false);
    leaf("Naturals0", naturals0(), ST, false);

    auto U = [&](const std::string &n, B (*f)(const B &), bool red) {
        CONS.push_back(Con{n, {EX}, EX, [f](const std::vector<B> &a) { return f(a[0]); }, red});
    };
    auto B2 = [&](const std::string &n, B (*f)(const B &, const B &), bool red) {
        CONS.push_back(Con{n, {EX, EX}, EX, [f](const std::vector<B> &a) { return f(a[0], a[1]); }, red});
    };
    auto G = [&](const std::string &n, std::vector<Sort> in, Sort out, std::function<B(const std::vector<B> &)> mk, bool red = false) {
        CONS.push_back(Con{n, in, out, mk, red});
    };
    // ---- unary expression constructors
    U("neg", neg, true);
    U("sqrt", sqrt, true);
    U("sin", sin, true);
    U("exp", exp, true);
    U("abs", abs, true);
    U("log", log, false);
    U("cos", cos, false);
    U("tan", tan, false);
    U("cot", cot, false);
    U("csc", csc, false);
    U("sec", sec, false);
    U("asin", asin, false);
    U("acos", acos, false);
    U("atan", atan, false);
    U("acot", acot, false);
    U("acsc", acsc, false);
    U("asec", asec, false);
    U("sinh", sinh, false);
    U("cosh", cosh, false);
    U("tanh", tanh, false);
    U("coth", coth, false);
    U("csch", csch, false);
    U("sech", sech, false);
    U("asinh", asinh, false);
    U("acosh", acosh, false);
    U("atanh", atanh, false);
    U("acoth", acoth, false);
    U("acsch", acsch, false);
    U("asech", asech, false);
    U("floor", floor, false);
    U("ceiling", ceiling, false);
    U("truncate", truncate, false);
    U("sign", sign, false);
    U("conjugate", conjugate, false);
    U("gamma", gamma, false);
    U("loggamma", loggamma, false);
    U("erf", erf, false);
    U("erfc", erfc, false);
    U("lambertw", lambertw, false);
    U("zeta", zeta, false);
    U("dirichlet_eta", dirichlet_eta, false);
    U("digamma", digamma, false);
    U("cbrt", cbrt, false);
    U("unevaluated_expr", unevaluated_expr, false);
    G("inv", {EX}, EX, [](const std::vector<B> &a) { return div(integer(1), a[0]); }, true);
    G("square", {EX}, EX, [](const std::vector<B> &a) { return pow(a[0], integer(2)); }, false);
    G("f(.)", {EX}, EX, [](const std::vector<B> &a) { return function_symbol("f", a[0]); }, true);
    // user function names with upper-case letters / digits / underscores: printers emit names verbatim, the SBML parser looks
    // built-ins up case-insensitively (added after seeded change C44 -- lower-cased user function names -- escaped)
    G("Hill(.)", {EX}, EX, [](const std::vector<B> &a) { return function_symbol("Hill", a[0]); }, true);
    G("rateLaw_1(.,.)", {EX, EX}, EX, [](const std::vector<B> &a) { return function_symbol("rateLaw_1", {a[0], a[1]}); });
    G("F(.)", {EX}, EX, [](const std::vector<B> &a) { return function_symbol("F", a[0]); }, true);
    G("d/dx g(.,y)", {EX}, EX, [x, y](const std::vector<B> &a) { return function_symbol("g", {a[0], y})->diff(rcp_static_cast<const Symbol>(x)); }, false);
    G("d2/dxdy g(x,y,.)", {EX}, EX,
      [x, y](const std::vector<B> &a) { return function_symbol("g", {x, y, a[0]})->diff(rcp_static_cast<const Symbol>(x))->diff(rcp_static_cast<const Symbol>(y)); }, false);
    G("tuple1", {EX}, EX, [](const std::vector<B> &a) { return tuple({a[0]}); });
    // ---- binary expression constructors
    B2("add", add, true);
    B2("mul", mul, true);
    B2("pow", pow, true);
    B2("div", div, false);
    B2("sub", sub, false);
    B2("atan2", atan2, false);
    B2("beta", beta, false);
    B2("lowergamma", lowergamma, false);
    B2("uppergamma", uppergamma, false);
    B2("polygamma", polygamma, false);
    B2("kronecker_delta", kronecker_delta, false);
    B2("log2", log, false);
    G("max", {EX, EX}, EX, [](const std::vector<B> &a) { return max({a[0], a[1]}); });
    G("min", {EX, EX}, EX, [](const std::vector<B> &a) { return min({a[0], a[1]}); });
    G("levi_civita", {EX, EX}, EX, [](const std::vector<B> &a) { return levi_civita({a[0], a[1]}); });
    G("h(.,.)", {EX, EX}, EX, [](const std::vector<B> &a) { return function_symbol("h", {a[0], a[1]}); });
    G("tuple2", {EX, EX}, EX, [](const std::vector<B> &a) { return tuple({a[0], a[1]}); });
    // ---- booleans
    G("Eq", {EX, EX}, BO, [](const std::vector<B> &a) { return Eq(a[0], a[1]); });
    G("Ne", {EX, EX}, BO, [](const std::vector<B> &a) { return Ne(a[0], a[1]); });
    G("Lt", {EX, EX}, BO, [](const std::vector<B> &a) { return Lt(a[0], a[1]); }, true);
    G("Le", {EX, EX}, BO, [](const std::vector<B> &a) { return Le(a[0], a[1]); });
    G("Not", {BO}, BO, [](const std::vector<B> &a) { return logical_not(asbool(a[0])); }, true);
    G("And", {BO, BO}, BO, [](const std::vector<B> &a) { return logical_and({asbool(a[0]), asbool(a[1])}); }, true);
    G("Or", {BO, BO}, BO, [](const std::vector<B> &a) { return logical_or({asbool(a[0]), asbool(a[1])}); });
    G("Xor", {BO, BO}, BO, [](const std::vector<B> &a) { return logical_xor({asbool(a[0]), asbool(a[1])}); });
    G("Contains", {EX, ST}, BO, [](const std::vector<B> &a) { return contains(a[0], asset(a[1])); });
    // ---- sets
    for (int lo = 0; lo < 2; lo++)
        for (int ro = 0; ro < 2; ro++)
            G("interval" + std::to_string(lo) + std::to_string(ro), {EX, EX}, ST,
              [lo, ro](const std::vector<B> &a) -> B {
                  if (!is_a_Number(*a[0]) || !is_a_Number(*a[1]))
                      throw NotImplementedError("interval of non-numbers");
                  return interval(rcp_static_cast<const Number>(a[0]), rcp_static_cast<const Number>(a[1]), lo, ro);
              },
              lo == 0 && ro == 1);
    G("finiteset1", {EX}, ST, [](const std::vector<B> &a) { return finiteset({a[0]}); });
    G("finiteset2", {EX, EX}, ST, [](const std::vector<B> &a) { return finiteset({a[0], a[1]}); }, true);
    G("union", {ST, ST}, ST, [](const std::vector<B> &a) { return set_union({asset(a[0]), asset(a[1])}); }, true);
    G("intersection", {ST, ST}, ST, [](const std::vector<B> &a) { return set_intersection({asset(a[0]), asset(a[1])}); });
    G("complement", {ST, ST}, ST, [](const std::vector<B> &a) { return set_complement(asset(a[0]), asset(a[1])); });
    G("conditionset(x,.)", {BO}, ST, [x](const std::vector<B> &a) { return conditionset(x, asbool(a[0])); });
    G("imageset(x,.,.)", {EX, ST}, ST, [x](const std::vector<B> &a) { return imageset(x, a[0], asset(a[1])); });
    // ---- mixed
    G("piecewise(.,.;.)", {EX, BO, EX}, EX, [](const std::vector<B> &a) { return piecewise({{a[0], asbool(a[1])}, {a[2], boolTrue}}); });
    G("piecewise(.,.)", {EX, BO}, EX, [](const std::vector<B> &a) { return piecewise({{a[0], asbool(a[1])}}); });
}

// ---------------------------------------------------------------- enumeration plans (as in C42)
struct Plan {
    int con;
    std::vector<const std::vector<int> *> cand;
    long long n, base;
};
struct Layer {
    std::vector<Plan> plans;
    long long total = 0;
    void add(Plan p)
    {
        p.n = 1;
        for (auto c : p.cand)
            p.n *= (long long)c->size();
        p.base = total;
        if (p.n > 0) {
            total += p.n;
            plans.push_back(p);
        }
    }
    const Plan &decode(long long i, std::vector<int> &args) const
    {
        size_t lo = 0, hi = plans.size();
        while (hi - lo > 1) {
            size_t mid = (lo + hi) / 2;
            if (plans[mid].base <= i)
                lo = mid;
            else
                hi = mid;
        }
        const Plan &p = plans[lo];
        long long j = i - p.base;
        args.assign(p.cand.size(), 0);
        for (int k = (int)p.cand.size() - 1; k >= 0; k--) {
            args[k] = (*p.cand[k])[j % (long long)p.cand[k]->size()];
            j /= (long long)p.cand[k]->size();
        }
        return p;
    }
};
// all plans producing states of exactly `size` constructor applications.
// outer_reduced: outer constructor restricted to the reduced menu; inner_reduced: arguments restricted to reduced states
static Layer make_layer(int size, bool outer_reduced, bool inner_reduced)
{
    Layer L;
    for (size_t c = 0; c < CONS.size(); c++) {
        const Con &cn = CONS[c];
        if (outer_reduced && !cn.reduced)
            continue;
        int k = cn.in.size();
        // compositions of size-1 into k non-negative parts
        std::vector<int> part(k, 0);
        std::function<void(int, int)> rec = [&](int pos, int left) {
            if (pos == k - 1) {
                part[pos] = left;
                Plan p;
                p.con = (int)c;
                for (int q = 0; q < k; q++)
                    p.cand.push_back(&BY[part[q]][cn.in[q]][inner_reduced ? 1 : 0]);
                L.add(p);
                return;
            }
            for (int v = 0; v <= left; v++) {
                part[pos] = v;
                rec(pos + 1, left - v);
            }
        };
        rec(0, size - 1);
    }
    return L;
}
static std::string recipe_of(const Layer &L, long long i)
{
    std::vector<int> a;
    const Plan &p = L.decode(i, a);
    std::string o = CONS[p.con].name + "(";
    for (size_t k = 0; k < a.size(); k++)
        o += (k ? ", " : "") + S[a[k]].recipe;
    return o + ")";
}

// ---------------------------------------------------------------- independent well-formedness checkers
static bool utf8_ok(const std::string &s, size_t *ncp = nullptr)
{
    size_t n = 0;
    for (size_t i = 0; i < s.size();) {
        unsigned char c = s[i];
        int len = c < 0x80 ? 1 : (c >> 5) == 6 ? 2 : (c >> 4) == 14 ? 3 : (c >> 3) == 30 ? 4 : 0;
        if (!len || i + len > s.size())
            return false;
        for (int k = 1; k < len; k++)
            if (((unsigned char)s[i + k] >> 6) != 2)
                return false;
        i += len;
        n++;
    }
    if (ncp)
        *ncp = n;
    return true;
}
// XML: exactly one root element, tags nest, names legal, attributes quoted, text without '<' and with legal entities only
static std::string xml_check(const std::string &s)
{
    std::vector<std::string> st;
    size_t i = 0, n = s.size();
    int roots = 0;
    auto isname0 = [](unsigned char c) { return isalpha(c) || c == '_' || c == ':' || c >= 0x80; };
    auto isname = [&](unsigned char c) { return isname0(c) || isdigit(c) || c == '-' || c == '.'; };
    if (!utf8_ok(s))
        return "invalid UTF-8";
    while (i < n) {
        if (s[i] == '<') {
            size_t j = i + 1;
            bool closing = false;
            if (j < n && s[j] == '/') {
                closing = true;
                j++;
            }
            if (j >= n || !isname0(s[j]))
                return "illegal tag name at offset " + std::to_string(i) + " '" + s.substr(i, 12) + "'";
            size_t k = j;
            while (k < n && isname(s[k]))
                k++;
            std::string name = s.substr(j, k - j);
            bool selfclose = false;
            // attributes
            while (true) {
                while (k < n && isspace((unsigned char)s[k]))
                    k++;
                if (k >= n)
                    return "unterminated tag <" + name;
                if (s[k] == '>') {
                    k++;
                    break;
                }
                if (s[k] == '/' && k + 1 < n && s[k + 1] == '>') {
                    selfclose = true;
                    k += 2;
                    break;
                }
                if (closing || !isname0(s[k]))
                    return "malformed tag <" + name + " at offset " + std::to_string(k);
                while (k < n && isname(s[k]))
                    k++;
                if (k >= n || s[k] != '=')
                    return "attribute without value in <" + name;
                k++;
                if (k >= n || (s[k] != '"' && s[k] != '\''))
                    return "unquoted attribute value in <" + name;
                char q = s[k++];
                while (k < n && s[k] != q) {
                    if (s[k] == '<')
                        return "'<' in attribute value of <" + name;
                    k++;
                }
                if (k >= n)
                    return "unterminated attribute value in <" + name;
                k++;
            }
            if (closing) {
                if (st.empty() || st.back() != name)
                    return "closing tag </" + name + "> does not match " + (st.empty() ? std::string("(nothing open)") : "<" + st.back() + ">");
                st.pop_back();
            } else {
                if (st.empty())
                    roots++;
                if (!selfclose)
                    st.push_back(name);
            }
            i = k;
        } else if (s[i] == '&') {
            size_t k = i + 1;
            if (k < n && s[k] == '#') {
                k++;
                size_t d = k;
                while (k < n && isalnum((unsigned char)s[k]))
                    k++;
                if (k == d)
                    return "malformed character reference";
            } else {
                size_t d = k;
                while (k < n && isname(s[k]))
                    k++;
                std::string ent = s.substr(d, k - d);
                if (ent != "amp" && ent != "lt" && ent != "gt" && ent != "quot" && ent != "apos")
                    return "bare '&' / undefined entity at offset " + std::to_string(i) + " '" + s.substr(i, 10) + "'";
            }
            if (k >= n || s[k] != ';')
                return "entity without ';' at offset " + std::to_string(i);
            if (st.empty())
                return "text outside the root element";
            i = k + 1;
        } else {
            if (st.empty() && !isspace((unsigned char)s[i]))
                return "text outside the root element at offset " + std::to_string(i);
            i++;
        }
    }
    if (!st.empty())
        return "unclosed element <" + st.back() + ">";
    if (roots != 1)
        return "document has " + std::to_string(roots) + " root elements";
    return "";
}
// TeX: groups balanced, \left/\right paired with a legal delimiter and properly nested with groups and environments,
// \begin/\end matched, no double super-/subscript
static std::string latex_check(const std::string &s)
{
    static const std::set<std::string> DELIMW = {"langle", "rangle", "lfloor", "rfloor", "lceil", "rceil", "vert", "Vert", "lvert", "rvert", "uparrow", "downarrow", "backslash"};
    std::vector<std::string> st;
    size_t i = 0, n = s.size();
    bool sup = false, sub = false; // scripts already attached to the current nucleus
    auto read_delim = [&](size_t &k) -> bool {
        while (k < n && s[k] == ' ')
            k++;
        if (k >= n)
            return false;
        if (strchr("()[]|./<>", s[k])) {
            k++;
            return true;
        }
        if (s[k] == '\\' && k + 1 < n) {
            if (strchr("{}|", s[k + 1])) {
                k += 2;
                return true;
            }
            size_t e = k + 1;
            while (e < n && isalpha((unsigned char)s[e]))
                e++;
            if (DELIMW.count(s.substr(k + 1, e - k - 1))) {
                k = e;
                return true;
            }
        }
        return false;
    };
    while (i < n) {
        char c = s[i];
        if (c == '\\') {
            if (i + 1 >= n)
                return "dangling backslash";
            if (isalpha((unsigned char)s[i + 1])) {
                size_t e = i + 1;
                while (e < n && isalpha((unsigned char)s[e]))
                    e++;
                std::string w = s.substr(i + 1, e - i - 1);
                i = e;
                if (w == "left" || w == "right") {
                    size_t k = i;
                    if (!read_delim(k))
                        return "\\" + w + " not followed by a delimiter: '" + s.substr(i, 8) + "'";
                    i = k;
                    if (w == "left")
                        st.push_back("\\left");
                    else {
                        if (st.empty() || st.back() != "\\left")
                            return "\\right without matching \\left (open: " + (st.empty() ? std::string("nothing") : st.back()) + ")";
                        st.pop_back();
                    }
                    sup = sub = false;
                    continue;
                }
                if (w == "begin" || w == "end") {
                    if (i >= n || s[i] != '{')
                        return "\\" + w + " without {environment}";
                    size_t e2 = s.find('}', i);
                    if (e2 == std::string::npos)
                        return "unterminated \\" + w;
                    std::string env = s.substr(i + 1, e2 - i - 1);
                    i = e2 + 1;
                    if (w == "begin")
                        st.push_back("env:" + env);
                    else {
                        if (st.empty() || st.back() != "env:" + env)
                            return "\\end{" + env + "} does not match " + (st.empty() ? std::string("nothing") : st.back());
                        st.pop_back();
                    }
                    sup = sub = false;
                    continue;
                }
                sup = sub = false;
                continue;
            }
            i += 2; // control symbol: \{ \} \\ \; \: \| ...
            sup = sub = false;
            continue;
        }
        if (c == '{') {
            st.push_back("{");
            sup = sub = false;
            i++;
            continue;
        }
        if (c == '}') {
            if (st.empty() || st.back() != "{")
                return "'}' closes " + (st.empty() ? std::string("nothing") : st.back());
            st.pop_back();
            i++;
            // a closed group after ^/_ is the script argument: keep flags; otherwise it is a new nucleus
            continue;
        }
        if (c == '^' || c == '_') {
            bool &f = c == '^' ? sup : sub;
            if (f)
                return std::string("double ") + (c == '^' ? "superscript" : "subscript") + " at offset " + std::to_string(i);
            size_t k = i + 1;
            while (k < n && s[k] == ' ')
                k++;
            if (k >= n || s[k] == '}' || s[k] == '^' || s[k] == '_' || s[k] == '&')
                return std::string("'") + c + "' without an argument at offset " + std::to_string(i);
            f = true;
            // consume the argument: a group or a single token
            if (s[k] == '{') {
                int d = 0;
                size_t e = k;
                std::vector<std::string> inner;
                for (; e < n; e++) {
                    if (s[e] == '\\') {
                        e++;
                        continue;
                    }
                    if (s[e] == '{')
                        d++;
                    if (s[e] == '}' && --d == 0)
                        break;
                }
                if (e >= n)
                    return "unterminated script group";
                std::string r = latex_check(s.substr(k + 1, e - k - 1));
                if (!r.empty())
                    return r + " (inside script group)";
                i = e + 1;
            } else if (s[k] == '\\') {
                size_t e = k + 1;
                if (e < n && isalpha((unsigned char)s[e])) {
                    while (e < n && isalpha((unsigned char)s[e]))
                        e++;
                    std::string w = s.substr(k + 1, e - k - 1);
                    if (w == "left" || w == "right" || w == "frac" || w == "sqrt" || w == "begin" || w == "operatorname")
                        return "script argument is the unbraced macro \\" + w;
                } else
                    e = k + 2;
                i = e;
            } else
                i = k + 1;
            continue;
        }
        if (c != ' ')
            sup = sub = false;
        i++;
    }
    if (!st.empty())
        return "unclosed " + st.back();
    return "";
}
static std::string bracket_check(const std::string &s)
{
    std::vector<char> st;
    for (char c : s) {
        if (c == '(' || c == '[' || c == '{')
            st.push_back(c);
        else if (c == ')' || c == ']' || c == '}') {
            char o = c == ')' ? '(' : c == ']' ? '[' : '{';
            if (st.empty() || st.back() != o)
                return std::string("unbalanced '") + c + "'";
            st.pop_back();
        }
    }
    if (!st.empty())
        return std::string("unclosed '") + st.back() + "'";
    if (s.empty())
        return "empty output";
    return "";
}
static std::string unicode_check(const std::string &s)
{
    if (s.empty())
        return "empty output";
    size_t w0 = 0;
    size_t start = 0;
    int line = 0;
    while (start <= s.size()) {
        size_t e = s.find('\n', start);
        if (e == std::string::npos)
            e = s.size();
        size_t w;
        if (!utf8_ok(s.substr(start, e - start), &w))
            return "invalid UTF-8 on line " + std::to_string(line);
        if (line == 0)
            w0 = w;
        else if (w != w0)
            return "line " + std::to_string(line) + " has display width " + std::to_string(w) + " but line 0 has " + std::to_string(w0);
        line++;
        if (e == s.size())
            break;
        start = e + 1;
    }
    return "";
}

// ---------------------------------------------------------------- fragments
static bool mathml_supported_node(const Basic &e)
{
#define ISA(T) (dynamic_cast<const T *>(&e) != nullptr)
    return ISA(Symbol) || ISA(Integer) || ISA(Rational) || ISA(ComplexBase) || ISA(Interval) || ISA(Piecewise) || ISA(EmptySet) || ISA(Complexes) || ISA(Reals)
           || ISA(Rationals) || ISA(Integers) || ISA(FiniteSet) || ISA(ConditionSet) || ISA(Contains) || ISA(BooleanAtom) || ISA(And) || ISA(Or) || ISA(Xor) || ISA(Not)
           || ISA(Union) || ISA(Complement) || ISA(ImageSet) || ISA(Add) || ISA(Mul) || ISA(Pow) || ISA(Constant) || ISA(Function) || ISA(Derivative)
           || ISA(UnevaluatedExpr) || ISA(RealDouble) || ISA(Equality) || ISA(Unequality) || ISA(LessThan) || ISA(StrictLessThan);
}
static bool all_nodes(const Basic &e, bool (*pred)(const Basic &))
{
    if (!pred(e))
        return false;
    for (auto &a : e.get_args())
        if (!all_nodes(*a, pred))
            return false;
    return true;
}
// SBML (L3 infix) fragment: what the SBML printer has a dedicated spelling for and the SBML parser reads back
static bool sbml_node(const Basic &e)
{
    if (ISA(Integer) || ISA(Rational) || ISA(Add) || ISA(Mul) || ISA(Pow) || ISA(BooleanAtom) || ISA(And) || ISA(Or) || ISA(Xor) || ISA(Not) || ISA(Equality)
        || ISA(Unequality) || ISA(LessThan) || ISA(StrictLessThan) || ISA(Piecewise) || ISA(Infty) || ISA(NaN) || ISA(Max) || ISA(Min) || ISA(FunctionSymbol))
        return true;
    if (ISA(RealDouble))
        return true; // leaves are short decimals
    if (ISA(Symbol)) {
        std::string n = down_cast<const Symbol &>(e).get_name();
        for (char c : n)
            if (!isalnum((unsigned char)c) && c != '_')
                return false;
        return true;
    }
    if (ISA(Constant))
        return eq(e, *pi) || eq(e, *E);
    if (ISA(Infty))
        return !down_cast<const Infty &>(e).is_unsigned_infinity();
    static const std::set<int> FN = {SYMENGINE_SIN,   SYMENGINE_COS,   SYMENGINE_TAN,   SYMENGINE_COT,   SYMENGINE_CSC,   SYMENGINE_SEC,   SYMENGINE_ASIN,  SYMENGINE_ACOS,
                                     SYMENGINE_ATAN,  SYMENGINE_ASEC,  SYMENGINE_ACSC,  SYMENGINE_ACOT,  SYMENGINE_SINH,  SYMENGINE_COSH,  SYMENGINE_TANH,  SYMENGINE_COTH,
                                     SYMENGINE_SECH,  SYMENGINE_CSCH,  SYMENGINE_ASINH, SYMENGINE_ACOSH, SYMENGINE_ATANH, SYMENGINE_ASECH, SYMENGINE_ACOTH, SYMENGINE_ACSCH,
                                     SYMENGINE_ABS,   SYMENGINE_FLOOR, SYMENGINE_CEILING, SYMENGINE_LOG, SYMENGINE_GAMMA};
    return FN.count(e.get_type_code()) > 0;
#undef ISA
}
static bool sbml_fragment(const Basic &e)
{
    if (dynamic_cast<const Infty *>(&e) && down_cast<const Infty &>(e).is_unsigned_infinity())
        return false;
    if (!sbml_node(e))
        return false;
    for (auto &a : e.get_args())
        if (!sbml_fragment(*a))
            return false;
    return true;
}

enum { K_STATES, K_CONS_REFUSED, K_PRINTS, K_MATHML_REFUSAL_OK, K_SBML_ROUNDTRIP, K_SBML_OUTSIDE, K_MATHML_CHECKED, K_LATEX_CHECKED, K_UNICODE_CHECKED, K_JULIA_CHECKED, K_SBML_CHECKED, K_SBML_UNSTABLE };
static std::vector<std::string> CN = {"expressions_printed", "constructor_refused(exception)", "printer_calls", "mathml_refusals_on_unsupported_types(allowed)",
                                      "sbml_round_trips_checked", "sbml_outside_fragment(not_round_tripped)", "mathml_outputs_parsed", "latex_outputs_checked",
                                      "unicode_outputs_checked", "julia_outputs_checked", "sbml_outputs_checked", "sbml_round_trip_skipped(term_not_stable_under_reconstruction)"};

// classify a checker message into a defect class (used in signatures)
static std::string errclass(const std::string &m)
{
    static const std::vector<std::pair<std::string, std::string>> T = {
        {"bare '&'", "unescaped-ampersand"}, {"illegal tag name", "unescaped-lt-or-bad-tag"}, {"closing tag", "tag-mismatch"}, {"unclosed element", "unclosed-element"},
        {"document has", "root-count"}, {"text outside", "text-outside-root"}, {"invalid UTF-8", "invalid-utf8"}, {"\\left not followed", "illegal-delimiter"},
        {"\\right not followed", "illegal-delimiter"}, {"\\right without", "left-right-mismatch"}, {"double ", "double-script"}, {"unclosed ", "unclosed-group"},
        {"'}' closes", "group-mismatch"}, {"line ", "line-width"}, {"unbalanced", "unbalanced-bracket"}, {"empty output", "empty"}, {"\\end{", "environment-mismatch"}};
    for (auto &t : T)
        if (m.find(t.first) != std::string::npos)
            return t.second;
    return "other";
}
static bool has_node(const Basic &e, bool (*pred)(const Basic &))
{
    if (pred(e))
        return true;
    for (auto &a : e.get_args())
        if (has_node(*a, pred))
            return true;
    return false;
}
static bool short_double(double d)
{
    if (!std::isfinite(d))
        return false;
    char b[64];
    snprintf(b, sizeof b, "%.15g", d);
    return strtod(b, nullptr) == d;
}
static bool sbml_doubles_ok(const Basic &e)
{
    if (is_a<RealDouble>(e))
        return short_double(down_cast<const RealDouble &>(e).i);
    for (auto &a : e.get_args())
        if (!sbml_doubles_ok(*a))
            return false;
    return true;
}
static bool stable(const B &e);
static const char *PRN[] = {"latex", "mathml", "unicode", "julia", "sbml", "sbml-roundtrip"};
struct Fail {
    std::string cls, msg, out; // cls empty: fine; "refusal-allowed"; otherwise a defect class
};
// run printer p (5 = SBML round trip) on e and judge the output
static Fail judge(int p, const B &e)
{
    Fail f;
    try {
        switch (p) {
            case 0:
                f.out = latex(*e);
                break;
            case 1:
                f.out = mathml(*e);
                break;
            case 2:
                f.out = unicode(*e);
                break;
            case 3:
                f.out = julia_str(*e);
                break;
            default:
                f.out = sbml(*e);
        }
    } catch (SymEngineException &x) {
        if (p == 1 && !all_nodes(*e, mathml_supported_node)) {
            f.cls = "refusal-allowed";
            return f;
        }
        f.cls = "refuses";
        f.msg = std::string("throws '") + x.what() + "' although every node type is in the printer's supported list";
        return f;
    } catch (std::exception &x) {
        f.cls = "std-exception";
        f.msg = std::string("throws non-library exception ") + x.what();
        return f;
    }
    std::string err;
    bool has_interval = has_node(*e, [](const Basic &b) { return is_a<Interval>(b); });
    switch (p) {
        case 0:
            err = latex_check(f.out);
            break;
        case 1:
            err = xml_check(f.out);
            break;
        case 2:
            err = unicode_check(f.out);
            break;
        case 3:
        case 4:
            err = has_interval ? (f.out.empty() ? "empty output" : "") : bracket_check(f.out); // "[a, b)" is legitimate
            break;
        default: {
            if (!sbml_fragment(*e) || !sbml_doubles_ok(*e)) {
                f.cls = "outside-fragment";
                return f;
            }
            if (!stable(e)) {
                f.cls = "unstable-term";
                return f;
            }
            try {
                B back = parse_sbml(f.out);
                if (key(*back) != key(*e) && !eq(*back, *e)) {
                    f.cls = "roundtrip";
                    f.msg = "parses back to " + sstr(back) + " [" + key(*back).substr(0, 150) + "], the expression is [" + key(*e).substr(0, 150) + "]";
                }
            } catch (std::exception &x) {
                f.cls = "roundtrip-parse-error";
                f.msg = std::string("does not parse: ") + x.what();
            }
            return f;
        }
    }
    if (!err.empty()) {
        f.cls = "ill-formed:" + errclass(err);
        f.msg = err;
    }
    return f;
}
// smallest sub-term that already shows the same failure (one defect -> one signature)
static B culprit(int p, const B &e, const std::string &cls)
{
    for (auto &a : e->get_args()) {
        Fail f = judge(p, a);
        if (f.cls == cls)
            return culprit(p, a, cls);
    }
    return e;
}
// known root causes get their own tag so that one defect gives one signature
static std::string tags(const Basic &e, const std::string &cls)
{
    if (cls == "ill-formed:line-width" && has_node(e, [](const Basic &b) { return is_a<Complex>(b) || is_a<ComplexDouble>(b); }))
        return "[Complex]";
    if (cls.rfind("roundtrip", 0) == 0 && has_node(e, [](const Basic &b) { return is_a<Infty>(b) && down_cast<const Infty &>(b).is_negative_infinity(); }))
        return "[NegInf]";
    if (cls.rfind("ill-formed:unescaped", 0) == 0 || cls == "ill-formed:tag-mismatch")
        if (has_node(e, [](const Basic &b) {
                if (!is_a<Symbol>(b))
                    return false;
                for (char c : down_cast<const Symbol &>(b).get_name())
                    if (!isalnum((unsigned char)c) && c != '_')
                        return true;
                return false;
            }))
            return "[special-name]";
    return "";
}
// a term is stable when rebuilding every node from its arguments gives the same node (C03's subject);
// unstable terms (e.g. 2 + ceiling(pi)) cannot round-trip through any parser
static bool stable(const B &e)
{
    vec_basic args = e->get_args();
    for (auto &a : args)
        if (!stable(a))
            return false;
    B r = e;
    try {
        if (is_a<Add>(*e))
            r = add(args);
        else if (is_a<Mul>(*e))
            r = mul(args);
        else if (is_a<Pow>(*e))
            r = pow(args[0], args[1]);
        else if (auto f1 = dynamic_cast<const OneArgFunction *>(e.get()))
            r = f1->create(args[0]);
        else if (auto f2 = dynamic_cast<const TwoArgFunction *>(e.get()))
            r = f2->create(args[0], args[1]);
        else if (auto fm = dynamic_cast<const MultiArgFunction *>(e.get()))
            r = fm->create(args);
    } catch (std::exception &) {
        return false;
    }
    return key(*r) == key(*e);
}

static void check_state(const B &e, const std::string &recipe, Ctx &c, bool sample)
{
    c.count(K_STATES);
    std::string top = type_code_name(e->get_type_code());
    if (e->get_args().size() > 0)
        c.nontrivial();
    std::string outs[6];
    static const int CHK[] = {K_LATEX_CHECKED, K_MATHML_CHECKED, K_UNICODE_CHECKED, K_JULIA_CHECKED, K_SBML_CHECKED, K_SBML_ROUNDTRIP};
    for (int p = 0; p < 6; p++) {
        c.eval();
        if (p < 5)
            c.count(K_PRINTS);
        Fail f = judge(p, e);
        outs[p] = f.out;
        if (f.cls.empty()) {
            c.count(CHK[p]);
            c.outcome(std::string(PRN[p]) + ":" + top);
            continue;
        }
        if (f.cls == "refusal-allowed") {
            c.count(K_MATHML_REFUSAL_OK);
            c.outcome("mathml-refusal:" + top);
            continue;
        }
        if (f.cls == "outside-fragment") {
            c.count(K_SBML_OUTSIDE);
            continue;
        }
        if (f.cls == "unstable-term") {
            c.count(K_SBML_UNSTABLE);
            continue;
        }
        B m = culprit(p, e, f.cls);
        c.outcome(std::string(PRN[p]) + ":" + f.cls);
        std::string tg = tags(*m, f.cls);
        c.violation(std::string(PRN[p]) + ":" + f.cls + ":" + (tg.empty() ? type_code_name(m->get_type_code()) : tg),
                    std::string(PRN[p]) + "(" + recipe + " = " + sstr(e) + ") = '" + f.out.substr(0, 300) + "'  -- " + f.msg
                        + (m.get() != e.get() ? "; smallest failing sub-term: " + sstr(m) : ""));
    }
    if (sample)
        c.sample("{\"expr\":" + jstr(recipe) + ",\"latex\":" + jstr(outs[0].substr(0, 80)) + ",\"mathml\":" + jstr(outs[1].substr(0, 80)) + ",\"sbml\":" + jstr(outs[4].substr(0, 60)) + "}");
}

static void run_layer(Layer &L, const std::string &name, std::set<long long> &bad)
{
    CaseSet cs;
    cs.name = name;
    cs.n = L.total;
    cs.hang_s = 60;
    cs.counter_names = CN;
    cs.desc = [&](long long i) { return recipe_of(L, i); };
    cs.crash_sig = [&](long long i, const std::string &oc) {
        std::vector<int> a;
        const Plan &p = L.decode(i, a);
        // does the constructor alone already crash?  (then it is not a printer defect)
        std::vector<B> args;
        for (int k : a)
            args.push_back(S[k].e);
        fflush(stdout);
        pid_t pid = fork();
        if (pid == 0) {
            alarm(20);
            try {
                CONS[p.con].mk(args);
            } catch (...) {
            }
            _exit(0);
        }
        int st = 0;
        waitpid(pid, &st, 0);
        bool cons = !(WIFEXITED(st) && WEXITSTATUS(st) == 0);
        return std::string(oc.find("hang") != std::string::npos ? "hang" : "crash") + (cons ? ":constructor " : ":printing ") + CONS[p.con].name;
    };
    cs.body = [&](long long i, Ctx &c) {
        std::vector<int> a;
        const Plan &p = L.decode(i, a);
        std::vector<B> args;
        for (int k : a)
            args.push_back(S[k].e);
        B e;
        try {
            e = CONS[p.con].mk(args);
        } catch (std::exception &) {
            c.count(K_CONS_REFUSED);
            return;
        }
        check_state(e, recipe_of(L, i), c, i % 7919 == 0);
    };
    run_cases(cs);
    bad = cs.bad;
}
// store the results of a finished layer as states (only transitions that ran safely)
static void absorb(const Layer &L, const std::set<long long> &bad, int size, bool reduced)
{
    for (long long i = 0; i < L.total; i++) {
        if (bad.count(i))
            continue;
        std::vector<int> a;
        const Plan &p = L.decode(i, a);
        std::vector<B> args;
        for (int k : a)
            args.push_back(S[k].e);
        try {
            B e = CONS[p.con].mk(args);
            add_state(e, recipe_of(L, i), CONS[p.con].out, size, reduced);
        } catch (std::exception &) {
        }
    }
}

int main(int argc, char **argv)
{
    init(argc, argv, "C44");
    bool thorough = opts().thorough();
    build_alphabet();
    Run &R = run();
    const long long nleaves = S.size();
    // ---- size 0: the leaves themselves
    {
        CaseSet cs;
        cs.name = "leaves";
        cs.n = nleaves;
        cs.counter_names = CN;
        cs.desc = [&](long long i) { return S[i].recipe; };
        cs.body = [&](long long i, Ctx &c) { check_state(S[i].e, S[i].recipe, c, i % 7 == 0); };
        run_cases(cs);
    }
    std::set<long long> bad;
    // ---- size 1: every constructor on all leaves (full alphabet)
    Layer L1 = make_layer(1, false, false);
    run_layer(L1, "size1:full", bad);
    // reduced size-1 states are stored (constructors of the reduced menu on reduced leaves)
    {
        Layer L1r = make_layer(1, true, true);
        std::set<long long> none;
        // L1r is a subset of L1 (already executed): reuse the quarantine by recipe
        std::set<std::string> badrec;
        for (long long i : bad)
            badrec.insert(recipe_of(L1, i));
        for (long long i = 0; i < L1r.total; i++)
            if (badrec.count(recipe_of(L1r, i)))
                none.insert(i);
        absorb(L1r, none, 1, true);
    }
    R.counters["leaves"] = nleaves;
    R.counters["constructors"] = CONS.size();
    R.counters["states_size1_reduced"] = BY[1][EX][1].size() + BY[1][BO][1].size() + BY[1][ST][1].size();
    std::string bound = "n<=1 over the full alphabet (" + std::to_string(nleaves) + " leaves, " + std::to_string(CONS.size()) + " constructors)";
    // ---- size 2: every constructor of the full menu on reduced states
    if (!past_deadline()) {
        Layer L2 = make_layer(2, false, true);
        run_layer(L2, "size2:any(reduced)", bad);
        bound += "; n<=2 with every outer constructor over the reduced sub-alphabet (" + std::to_string(L2.total) + " terms)";
        if (thorough && !past_deadline()) {
            Layer L2r = make_layer(2, true, true);
            std::set<std::string> badrec;
            for (long long i : bad)
                badrec.insert(recipe_of(L2, i));
            std::set<long long> none;
            for (long long i = 0; i < L2r.total; i++)
                if (badrec.count(recipe_of(L2r, i)))
                    none.insert(i);
            absorb(L2r, none, 2, true);
            R.counters["states_size2_reduced"] = BY[2][EX][1].size() + BY[2][BO][1].size() + BY[2][ST][1].size();
            Layer L3 = make_layer(3, false, true);
            run_layer(L3, "size3:any(reduced)", bad);
            bound += "; n<=3 with every outer constructor over reduced sub-terms (" + std::to_string(L3.total) + " terms)";
        }
    }
    R.states = S.size();
    R.transitions = R.evaluations;
    R.bound_completed = bound;
    R.rule = "E1 over a sorted alphabet (expressions/booleans/sets): leaves one per printer branch (signs, number kinds, greek/subscripted/XML-special symbol names, "
             "constants, infinities, named sets), every constructor with a bvisit overload in some printer; on each term latex/mathml/unicode/julia_str/sbml must return "
             "(library exception allowed only for MathML when a node type outside its overload list occurs); outputs checked by independent XML / TeX group+delimiter / "
             "UTF-8 box width / bracket checkers; parse_sbml(sbml(e)) must equal e on the SBML fragment. distinct_nontrivial = printed terms with at least one argument.";
    R.assumptions = {"the XML, TeX and UTF-8 checkers written in the driver define well-formedness (XML 1.0 tags/attributes/entities; TeX groups, \\left/\\right with a legal "
                     "delimiter, \\begin/\\end, no double scripts)",
                     "display width = number of code points (no wide or combining characters are produced)",
                     "SBML fragment = node types with a dedicated SBML spelling that the SBML parser maps back (see sbml_node)",
                     "RealDouble leaves are short decimals (15-digit printing is C16/C19's subject)"};
    return R.finish();
}
