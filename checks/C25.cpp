// C25  Sparse CSR matrices stay canonical and agree with dense ones -- E2 explicit-state search with a
// dense model (DESIGN 5 C25).  Built with ASan/UBSan: the index arithmetic of set/from_coo/matmat is
// exactly where silent out-of-bounds accesses would hide.
//
//  A  set-closure : every state of the closed space {absent,1,2}^(r*c) x every set(i,j,v), v in {0,1,2}
//                   (full transition relation; successor arrays must be THE canonical arrays of the dense successor)
//  B  bfs         : real BFS from CSRMatrix(r,c) through set() histories, keyed by the private (p,j,x) arrays
//                   (saturation: 3^(r*c) states, depth r*c)
//  C  from_coo    : every list of <= L triples (i,j,v), duplicates and all orders included
//  D  coo+set     : layered BFS under set() from every distinct from_coo result (explicit zeros, summed values)
//  E  unary ops   : transpose / conjugate / conjugate_transpose / csr_scale_rows / csr_scale_columns
//  F  binary ops  : csr_binop_csr_canonical(add,sub,mul), elementwise_mul_matrix, csr_matmat_pass1/2, csr_diagonal
//  G  jacobian    : CSRMatrix::jacobian (both overloads) vs a hand-written derivative table and dense jacobian
#include "common.h"
#include "key.h"
using namespace verif;

// Sanitizer defaults for this driver (options named in the environment set by vcheck still win).  Crash-class
// cases are expected here (findings): do not spawn the symbolizer for each of them.  For a symbolized report of a
// replay run it with VERIF_ASAN_EXTRA=symbolize=1.  (Must be a constant: called before libc is usable.)
extern "C" const char *__asan_default_options()
{
    return "quarantine_size_mb=16:symbolize=0";
}
extern "C" const char *__ubsan_default_options()
{
    return "symbolize=0";
}

static const int ABSENT = INT_MIN;
static std::vector<RCP<const Basic>> INTS; // integer(-4..16)
static RCP<const Basic> ib(int v)
{
    return INTS[v + 4];
}

// ------------------------------------------------------------------ integer model (phases A-D)
struct IModel {
    int r = 0, c = 0;
    std::vector<int> v; // ABSENT, or the stored value (an explicit 0 is a stored entry)
};
struct IArr {
    std::vector<unsigned> p, j;
    std::vector<int> x;
};
static IArr arrays_of(const IModel &m)
{
    IArr a;
    a.p.push_back(0);
    for (int i = 0; i < m.r; i++) {
        for (int k = 0; k < m.c; k++)
            if (m.v[i * m.c + k] != ABSENT) {
                a.j.push_back(k);
                a.x.push_back(m.v[i * m.c + k]);
            }
        a.p.push_back(a.j.size());
    }
    return a;
}
static std::string istr(const IModel &m)
{
    std::string o = "[";
    for (int i = 0; i < m.r; i++) {
        o += i ? ";" : "";
        for (int k = 0; k < m.c; k++) {
            int v = m.v[i * m.c + k];
            o += (k ? " " : "") + (v == ABSENT ? std::string(".") : v == 0 ? std::string("0e") : std::to_string(v));
        }
    }
    return o + "]";
}
template <class T>
static std::string vs(const std::vector<T> &v)
{
    std::string o = "{";
    for (size_t i = 0; i < v.size(); i++)
        o += (i ? "," : "") + std::to_string(v[i]);
    return o + "}";
}
static std::string raw_str(const CSRMatrix &M)
{
    std::string o = "row=" + std::to_string(M.row_) + " col=" + std::to_string(M.col_) + " p=" + vs(M.p_) + " j=" + vs(M.j_) + " x={";
    for (size_t i = 0; i < M.x_.size(); i++)
        o += (i ? "," : "") + (M.x_[i].is_null() ? std::string("null") : sstr(M.x_[i]));
    return o + "}";
}
// my own canonical-format check on the raw arrays; returns "" when sane
static std::string insane(const CSRMatrix &M, int r, int c)
{
    if ((int)M.row_ != r || (int)M.col_ != c)
        return "shape is " + std::to_string(M.row_) + "x" + std::to_string(M.col_) + " instead of " + std::to_string(r) + "x" + std::to_string(c);
    if (M.p_.size() != (size_t)r + 1)
        return "p has " + std::to_string(M.p_.size()) + " entries for " + std::to_string(r) + " rows";
    if (M.p_[0] != 0)
        return "p[0] != 0";
    for (int i = 0; i < r; i++)
        if (M.p_[i] > M.p_[i + 1])
            return "p decreases";
    if (M.p_[r] != M.j_.size() || M.j_.size() != M.x_.size())
        return "p[rows], |j|, |x| differ";
    for (int i = 0; i < r; i++)
        for (unsigned k = M.p_[i]; k < M.p_[i + 1]; k++) {
            if ((int)M.j_[k] >= c)
                return "column index out of range";
            if (k > M.p_[i] && M.j_[k - 1] >= M.j_[k])
                return M.j_[k - 1] == M.j_[k] ? "duplicate column index in a row" : "unsorted column indices in a row";
            if (M.x_[k].is_null())
                return "null entry";
        }
    return "";
}
static bool int_of(const RCP<const Basic> &e, int &out)
{
    if (e.is_null() || !is_a<Integer>(*e))
        return false;
    const integer_class &i = down_cast<const Integer &>(*e).as_integer_class();
    if (!mp_fits_slong_p(i))
        return false;
    out = (int)mp_get_si(i);
    return true;
}
// compare a library matrix with the model: "" or (class, detail)
static bool compare_imodel(const CSRMatrix &M, const IModel &m, bool lenient_zero, std::string &cls, std::string &detail)
{
    std::string bad = insane(M, m.r, m.c);
    bool libcanon = false;
    if (bad.empty())
        libcanon = M.is_canonical();
    if (!bad.empty()) {
        cls = "not-canonical";
        detail = bad + "; " + raw_str(M);
        return false;
    }
    if (!libcanon) {
        cls = "is_canonical()-false-on-canonical-arrays";
        detail = raw_str(M);
        return false;
    }
    // arrays
    IModel got;
    got.r = m.r;
    got.c = m.c;
    got.v.assign(m.r * m.c, ABSENT);
    for (int i = 0; i < m.r; i++)
        for (unsigned k = M.p_[i]; k < M.p_[i + 1]; k++) {
            int v;
            if (!int_of(M.x_[k], v)) {
                cls = "entry-not-integer";
                detail = raw_str(M);
                return false;
            }
            got.v[i * m.c + M.j_[k]] = v;
        }
    for (int q = 0; q < m.r * m.c; q++) {
        int a = got.v[q], b = m.v[q];
        if (a == b)
            continue;
        if (lenient_zero && ((a == ABSENT && b == 0) || (a == 0 && b == ABSENT)))
            continue;
        cls = "arrays-differ";
        detail = "stored " + istr(got) + " expected " + istr(m) + "; " + raw_str(M);
        return false;
    }
    // public get()
    for (int i = 0; i < m.r; i++)
        for (int k = 0; k < m.c; k++) {
            int want = m.v[i * m.c + k] == ABSENT ? 0 : m.v[i * m.c + k], g;
            RCP<const Basic> e = M.get(i, k);
            if (!int_of(e, g) || g != want) {
                cls = "get-differs";
                detail = "get(" + std::to_string(i) + "," + std::to_string(k) + ")=" + (e.is_null() ? "null" : sstr(e)) + " expected " + std::to_string(want)
                         + "; " + raw_str(M);
                return false;
            }
        }
    return true;
}
static CSRMatrix build_from_model(const IModel &m)
{
    IArr a = arrays_of(m);
    vec_basic x;
    for (int v : a.x)
        x.push_back(ib(v));
    return CSRMatrix(m.r, m.c, a.p, a.j, x);
}
static std::string key_of(const CSRMatrix &M)
{
    std::string k;
    k.push_back((char)M.row_);
    k.push_back((char)M.col_);
    for (unsigned v : M.p_)
        k.push_back((char)v);
    k.push_back((char)0xff);
    for (unsigned v : M.j_)
        k.push_back((char)v);
    k.push_back((char)0xff);
    for (auto &e : M.x_) {
        int v = 0;
        if (!int_of(e, v))
            v = 99;
        k.push_back((char)v);
    }
    return k;
}
static IModel model_from_arrays(const CSRMatrix &M)
{
    IModel m;
    m.r = M.row_;
    m.c = M.col_;
    m.v.assign(m.r * m.c, ABSENT);
    for (int i = 0; i < m.r; i++)
        for (unsigned k = M.p_[i]; k < M.p_[i + 1]; k++) {
            int v = 99;
            int_of(M.x_[k], v);
            m.v[i * m.c + M.j_[k]] = v;
        }
    return m;
}

enum { K_SET_TR, K_SET_INSERT, K_SET_DELETE, K_SET_OVERWRITE, K_SET_NOOP, K_COO_LISTS, K_COO_DUP, K_COO_EXPLICIT_ZERO, K_COO_CANCEL, K_UNARY, K_BINOP, K_MATMAT,
       K_MATMAT_CANCEL, K_DIAG, K_JAC, K_REFUSED, K_SCALE_ZERO_THROWS, K_GETS };
static std::vector<std::string> CN = {"set_transitions", "set_insertions", "set_deletions", "set_overwrites", "set_zero_on_absent(no-op)", "from_coo_lists",
                                      "from_coo_lists_with_duplicate_cells", "from_coo_results_with_explicit_zero_entry", "from_coo_duplicates_summing_to_zero",
                                      "unary_op_evaluations", "binop_evaluations", "matmat_evaluations", "matmat_with_cancellation", "csr_diagonal_evaluations",
                                      "jacobian_evaluations", "operations_refused(NotImplemented)", "scale_by_zero_refused", "get_calls_compared"};

// one set() transition from state S (model m)
static const char *KIND[4] = {"insert", "delete", "overwrite", "zero-on-absent"};
static void check_set(const CSRMatrix &S, const IModel &m, int i, int j, int v, Ctx &c, const std::string &how)
{
    int cell = i * m.c + j;
    bool existing = m.v[cell] != ABSENT;
    int kind = v != 0 ? (existing ? 2 : 0) : (existing ? 1 : 3);
    c.eval();
    c.count(K_SET_TR);
    c.count(K_SET_INSERT + kind);
    CSRMatrix M(S);
    M.set(i, j, ib(v));
    IModel m2 = m;
    m2.v[cell] = v == 0 ? ABSENT : v;
    if (m2.v != m.v)
        c.nontrivial();
    std::string cls, detail;
    c.count(K_GETS, m.r * m.c);
    if (!compare_imodel(M, m2, false, cls, detail))
        c.violation(std::string("set:") + KIND[kind] + ":" + cls, how + " " + istr(m) + " .set(" + std::to_string(i) + "," + std::to_string(j) + ","
                                                                      + std::to_string(v) + "): " + detail);
}

struct Shape {
    int r, c;
};
static long long ipow(long long b, int e)
{
    long long r = 1;
    while (e-- > 0)
        r *= b;
    return r;
}

// fast exact conversion (exact.h goes through decimal strings; machine-size values are the common case here)
static bool fast_q(const rational_class &q, mpq_class &out)
{
    const integer_class &n = get_num(q), &d = get_den(q);
    if (mp_fits_slong_p(n) && mp_fits_slong_p(d)) {
        out = mpq_class(mp_get_si(n), mp_get_si(d));
        return true;
    }
    out = to_mpq(q);
    return true;
}
static bool fast_gq(const Basic &e, GQ &out)
{
    if (is_a<Integer>(e)) {
        const integer_class &i = down_cast<const Integer &>(e).as_integer_class();
        if (mp_fits_slong_p(i)) {
            out.re = mpq_class(mp_get_si(i));
            out.im = 0;
            return true;
        }
        return to_gq(e, out);
    }
    if (is_a<Rational>(e)) {
        out.im = 0;
        return fast_q(down_cast<const Rational &>(e).as_rational_class(), out.re);
    }
    if (is_a<Complex>(e)) {
        const Complex &c = down_cast<const Complex &>(e);
        return fast_q(c.real_, out.re) && fast_q(c.imaginary_, out.im);
    }
    return false;
}

// ------------------------------------------------------------------ Gaussian-rational model (phases E, F)
struct GM {
    int r = 0, c = 0;
    std::vector<GQ> v;
};
struct Leaf {
    GQ g;
    RCP<const Basic> e;
    std::string name;
};
static Leaf leaf(long rn, long rd, long in, long id)
{
    Leaf l;
    l.g.re = mpq_class(rn, rd);
    l.g.im = mpq_class(in, id);
    l.g.re.canonicalize();
    l.g.im.canonicalize();
    RCP<const Number> re = Rational::from_two_ints(rn, rd), im = Rational::from_two_ints(in, id);
    l.e = Complex::from_two_nums(*re, *im);
    l.name = gq_str(l.g);
    return l;
}
static std::string gstr(const GM &m)
{
    std::string o = "[";
    for (int i = 0; i < m.r; i++) {
        o += i ? ";" : "";
        for (int k = 0; k < m.c; k++)
            o += (k ? " " : "") + gq_str(m.v[i * m.c + k]);
    }
    return o + "]";
}
static RCP<const Basic> gq_basic(const GQ &g)
{
    auto q = [](const mpq_class &v) -> RCP<const Number> {
        if (v.get_num().fits_slong_p() && v.get_den().fits_slong_p())
            return Rational::from_two_ints(v.get_num().get_si(), v.get_den().get_si());
        return Rational::from_two_ints(*integer(integer_class(v.get_num().get_str())), *integer(integer_class(v.get_den().get_str())));
    };
    RCP<const Number> re = q(g.re), im = q(g.im);
    return Complex::from_two_nums(*re, *im);
}
static CSRMatrix build_from_gm(const GM &m)
{
    std::vector<unsigned> p{0}, j;
    vec_basic x;
    for (int i = 0; i < m.r; i++) {
        for (int k = 0; k < m.c; k++)
            if (!m.v[i * m.c + k].is_zero()) {
                j.push_back(k);
                x.push_back(gq_basic(m.v[i * m.c + k]));
            }
        p.push_back(j.size());
    }
    return CSRMatrix(m.r, m.c, p, j, x);
}
// exact comparison: canonical arrays without stored zeros + get()
static bool compare_gm(const CSRMatrix &M, const GM &m, std::string &cls, std::string &detail)
{
    std::string bad = insane(M, m.r, m.c);
    if (!bad.empty()) {
        cls = "not-canonical";
        detail = bad + "; " + raw_str(M);
        return false;
    }
    if (!M.is_canonical()) {
        cls = "is_canonical()-false-on-canonical-arrays";
        detail = raw_str(M);
        return false;
    }
    std::vector<int> present(m.r * m.c, 0);
    for (int i = 0; i < m.r; i++)
        for (unsigned k = M.p_[i]; k < M.p_[i + 1]; k++) {
            GQ g;
            if (!fast_gq(*M.x_[k], g)) {
                cls = "entry-not-a-number";
                detail = raw_str(M);
                return false;
            }
            present[i * m.c + M.j_[k]] = 1;
            if (!(g == m.v[i * m.c + M.j_[k]])) {
                cls = "wrong-value";
                detail = "stored (" + std::to_string(i) + "," + std::to_string(M.j_[k]) + ")=" + gq_str(g) + " expected dense " + gstr(m) + "; " + raw_str(M);
                return false;
            }
            if (g.is_zero()) {
                cls = "explicit-zero-stored";
                detail = "expected dense " + gstr(m) + "; " + raw_str(M);
                return false;
            }
        }
    for (int q = 0; q < m.r * m.c; q++)
        if (!present[q] && !m.v[q].is_zero()) {
            cls = "entry-missing";
            detail = "expected dense " + gstr(m) + "; " + raw_str(M);
            return false;
        }
    for (int i = 0; i < m.r; i++)
        for (int k = 0; k < m.c; k++) {
            GQ g;
            RCP<const Basic> e = M.get(i, k);
            if (e.is_null() || !fast_gq(*e, g) || !(g == m.v[i * m.c + k])) {
                cls = "get-differs";
                detail = "get(" + std::to_string(i) + "," + std::to_string(k) + ")=" + (e.is_null() ? "null" : sstr(e)) + " expected dense " + gstr(m) + "; "
                         + raw_str(M);
                return false;
            }
        }
    return true;
}
static GM decode_gm(long long idx, int r, int c, const std::vector<Leaf> &A)
{
    GM m;
    m.r = r;
    m.c = c;
    m.v.resize(r * c);
    for (int q = r * c - 1; q >= 0; q--) {
        m.v[q] = A[idx % A.size()].g;
        idx /= A.size();
    }
    return m;
}
static GQ conj(const GQ &g)
{
    return {g.re, -g.im};
}
static GM g_transpose(const GM &a, bool cj)
{
    GM t;
    t.r = a.c;
    t.c = a.r;
    t.v.resize(a.v.size());
    for (int i = 0; i < a.r; i++)
        for (int k = 0; k < a.c; k++)
            t.v[k * t.c + i] = cj ? conj(a.v[i * a.c + k]) : a.v[i * a.c + k];
    return t;
}
static GM g_mul(const GM &a, const GM &b)
{
    GM t;
    t.r = a.r;
    t.c = b.c;
    t.v.assign(t.r * t.c, GQ());
    for (int i = 0; i < a.r; i++)
        for (int k = 0; k < b.c; k++)
            for (int l = 0; l < a.c; l++)
                t.v[i * t.c + k] = t.v[i * t.c + k] + a.v[i * a.c + l] * b.v[l * b.c + k];
    return t;
}

static bool go(const std::string &phase);
static void timed_run(CaseSet &cs)
{
    double t = now();
    run_cases(cs);
    run().counters["ms:" + cs.name] = (uint64_t)((now() - t) * 1000);
}

#include "C25_ops.inc"

int main(int argc, char **argv)
{
    init(argc, argv, "C25");
    bool thorough = opts().thorough();
    for (int v = -4; v <= 16; v++)
        INTS.push_back(integer(v));
    Run &R = run();
    uint64_t states_total = 0;
    std::string bound;

    // ================================================================= A: closed set() transition relation
    // (run twice: the small shapes first, the large closures last so that a deadline cuts the least important part)
    auto closure_and_bfs = [&](const std::vector<Shape> &shapesA, const std::string &round) {
    if (!go("A:set-closure" + round))
        return;
    std::map<std::pair<int, int>, bool> closure_clean;
    {
        std::vector<long long> abase{0};
        for (auto sh : shapesA)
            abase.push_back(abase.back() + ipow(3, sh.r * sh.c));
        auto locate = [shapesA, abase](long long s, long long &local) {
            size_t k = 0;
            while (s >= abase[k + 1])
                k++;
            local = s - abase[k];
            return shapesA[k];
        };
        auto model_of = [locate](long long s) {
            long long l;
            Shape sh = locate(s, l);
            int n = sh.r * sh.c;
            IModel m;
            m.r = sh.r;
            m.c = sh.c;
            m.v.resize(n);
            for (int q = n - 1; q >= 0; q--) {
                int d = l % 3;
                l /= 3;
                m.v[q] = d == 0 ? ABSENT : d;
            }
            return m;
        };
        CaseSet cs;
        cs.name = "A:set-closure" + round;
        cs.n = abase.back();
        cs.counter_names = CN;
        cs.hang_s = 300;
        cs.desc = [=](long long s) {
            IModel m = model_of(s);
            return "every set(i,j,v) from the " + std::to_string(m.r) + "x" + std::to_string(m.c) + " state " + istr(m);
        };
        cs.crash_sig = [=](long long, const std::string &oc) { return "set:" + crash_class(oc); };
        cs.body = [=](long long s, Ctx &c) {
            IModel m = model_of(s);
            CSRMatrix S = build_from_model(m);
            std::string cls, detail;
            if (!compare_imodel(S, m, false, cls, detail)) {
                c.violation("constructor:" + cls, "CSRMatrix(r,c,p,j,x) for " + istr(m) + ": " + detail);
                return;
            }
            int nnz = 0;
            for (int v : m.v)
                nnz += v != ABSENT;
            c.outcome(std::to_string(m.r) + "x" + std::to_string(m.c) + ":nnz=" + std::to_string(nnz));
            for (int i = 0; i < m.r; i++)
                for (int j = 0; j < m.c; j++)
                    for (int v = 0; v < 3; v++)
                        check_set(S, m, i, j, v, c, "state");
            if (s % 50021 == 7)
                c.sample("{\"phase\":\"A\",\"state\":" + jstr(istr(m)) + ",\"ops\":" + std::to_string(3 * m.r * m.c) + "}");
        };
        timed_run(cs);
        states_total += cs.n;
        for (auto sh : shapesA)
            closure_clean[{sh.r, sh.c}] = true;
        for (long long bad : cs.bad) {
            long long l;
            Shape sh = locate(bad, l);
            closure_clean[{sh.r, sh.c}] = false;
        }
        bound += (bound.empty() ? "" : "; ") + std::string("A: full set() transition relation over {.,1,2}^(r*c) for");
        for (auto sh : shapesA)
            bound += " " + std::to_string(sh.r) + "x" + std::to_string(sh.c);
    }

    // ================================================================= B: real BFS by histories from the empty matrix
    if (!replaying()) {
        std::string bfs_done;
        for (auto sh : shapesA) {
            int n = sh.r * sh.c;
            if (thorough ? n > 10 : n > 8) // quick: saturation up to 8 cells (3x3 closure is phase A); thorough: up to 10 cells
                continue;
            if (!closure_clean[{sh.r, sh.c}] || past_deadline()) {
                R.counters["B:bfs_skipped(shape had violations or deadline)"]++;
                continue;
            }
            if (n == 12 && (!(sh.r == 3 && sh.c == 4) || now() - opts().t0 > 0.3 * opts().deadline_s)) {
                R.counters["B:bfs_skipped(shape had violations or deadline)"]++;
                continue;
            }
            std::unordered_map<std::string, int> seen; // key -> depth
            std::deque<CSRMatrix> q;
            CSRMatrix E(sh.r, sh.c);
            seen[key_of(E)] = 0;
            q.push_back(E);
            uint64_t tr = 0;
            int maxdepth = 0;
            bool bad = false;
            while (!q.empty()) {
                CSRMatrix S = q.front();
                q.pop_front();
                int d = seen[key_of(S)];
                for (int i = 0; i < sh.r; i++)
                    for (int j = 0; j < sh.c; j++)
                        for (int v = 0; v < 3; v++) {
                            CSRMatrix M(S);
                            M.set(i, j, ib(v));
                            tr++;
                            std::string k = key_of(M);
                            if (seen.emplace(k, d + 1).second) {
                                maxdepth = std::max(maxdepth, d + 1);
                                if (!insane(M, sh.r, sh.c).empty())
                                    bad = true;
                                q.push_back(M);
                            }
                        }
            }
            std::string tag = "B:bfs-" + std::to_string(sh.r) + "x" + std::to_string(sh.c);
            R.counters[tag + ":states"] = seen.size();
            R.counters[tag + ":transitions"] = tr;
            R.counters[tag + ":depth"] = maxdepth;
            R.evaluations += tr;
            if ((long long)seen.size() != ipow(3, n) || maxdepth != n || bad)
                R.violation("bfs:reachable-set-differs-from-dense-space", tag, 0,
                            "BFS over set() histories from the empty " + std::to_string(sh.r) + "x" + std::to_string(sh.c) + " matrix reached "
                                + std::to_string(seen.size()) + " distinct (p,j,x) states at depth " + std::to_string(maxdepth) + "; expected "
                                + std::to_string(ipow(3, n)) + " at depth " + std::to_string(n));
            R.outcomes.insert(tag + ":saturated@" + std::to_string(seen.size()));
            bfs_done += " " + std::to_string(sh.r) + "x" + std::to_string(sh.c);
        }
        bound += "; B: BFS saturation from the empty matrix for" + bfs_done;
    }
    };
    closure_and_bfs({{1, 1}, {1, 3}, {3, 1}, {2, 2}, {2, 3}, {3, 2}, {1, 8}, {3, 3}}, "");

    // ================================================================= C: from_coo, D: set() from every from_coo result
    struct CooSet {
        int r, c, L;
        std::vector<int> vals;
        int depth;
    };
    std::vector<CooSet> coos = {{2, 2, 4, {0, 1, 2}, 2}, {2, 3, 3, {0, 1, 2}, 1}, {2, 2, 4, {1, -1}, 0}, {3, 3, 2, {0, 1, 2}, 0}};
    if (thorough)
        coos = {{2, 2, 4, {0, 1, 2}, 3}, {2, 3, 4, {0, 1, 2}, 2}, {2, 2, 5, {1, -1}, 1}, {3, 3, 3, {0, 1, 2}, 1}, {3, 2, 4, {0, 1, -1}, 1}, {1, 4, 4, {0, 1, 2}, 2}};
    for (auto &co : coos) {
        if (!go("C:from_coo"))
            break;
        int ncell = co.r * co.c, T = ncell * (int)co.vals.size();
        std::vector<long long> base{0};
        for (int L = 0; L <= co.L; L++)
            base.push_back(base.back() + ipow(T, L));
        std::string tag = std::to_string(co.r) + "x" + std::to_string(co.c) + "-L" + std::to_string(co.L) + "-v" + vs(co.vals);
        auto decode = [=](long long idx, std::vector<unsigned> &iv, std::vector<unsigned> &jv, std::vector<int> &xv) {
            int L = 0;
            while (idx >= base[L + 1])
                L++;
            idx -= base[L];
            iv.assign(L, 0);
            jv.assign(L, 0);
            xv.assign(L, 0);
            for (int t = L - 1; t >= 0; t--) {
                int d = idx % T;
                idx /= T;
                int cell = d / (int)co.vals.size();
                iv[t] = cell / co.c;
                jv[t] = cell % co.c;
                xv[t] = co.vals[d % co.vals.size()];
            }
        };
        auto cdesc = [=](long long idx) {
            std::vector<unsigned> iv, jv;
            std::vector<int> xv;
            decode(idx, iv, jv, xv);
            return "from_coo(" + std::to_string(co.r) + "," + std::to_string(co.c) + ", i=" + vs(iv) + ", j=" + vs(jv) + ", x=" + vs(xv) + ")";
        };
        auto call = [=](long long idx, IModel &m, bool &dup) {
            std::vector<unsigned> iv, jv;
            std::vector<int> xv;
            decode(idx, iv, jv, xv);
            m.r = co.r;
            m.c = co.c;
            m.v.assign(ncell, ABSENT);
            dup = false;
            vec_basic x;
            for (size_t t = 0; t < iv.size(); t++) {
                int cell = iv[t] * co.c + jv[t];
                if (m.v[cell] == ABSENT)
                    m.v[cell] = xv[t];
                else {
                    m.v[cell] += xv[t];
                    dup = true;
                }
                x.push_back(ib(xv[t]));
            }
            return CSRMatrix::from_coo(co.r, co.c, iv, jv, x);
        };
        CaseSet cs;
        cs.name = "C:from_coo-" + tag;
        cs.hang_s = 300;
        cs.n = base.back();
        cs.counter_names = CN;
        cs.desc = cdesc;
        cs.crash_sig = [=](long long, const std::string &oc) { return "from_coo:" + crash_class(oc); };
        cs.body = [=](long long idx, Ctx &c) {
            IModel m;
            bool dup;
            c.eval();
            c.count(K_COO_LISTS);
            CSRMatrix M = call(idx, m, dup);
            if (dup) {
                c.count(K_COO_DUP);
                c.nontrivial();
            }
            std::string cls, detail;
            bool ok = compare_imodel(M, m, true, cls, detail);
            if (!ok)
                c.violation(std::string("from_coo:") + (dup ? "duplicates:" : "distinct-cells:") + cls, cdesc(idx) + ": " + detail);
            else {
                bool ez = false, cancel = false;
                for (auto &e : M.x_) {
                    int v;
                    if (int_of(e, v) && v == 0)
                        ez = true;
                }
                for (int q = 0; q < ncell; q++)
                    if (m.v[q] == 0 && dup)
                        cancel = true;
                if (ez)
                    c.count(K_COO_EXPLICIT_ZERO);
                if (cancel)
                    c.count(K_COO_CANCEL);
                c.outcome("from_coo:nnz=" + std::to_string(M.j_.size()) + (dup ? ":dup" : "") + (ez ? ":explicit0" : ""));
            }
            if (idx % 40009 == 5)
                c.sample("{\"phase\":\"C\",\"call\":" + jstr(cdesc(idx)) + ",\"stored\":" + jstr(raw_str(M)) + "}");
        };
        timed_run(cs);
        bound += "; C: from_coo every list of <= " + std::to_string(co.L) + " triples on " + std::to_string(co.r) + "x" + std::to_string(co.c) + " values "
                 + vs(co.vals);
        if (co.depth == 0 || !go("D:coo+set"))
            continue;
        // ---- D: distinct results as BFS roots (parent; only lists already executed cleanly by the workers)
        std::vector<CSRMatrix> front;
        std::unordered_set<std::string> seen;
        for (long long idx = 0; idx < cs.n; idx++) {
            if (cs.bad.count(idx))
                continue;
            IModel m;
            bool dup;
            CSRMatrix M = call(idx, m, dup);
            if (seen.insert(key_of(M)).second)
                front.push_back(M);
        }
        R.counters["D:roots-" + tag] = front.size();
        for (int d = 1; d <= co.depth && go("D:coo+set-depth"); d++) {
            int nops = ncell * 3;
            CaseSet ds;
            ds.name = "D:coo+set-" + tag + "-depth" + std::to_string(d);
            ds.n = (long long)front.size() * nops;
            ds.counter_names = CN;
            ds.hang_s = 300;
            const std::vector<CSRMatrix> *F = &front;
            ds.desc = [F, nops, co, d](long long i) {
                const CSRMatrix &S = (*F)[i / nops];
                int op = i % nops;
                return "state " + raw_str(S) + " (from_coo result + " + std::to_string(d - 1) + " sets) .set(" + std::to_string(op / 3 / co.c) + ","
                       + std::to_string(op / 3 % co.c) + "," + std::to_string(op % 3) + ")";
            };
            ds.crash_sig = [=](long long, const std::string &oc) { return "set(after from_coo):" + crash_class(oc); };
            ds.body = [F, nops, co](long long i, Ctx &c) {
                const CSRMatrix &S = (*F)[i / nops];
                int op = i % nops;
                IModel m = model_from_arrays(S);
                check_set(S, m, op / 3 / co.c, op / 3 % co.c, op % 3, c, "from_coo-state");
                if (i % 60013 == 3)
                    c.sample("{\"phase\":\"D\",\"state\":" + jstr(istr(m)) + ",\"op\":" + std::to_string(op) + "}");
            };
            timed_run(ds);
            states_total += front.size();
            if (d == co.depth)
                break;
            std::vector<CSRMatrix> next;
            for (long long i = 0; i < ds.n; i++) {
                if (ds.bad.count(i))
                    continue;
                int op = i % nops;
                CSRMatrix M(front[i / nops]);
                M.set(op / 3 / co.c, op / 3 % co.c, ib(op % 3));
                if (seen.insert(key_of(M)).second)
                    next.push_back(M);
            }
            front.swap(next);
            R.counters["D:new-states-depth" + std::to_string(d) + "-" + tag] = front.size();
        }
        bound += " then every set() to depth " + std::to_string(co.depth) + " from every distinct result";
    }

    // ================================================================= E, F, G
    run_ops_phases(thorough, states_total, bound);
    if (thorough)
        closure_and_bfs({{2, 4}, {1, 10}, {3, 4}}, "-large"); // BFS: shapes with <= 10 cells

    R.states = states_total;
    R.transitions = R.evaluations;
    R.bound_completed = bound;
    R.rule = "E2: states are CSR matrices identified by their private (p,j,x) arrays; every set(i,j,v) (v in {0,1,2}) from every state of the closed "
             "space, BFS saturation from the empty matrix, every from_coo list up to the length bound (duplicates, all orders) and set() from "
             "every distinct result; after each step: own canonical-format check + is_canonical(), arrays equal to the canonical arrays of the "
             "dense model, every get() equal to the model. Then exhaustive tables of unary ops, binops, matmat, csr_diagonal, scaling and "
             "jacobian against dense Gaussian-rational arithmetic. distinct_nontrivial = transitions that change the arrays, from_coo lists "
             "with duplicate cells, op cases with a non-zero result";
    R.assumptions = {"GMP rational arithmetic of the dense model", "scalar add/mul/conjugate/diff of the library are not under test here (C07/C10)",
                     "CSR add_matrix/mul_matrix/add_scalar/mul_scalar/submatrix throw NotImplementedError and are counted as refusals",
                     "explicit zero entries stored by from_coo are canonical (counted, not judged); CSRMatrix::eq is not judged"};
    return R.finish();
}
