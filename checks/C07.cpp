// C07  Arithmetic construction preserves mathematical value -- E1 + RefEval (DESIGN 5 C07)
#include "common.h"
#include "explore.h"
#include "refeval.h"
using namespace verif;

enum Op { ADD, SUB, MUL, DIV, POW, NEG, SQRT, CBRT, NOPS };
static const char *OPN[] = {"add", "sub", "mul", "div", "pow", "neg", "sqrt", "cbrt"};
static const int NBIN = 5;

static RCP<const Basic> apply(int op, const RCP<const Basic> &a, const RCP<const Basic> &b)
{
    switch (op) {
        case ADD:
            return add(a, b);
        case SUB:
            return sub(a, b);
        case MUL:
            return mul(a, b);
        case DIV:
            return div(a, b);
        case POW:
            return pow(a, b);
        case NEG:
            return neg(a);
        case SQRT:
            return sqrt(a);
        default:
            return cbrt(a);
    }
}

static std::string cls(const Basic &e, int lvl = 0)
{
    std::string t = type_code_name(e.get_type_code());
    if (is_a_Number(e)) {
        const Number &n = down_cast<const Number &>(e);
        if (is_a<Integer>(e) || is_a<Rational>(e) || is_a<RealDouble>(e))
            return t + (n.is_zero() ? "=0" : n.is_negative() ? "<0" : ">0");
        return t;
    }
    if (is_a<Pow>(e) && lvl == 0) {
        const Pow &p = down_cast<const Pow &>(e);
        return "Pow(" + cls(*p.get_base(), 1) + "," + cls(*p.get_exp(), 1) + ")";
    }
    return t;
}

static std::vector<Env> G;
struct Vals {
    Value v[4][2];
};
static std::vector<Vals> SV; // per state values at the grid, both cut sides

static Vals eval_state(const Basic &e)
{
    Vals r;
    for (size_t g = 0; g < G.size(); g++) {
        r.v[g][0] = refeval(e, G[g], +1);
        if (r.v[g][0].ok && r.v[g][0].on_cut)
            r.v[g][1] = refeval(e, G[g], -1);
        else
            r.v[g][1] = r.v[g][0];
    }
    return r;
}

// expected value of op on operand values; ok=false when undefined/undecidable there
static bool expected(int op, const State &A, const State *B, cq va, cq vb, cq &out, std::string &why)
{
    EvalState st;
    Env dummy;
    st.env = &dummy;
    st.side = 1;
    switch (op) {
        case ADD:
            out = va + vb;
            return true;
        case SUB:
            out = va - vb;
            return true;
        case MUL:
            out = va * vb;
            return true;
        case DIV:
            if (vb == 0) {
                why = "pole";
                return false;
            }
            out = va / vb;
            return true;
        case NEG:
            out = -va;
            return true;
        case POW: {
            long n = 0;
            bool si = small_int(*B->e, n);
            out = ev_pow(va, vb, si, n, st);
            break;
        }
        case SQRT:
            out = ev_pow(va, mkc(0.5Q, 0), false, 0, st);
            break;
        case CBRT:
            out = ev_pow(va, mkc(1.0Q / 3, 0), false, 0, st);
            break;
    }
    if (!st.ok) {
        why = st.why;
        return false;
    }
    if (!finite(out)) {
        why = "nonfinite";
        return false;
    }
    return true;
}

enum { K_CHECKED, K_SKIP_POLE, K_SKIP_NONFINITE, K_SKIP_NEARCUT, K_SKIP_OTHER, K_THROW, K_POINTS, K_RESULT_NONFINITE_CLASS,
       K_FLOATTOL, K_SKIP_HUGE, K_SKIP_SIGNEDZERO, K_SKIP_FLOATRANGE };

static StateSet SS;

// one transition: op on states ia (and ib)
static void check_transition(int op, int ia, int ib, Ctx &c)
{
    const State &A = SS.S[ia];
    const State *B = op < NBIN ? &SS.S[ib] : nullptr;
    RCP<const Basic> r;
    c.eval();
    std::string recipe = std::string(OPN[op]) + "(" + A.recipe + (B ? ", " + B->recipe : "") + ")";
    // astronomically large exact powers (4**(4**4), 2**(3**300)) exhaust GMP ("overflow in mpz type" aborts the process):
    // a resource limit of exact arithmetic, not a value-preservation matter -- skipped and counted
    if (op == POW && is_a_Number(*B->e) && SV[ib].v[0][0].ok
        && ((absq(SV[ib].v[0][0].v) > 64 && is_a_Number(*A.e)) || absq(SV[ib].v[0][0].v) > 4096)) {
        c.count(K_SKIP_HUGE);
        return;
    }
    // a complex double base on the negative real axis carries a SIGNED zero imaginary part that selects the side of the
    // cut (IEEE semantics): the exact-value oracle has no opinion there -- skipped and counted
    if ((op == POW || op == SQRT || op == CBRT) && is_a<ComplexDouble>(*A.e)) {
        std::complex<double> z = down_cast<const ComplexDouble &>(*A.e).i;
        if (z.imag() == 0.0 && z.real() < 0) {
            c.count(K_SKIP_SIGNEDZERO);
            return;
        }
    }
    try {
        r = apply(op, A.e, B ? B->e : A.e);
    } catch (SymEngineException &x) {
        // documented refusal (e.g. NotImplementedError) is not a wrong value
        c.count(K_THROW);
        c.outcome(std::string("throw:") + x.what());
        return;
    }
    TypeID want = (op == ADD || op == SUB) ? SYMENGINE_ADD : (op == MUL || op == DIV || op == NEG) ? SYMENGINE_MUL : SYMENGINE_POW;
    if (r->get_type_code() != want || r->get_args().size() != 2)
        c.nontrivial();
    c.outcome(type_code_name(r->get_type_code()));
    bool judged = false;
    for (size_t g = 0; g < G.size(); g++) {
        const Value &va0 = SV[ia].v[g][0];
        const Value &vb0 = B ? SV[ib].v[g][0] : va0;
        if (!va0.ok || !vb0.ok) {
            c.count(K_SKIP_OTHER);
            continue;
        }
        bool anycut = va0.on_cut || vb0.on_cut;
        // candidate expected values (operand cut sides) x candidate actual values (result cut sides)
        std::vector<cq> exps;
        std::string why;
        int sides = anycut ? 2 : 1;
        for (int sa = 0; sa < sides; sa++)
            for (int sb = 0; sb < (B ? sides : 1); sb++) {
                cq o;
                if (expected(op, A, B, SV[ia].v[g][sa].v, B ? SV[ib].v[g][sb].v : mkc(0, 0), o, why))
                    exps.push_back(o);
            }
        if (exps.empty()) {
            c.count(why == "pole" ? K_SKIP_POLE : why == "near-cut" ? K_SKIP_NEARCUT : K_SKIP_NONFINITE);
            continue;
        }
        Value r0 = refeval(*r, G[g], +1);
        if (!r0.ok) {
            // result not finite/decidable although expected is: class mismatch only if result is zoo/nan/oo
            if (r0.why == "nonfinite-leaf" || r0.why == "nonfinite") {
                // e.g. overflow of doubles to inf, or genuine zoo: judged by C06, not here
                c.count(K_RESULT_NONFINITE_CLASS);
            } else
                c.count(r0.why == "near-cut" ? K_SKIP_NEARCUT : K_SKIP_OTHER);
            continue;
        }
        std::vector<cq> acts = {r0.v};
        if (r0.on_cut) {
            Value r1 = refeval(*r, G[g], -1);
            if (r1.ok)
                acts.push_back(r1.v);
        }
        bool fl = va0.has_float || vb0.has_float || r0.has_float;
        if (fl && (absq(exps[0]) > 1e290Q || (exps[0] != 0 && absq(exps[0]) < 1e-290Q) || (op == POW && absq(vb0.v) > 600))) {
            c.count(K_SKIP_FLOATRANGE); // true value outside the double range: overflow/underflow is not a rewrite error
            continue;
        }
        rq tol = fl ? 1e-9Q : 1e-25Q;
        if (fl)
            c.count(K_FLOATTOL);
        rq scale = fmaxq(fmaxq(va0.scale, vb0.scale), r0.scale);
        bool okk = false;
        for (auto &x : exps)
            for (auto &y : acts)
                if (closeq(x, y, tol * (rq)(r0.nodes + 4), scale))
                    okk = true;
        c.count(K_POINTS);
        judged = true;
        if (!okk) {
            std::string sig = std::string(OPN[op]) + "(" + cls(*A.e) + (B ? "," + cls(*B->e) : "") + ")";
            c.violation(sig, recipe + " returned " + sstr(r) + " [" + key(*r) + "]; at grid point " + std::to_string(g) + " expected "
                                 + cstr(exps[0]) + " but the returned tree evaluates to " + cstr(acts[0]));
            break;
        }
    }
    if (judged)
        c.count(K_CHECKED);
    if (c.index % 50021 == 0)
        c.sample("{\"recipe\":" + jstr(recipe) + ",\"result\":" + jstr(sstr(r)) + ",\"judged\":" + (judged ? "true" : "false") + "}");
}

int main(int argc, char **argv)
{
    init(argc, argv, "C07");
    G = complex_grid();
    RCP<const Basic> x = symbol("x"), y = symbol("y");
    auto R = [](long a, long b) { return Rational::from_two_ints(a, b); };
    std::vector<std::pair<std::string, RCP<const Basic>>> leaves = {
        {"0", integer(0)},   {"1", integer(1)},       {"-1", integer(-1)},  {"2", integer(2)},
        {"-2", integer(-2)}, {"3", integer(3)},       {"-8", integer(-8)},  {"1/2", R(1, 2)},
        {"-1/2", R(-1, 2)},  {"2/3", R(2, 3)},        {"-3/2", R(-3, 2)},   {"I", I},
        {"1+I", add(one, I)}, {"0.5", real_double(0.5)}, {"-2.0", real_double(-2.0)}, {"pi", pi},
        {"E", E},            {"x", x},                {"y", y},
        // structured leaf (seed C04b): a rational power of a product, so that S1 holds products with a nested Mul base
        {"sqrt(x*y)", sqrt(mul(x, y))}};
    if (opts().thorough()) {
        leaves.push_back({"4", integer(4)});
        leaves.push_back({"1/3", R(1, 3)});
        leaves.push_back({"1.0", real_double(1.0)});
        leaves.push_back({"-1/2*I", mul(R(-1, 2), I)});
    }
    for (auto &l : leaves)
        SS.add(l.second, l.first, 0);
    const long long n0 = SS.size();
    auto sync_vals = [&]() {
        while (SV.size() < SS.size())
            SV.push_back(eval_state(*SS.S[SV.size()].e));
    };
    sync_vals();
    std::vector<std::string> cn = {"transitions_value_checked", "points_skipped_pole", "points_skipped_nonfinite_expected",
                                   "points_skipped_near_cut", "points_skipped_other", "transitions_library_refused(exception)",
                                   "grid_points_compared", "points_result_nonfinite_class(zoo/nan/inf; judged by C06)",
                                   "points_compared_with_float_tolerance", "transitions_skipped_number**(|exponent|>64)", "transitions_skipped_complex_double_base_with_signed_zero_on_cut",
                                   "points_skipped_value_outside_double_range"};
    Run &Rn = run();

    // ---- layer 1: every op on leaves
    CaseSet l1;
    l1.name = "L1:op(S0,S0)";
    l1.n = n0 * n0 * NBIN + n0 * (NOPS - NBIN);
    l1.counter_names = cn;
    auto dec1 = [&](long long i, int &op, int &ia, int &ib) {
        if (i < n0 * n0 * NBIN) {
            op = i % NBIN;
            ib = (i / NBIN) % n0;
            ia = i / NBIN / n0;
        } else {
            long long j = i - n0 * n0 * NBIN;
            op = NBIN + j % (NOPS - NBIN);
            ia = j / (NOPS - NBIN);
            ib = ia;
        }
    };
    l1.desc = [&](long long i) {
        int op, ia, ib;
        dec1(i, op, ia, ib);
        return std::string(OPN[op]) + "(" + SS.S[ia].recipe + (op < NBIN ? ", " + SS.S[ib].recipe : "") + ")";
    };
    l1.body = [&](long long i, Ctx &c) {
        int op, ia, ib;
        dec1(i, op, ia, ib);
        check_transition(op, ia, ib, c);
    };
    run_cases(l1);
    // build S1 from non-violating transitions (quarantine)
    for (long long i = 0; i < l1.n; i++) {
        if (l1.bad.count(i))
            continue;
        int op, ia, ib;
        dec1(i, op, ia, ib);
        try {
            RCP<const Basic> r = apply(op, SS.S[ia].e, SS.S[ib].e);
            SS.add(r, l1.desc(i), 1);
        } catch (std::exception &) {
        }
    }
    sync_vals();
    const long long n1 = SS.size();
    Rn.counters["states_S0"] = n0;
    Rn.counters["states_S1"] = n1;

    // ---- layer 2: every binary op on S1 x S1 (recipes with <= 3 operations), unary on S1
    CaseSet l2;
    l2.name = "L2:op(S1,S1)";
    l2.n = n1 * n1 * NBIN + n1 * (NOPS - NBIN);
    l2.counter_names = cn;
    auto dec2 = [&](long long i, int &op, int &ia, int &ib) {
        if (i < n1 * n1 * NBIN) {
            op = i % NBIN;
            ib = (i / NBIN) % n1;
            ia = i / NBIN / n1;
        } else {
            long long j = i - n1 * n1 * NBIN;
            op = NBIN + j % (NOPS - NBIN);
            ia = j / (NOPS - NBIN);
            ib = ia;
        }
    };
    l2.desc = [&](long long i) {
        int op, ia, ib;
        dec2(i, op, ia, ib);
        return std::string(OPN[op]) + "(" + SS.S[ia].recipe + (op < NBIN ? ", " + SS.S[ib].recipe : "") + ")";
    };
    l2.body = [&](long long i, Ctx &c) {
        int op, ia, ib;
        dec2(i, op, ia, ib);
        if (ia < n0 && ib < n0)
            return; // already covered by layer 1
        check_transition(op, ia, ib, c);
    };
    run_cases(l2);
    std::string bound = "all transitions op(a,b), a,b in S1 (recipes of <= 3 operations): |S0|=" + std::to_string(n0)
                        + " |S1|=" + std::to_string(n1);

    if (opts().thorough() && !past_deadline()) {
        // ---- layer 3: states S2' = op(S1,S0) u op(S0,S1); transitions op(S2',S0) and op(S0,S2')
        for (long long i = 0; i < l2.n && i < n1 * n1 * NBIN; i++) {
            int op, ia, ib;
            dec2(i, op, ia, ib);
            if ((ia < n0) == (ib < n0) || l2.bad.count(i))
                continue;
            try {
                SS.add(apply(op, SS.S[ia].e, SS.S[ib].e), l2.desc(i), 2);
            } catch (std::exception &) {
            }
        }
        sync_vals();
        const long long n2 = SS.size();
        Rn.counters["states_S2'"] = n2;
        CaseSet l3;
        l3.name = "L3:op(S2',S0)+op(S0,S2')";
        l3.n = (n2 - n1) * n0 * NBIN * 2;
        l3.counter_names = cn;
        l3.hang_s = 8;
        auto dec3 = [&](long long i, int &op, int &ia, int &ib) {
            op = i % NBIN;
            long long j = i / NBIN;
            int dir = j % 2;
            j /= 2;
            int leaf = j % n0;
            int big = n1 + j / n0;
            ia = dir ? leaf : big;
            ib = dir ? big : leaf;
        };
        l3.desc = [&](long long i) {
            int op, ia, ib;
            dec3(i, op, ia, ib);
            return std::string(OPN[op]) + "(" + SS.S[ia].recipe + ", " + SS.S[ib].recipe + ")";
        };
        l3.body = [&](long long i, Ctx &c) {
            int op, ia, ib;
            dec3(i, op, ia, ib);
            check_transition(op, ia, ib, c);
        };
        run_cases(l3);
        bound += "; plus op(S2',S0), op(S0,S2') with |S2'|=" + std::to_string(n2 - n1);
    }
    Rn.states = SS.size();
    Rn.transitions = Rn.evaluations;
    Rn.bound_completed = bound;
    Rn.rule = "E1: leaves {0,+-1,+-2,3,-8,+-1/2,2/3,-3/2,I,1+I,0.5,-2.0,pi,E,x,y}(+4 thorough); ops add,sub,mul,div,pow,neg,sqrt,cbrt; every "
              "transition r=op(a,b) is checked locally: RefEval(r)(p) == sem(op)(RefEval(a)(p),RefEval(b)(p)) at 4 fixed complex grid points in "
              "113-bit arithmetic (tolerance 1e-25 relative to the largest intermediate, 1e-9 with float leaves; on-cut operands evaluated on "
              "both sides). distinct_nontrivial = transitions whose result is not the plain 2-argument node of the operator (a rewrite fired)";
    Rn.assumptions = {"libquadmath complex elementary functions", "principal branch with arg(negative real)=+pi",
                      "results of class zoo/nan/oo are judged by C06, not here", "values outside the leaf alphabet are not covered"};
    return Rn.finish();
}
