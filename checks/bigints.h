// bigints.h -- integers at the representation boundaries the library's code branches on: fits-in-int / long /
// unsigned long / one limb / two limbs, and the decimal digit counts around LONG_MAX (strtol fast paths).
// One value on each side of every boundary, both signs.  (Added after the second-wave seeds C16b / C19b, which
// mis-parse exactly the 19-digit integers above LONG_MAX, escaped alphabets made of small integers and 10^40.)
#ifndef VERIF_BIGINTS_H
#define VERIF_BIGINTS_H
#include <symengine/integer.h>
#include <vector>
#include <string>
#include <sstream>
namespace verif
{
inline std::vector<SymEngine::integer_class> boundary_integers(bool both_signs = true)
{
    using SymEngine::integer_class;
    std::vector<integer_class> v;
    auto around = [&](const integer_class &b) {
        v.push_back(b - 1);
        v.push_back(b);
        v.push_back(b + 1);
    };
    integer_class two(2), ten(10), p;
    for (unsigned k : {31u, 32u, 63u, 64u, 128u}) {
        SymEngine::mp_pow_ui(p, two, k);
        around(p);
    }
    for (unsigned k : {9u, 10u, 18u, 19u, 20u}) {
        SymEngine::mp_pow_ui(p, ten, k);
        around(p);
    }
    v.push_back(integer_class("9999999999999999999") / 7 * 7 + 2); // a 19-digit value above LONG_MAX that is not next to a power
    v.push_back(integer_class("12345678901234567890123456789012345678901234567890"));
    if (both_signs) {
        size_t n = v.size();
        for (size_t i = 0; i < n; i++)
            v.push_back(-v[i]);
    }
    return v;
}
inline std::string bstr(const SymEngine::integer_class &i)
{
    std::ostringstream o; // the backend's own decimal conversion, not the library's printer
    o << i;
    return o.str();
}
} // namespace verif
#endif
