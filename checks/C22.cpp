// C22  Multivariate polynomial arithmetic is correct -- E5 finite tables vs monomial dictionaries over the
// union of the variables (DESIGN 5 C22).  MIntPoly / MExprPoly over all variable sets <= {x,y,z}: all ordered
// pairs x {add, sub, mul}; unary {neg, pow, eval, as_symbolic, from_basic, from_dict permutations};
// expression alphabet x from_basic variants.  Results are compared by VALUE (dictionary over (x,y,z)) and by
// variable set (= union), never through eq/hash (those belong to C01).
#include "common.h"
#include "key.h"
#include "a2_polymodel.h"
using namespace verif;
using namespace a2;

enum {
    K_ADD, K_SUB, K_MUL, K_NEG, K_POW, K_POW0, K_POW0_QUARANTINED, K_EVAL, K_ASSYM, K_FB_OK, K_FB_REFUSED_EXPECTED, K_FB_REFUSED_ALLOWED,
    K_FB_AUTOGEN_NOT_JUDGED, K_FROMDICT_PERM, K_EXPR_UNSIMPL_ZERO, K_GUARDED, K_GUARDED_BAD, K_PAIR_EQUAL_SETS, K_PAIR_DISJOINT_SETS,
    K_PAIR_OVERLAPPING_SETS, K_PAIR_NESTED_SETS, K_PAIR_WITH_EMPTY_SET, K_NCOUNTERS
};
static const std::vector<std::string> CN
    = {"add_checked", "sub_checked", "mul_checked", "neg_checked", "pow_checked", "pow0_checked", "pow0_quarantined_after_probe_hang",
       "eval_checked", "as_symbolic_checked", "from_basic_ok", "from_basic_refused_as_expected", "from_basic_refused_allowed_not_judged",
       "from_basic_autogen_not_judged", "from_dict_permutations_checked", "expr_coefficient_mathematically_zero_not_simplified",
       "guarded_ops", "guarded_ops_crash_or_hang", "pairs_equal_varsets", "pairs_disjoint_varsets", "pairs_overlapping_varsets",
       "pairs_nested_varsets", "pairs_with_empty_varset"};

static RCP<const Symbol> VX[3], A;
static const char *VN[3] = {"x", "y", "z"};

template <class P>
struct Tr;
template <>
struct Tr<MIntPoly> {
    typedef mpz_class K;
    typedef integer_class Cf;
    typedef vec_uint Vec;
    typedef umap_uvec_mpz Dict;
    static const int id = 0;
    static const char *name()
    {
        return "MIntPoly";
    }
    static bool model(const Cf &c, K &o)
    {
        o = Z(c);
        return true;
    }
    static bool szero(const Cf &c)
    {
        return c == 0;
    }
    static bool same_coef(const Cf &c, const K &k)
    {
        return Z(c) == k;
    }
};
template <>
struct Tr<MExprPoly> {
    typedef PolyA K;
    typedef Expression Cf;
    typedef vec_int Vec;
    typedef umap_vec_expr Dict;
    static const int id = 1;
    static const char *name()
    {
        return "MExprPoly";
    }
    static bool model(const Cf &c, K &o)
    {
        return walk_expr(*c.get_basic(), o);
    }
    static bool szero(const Cf &c)
    {
        return c == 0;
    }
    static bool same_coef(const Cf &c, const K &k)
    {
        K o;
        return walk_expr(*c.get_basic(), o) && !kzero(o) && o == k;
    }
};

static std::string maskstr(unsigned m)
{
    std::string o = "{";
    for (int v = 0; v < 3; v++)
        if (m & (1u << v))
            o += std::string(o.size() > 1 ? "," : "") + VN[v];
    return o + "}";
}
static vec_basic varvec(unsigned mask)
{
    vec_basic v;
    for (int i = 0; i < 3; i++)
        if (mask & (1u << i))
            v.push_back(VX[i]);
    return v;
}
static set_basic varset(unsigned mask)
{
    set_basic s;
    for (int i = 0; i < 3; i++)
        if (mask & (1u << i))
            s.insert(VX[i]);
    return s;
}

template <class P>
struct Alpha {
    typedef typename Tr<P>::K K;
    typedef typename Tr<P>::Cf Cf;
    std::vector<std::pair<Cf, K>> coef;
    struct E {
        RCP<const P> p;
        MM<K> m;
        unsigned mask;
        std::vector<std::pair<Mono, int>> terms; // (exponents over x,y,z; coefficient index)
    };
    std::vector<E> S;
    // build the library object through the public from_dict with the variables listed in `order`
    RCP<const P> make(unsigned mask, const std::vector<std::pair<Mono, int>> &terms, const std::vector<int> &order) const
    {
        vec_basic v;
        for (int i : order)
            v.push_back(VX[i]);
        typename Tr<P>::Dict d;
        for (auto &t : terms) {
            typename Tr<P>::Vec e;
            for (int i : order)
                e.push_back(t.first[i]);
            d[e] = coef[t.second].first;
        }
        (void)mask;
        return P::from_dict(v, std::move(d));
    }
    static std::vector<int> natural(unsigned mask)
    {
        std::vector<int> o;
        for (int i = 0; i < 3; i++)
            if (mask & (1u << i))
                o.push_back(i);
        return o;
    }
    void push(unsigned mask, const std::vector<std::pair<Mono, int>> &terms)
    {
        E e;
        e.mask = mask;
        e.terms = terms;
        for (auto &t : terms)
            e.m.t[t.first] = coef[t.second].second;
        e.p = make(mask, terms, natural(mask));
        S.push_back(e);
    }
    // every polynomial with <= 2 terms, exponents <= maxe, over every variable set; single terms use coefficient
    // indices [0,n1), two-term polynomials [0,n2)
    void build(int maxe, int n1, int n2, int mine = 0)
    {
        for (unsigned mask = 0; mask < 8; mask++) {
            std::vector<Mono> monos;
            for (int ex = ((mask & 1) ? mine : 0); ex <= ((mask & 1) ? maxe : 0); ex++)
                for (int ey = ((mask & 2) ? mine : 0); ey <= ((mask & 2) ? maxe : 0); ey++)
                    for (int ez = ((mask & 4) ? mine : 0); ez <= ((mask & 4) ? maxe : 0); ez++)
                        monos.push_back(Mono{ex, ey, ez});
            push(mask, {});
            for (auto &m : monos)
                for (int a = 0; a < n1; a++)
                    push(mask, {{m, a}});
            for (size_t i = 0; i < monos.size(); i++)
                for (size_t j = i + 1; j < monos.size(); j++)
                    for (int a = 0; a < n2; a++)
                        for (int b = 0; b < n2; b++)
                            push(mask, {{monos[i], a}, {monos[j], b}});
        }
    }
};
static Alpha<MIntPoly> AI;
static Alpha<MExprPoly> AE;
static Alpha<MExprPoly> AN; // MExprPoly with NEGATIVE exponents (signed exponent vectors): pair operations only
static bool pow0_bad[2] = {false, false};

// ---------------------------------------------------------------- lib -> model
template <class P>
static bool to_model(const P &p, MM<typename Tr<P>::K> &out, unsigned &mask, Ctx &c, std::string &why)
{
    typedef typename Tr<P>::K K;
    out = MM<K>();
    mask = 0;
    std::vector<int> idx;
    for (auto &v : p.get_vars()) {
        int k = -1;
        if (is_a<Symbol>(*v))
            for (int i = 0; i < 3; i++)
                if (down_cast<const Symbol &>(*v).get_name() == VN[i])
                    k = i;
        if (k < 0) {
            why = "generator " + sstr(v) + " is not one of x,y,z";
            return false;
        }
        if (mask & (1u << k)) {
            why = "generator listed twice";
            return false;
        }
        mask |= 1u << k;
        idx.push_back(k);
    }
    if (p.get_poly().vec_size != idx.size()) {
        why = "vec_size " + std::to_string(p.get_poly().vec_size) + " != number of generators " + std::to_string(idx.size());
        return false;
    }
    for (auto &kv : p.get_poly().dict_) {
        if (kv.first.size() != idx.size()) {
            why = "exponent vector of length " + std::to_string(kv.first.size()) + " for " + std::to_string(idx.size()) + " generators";
            return false;
        }
        if (Tr<P>::szero(kv.second)) {
            why = "zero coefficient stored";
            return false;
        }
        Mono m{0, 0, 0};
        for (size_t i = 0; i < idx.size(); i++) {
            if ((long long)kv.first[i] < -1000000 || (long long)kv.first[i] > 1000000) {
                why = "exponent out of range: " + std::to_string((long long)kv.first[i]);
                return false;
            }
            m[idx[i]] = (int)kv.first[i];
        }
        K k;
        if (!Tr<P>::model(kv.second, k)) {
            why = "coefficient is not a polynomial in a";
            return false;
        }
        if (kzero(k)) {
            c.count(K_EXPR_UNSIMPL_ZERO);
            continue;
        }
        if (out.t.count(m)) {
            why = "monomial stored twice";
            return false;
        }
        out.t[m] = k;
    }
    return true;
}
template <class P>
static std::string sig(const char *op, const std::string &cls)
{
    return std::string(op) + ":" + Tr<P>::name() + ":" + cls;
}
template <class P>
static bool check_poly(Ctx &c, const char *op, const std::string &cls, const RCP<const P> &r, const MM<typename Tr<P>::K> &want,
                       unsigned wantmask, const std::string &what)
{
    MM<typename Tr<P>::K> got;
    unsigned mask;
    std::string why;
    if (!to_model(*r, got, mask, c, why)) {
        c.violation(sig<P>(op, "malformed-result"), what + " -> " + why + "; model " + want.str());
        return false;
    }
    if (!(got == want)) {
        c.violation(sig<P>(op, cls), what + " -> library " + got.str() + " over " + maskstr(mask) + "; monomial-dictionary model " + want.str());
        return false;
    }
    if (mask != wantmask) {
        c.violation(sig<P>(op, "wrong-varset"), what + " -> value is right but the generators are " + maskstr(mask) + "; expected " + maskstr(wantmask));
        return false;
    }
    return true;
}
// allocation-light agreement test for the hot pair table; any disagreement goes to check_poly for the verdict
template <class P>
static bool fast_same(const P &r, const MM<typename Tr<P>::K> &want, unsigned wantmask)
{
    int idx[3], n = 0;
    unsigned mask = 0;
    for (auto &v : r.get_vars()) {
        if (n >= 3 || !is_a<Symbol>(*v))
            return false;
        const std::string &nm = down_cast<const Symbol &>(*v).get_name();
        int k = nm == "x" ? 0 : nm == "y" ? 1 : nm == "z" ? 2 : -1;
        if (k < 0)
            return false;
        idx[n++] = k;
        mask |= 1u << k;
    }
    const auto &d = r.get_poly().dict_;
    if (mask != wantmask || r.get_poly().vec_size != (unsigned)n || d.size() != want.t.size())
        return false;
    for (auto &kv : d) {
        if (kv.first.size() != (size_t)n)
            return false;
        Mono m{0, 0, 0};
        for (int i = 0; i < n; i++)
            m[idx[i]] = (int)kv.first[i];
        auto it = want.t.find(m);
        if (it == want.t.end() || !Tr<P>::same_coef(kv.second, it->second))
            return false;
    }
    return true;
}

// ---------------------------------------------------------------- pairs
template <class P>
static void pair_body(const Alpha<P> &AL, long long i, Ctx &c)
{
    typedef typename Tr<P>::K K;
    cap_memory_once();
    const long long N = AL.S.size();
    const auto &ea = AL.S[i / N], &eb = AL.S[i % N];
    const P &a = *ea.p, &b = *eb.p;
    const unsigned um = ea.mask | eb.mask;
    if (!ea.m.t.empty() && !eb.m.t.empty() && ea.mask != eb.mask)
        c.nontrivial();
    if (ea.mask == eb.mask)
        c.count(K_PAIR_EQUAL_SETS);
    else if (ea.mask == 0 || eb.mask == 0)
        c.count(K_PAIR_WITH_EMPTY_SET);
    else if ((ea.mask & eb.mask) == 0)
        c.count(K_PAIR_DISJOINT_SETS);
    else if ((ea.mask & eb.mask) == ea.mask || (ea.mask & eb.mask) == eb.mask)
        c.count(K_PAIR_NESTED_SETS);
    else
        c.count(K_PAIR_OVERLAPPING_SETS);
    auto what = [&] { return "a = " + ea.m.str() + " over " + maskstr(ea.mask) + ", b = " + eb.m.str() + " over " + maskstr(eb.mask); };
    char ob[96];
    for (int op = 0; op < 3; op++) {
        const char *on = op == 0 ? "add_mpoly" : op == 1 ? "sub_mpoly" : "mul_mpoly";
        try {
            MM<K> w = op == 0 ? madd(ea.m, eb.m) : op == 1 ? msub(ea.m, eb.m) : mmul(ea.m, eb.m);
            RCP<const P> r = op == 0 ? add_mpoly(a, b) : op == 1 ? sub_mpoly(a, b) : mul_mpoly(a, b);
            c.eval();
            c.count(op == 0 ? K_ADD : op == 1 ? K_SUB : K_MUL);
            if (!fast_same(*r, w, um))
                check_poly<P>(c, on, "wrong", r, w, um, std::string(on) + "(" + what() + ")");
            snprintf(ob, sizeof ob, "%s:%s:%u+%u:t%zu", on, Tr<P>::name(), ea.mask, eb.mask, w.t.size());
            c.outcome(ob);
            if (op == 2 && i % 50021 == 0)
                c.sample("{\"op\":\"mul_mpoly\",\"type\":" + jstr(Tr<P>::name()) + ",\"a\":" + jstr(ea.m.str()) + ",\"a_vars\":" + jstr(maskstr(ea.mask))
                         + ",\"b\":" + jstr(eb.m.str()) + ",\"b_vars\":" + jstr(maskstr(eb.mask)) + ",\"model\":" + jstr(w.str()) + "}");
        } catch (std::exception &e) {
            c.violation(sig<P>(on, "throws"), std::string(on) + "(" + what() + ") throws " + e.what());
        }
    }
}

// ---------------------------------------------------------------- unary
template <class P>
static void pow_check(Ctx &c, const P &p, const MM<typename Tr<P>::K> &m, unsigned mask, unsigned e, const std::string &what)
{
    typedef typename Tr<P>::K K;
    try {
        MM<K> w = mpow(m, e);
        RCP<const P> r = pow_mpoly(p, e);
        c.eval();
        c.count(e == 0 ? K_POW0 : K_POW);
        check_poly<P>(c, "pow_mpoly", e == 0 ? "exp0-wrong" : "wrong", r, w, mask, "pow_mpoly(" + what + ", " + std::to_string(e) + ")");
        c.outcome(std::string("pow:") + Tr<P>::name() + ":" + std::to_string(e) + ":t" + std::to_string(w.t.size()));
    } catch (std::exception &x) {
        c.violation(sig<P>("pow_mpoly", "throws"), "pow_mpoly(" + what + ", " + std::to_string(e) + ") throws " + x.what());
    }
}
static bool eval_lib(const MIntPoly &p, const mpz_class v[3], mpz_class &out)
{
    std::map<RCP<const Basic>, integer_class, RCPBasicKeyLess> vals;
    for (int i = 0; i < 3; i++)
        vals[VX[i]] = LZ(v[i]);
    out = Z(p.eval(vals));
    return true;
}
static RCP<const Basic> expr_of(const PolyA &k)
{
    RCP<const Basic> r = zero;
    for (auto &kv : k.t)
        r = add(r, mul(Rational::from_mpq(LQ(kv.second)), pow(A, integer(kv.first))));
    return r;
}
static bool eval_lib(const MExprPoly &p, const PolyA v[3], PolyA &out)
{
    std::map<RCP<const Basic>, Expression, RCPBasicKeyLess> vals;
    for (int i = 0; i < 3; i++)
        vals[VX[i]] = Expression(expr_of(v[i]));
    Expression r = p.eval(vals);
    return walk_expr(*r.get_basic(), out);
}
template <class K>
static std::vector<std::array<K, 3>> eval_points();
template <>
std::vector<std::array<mpz_class, 3>> eval_points<mpz_class>()
{
    return {{{2, 3, 5}}, {{-1, 0, 1}}, {{0, 0, 0}}, {{mpz_class("4294967296"), -7, 1}}};
}
template <>
std::vector<std::array<PolyA, 3>> eval_points<PolyA>()
{
    return {{{PolyA(2), PolyA(3), PolyA(5)}}, {{PolyA(-1), PolyA(0), PolyA(1)}}, {{PolyA::sym(), PolyA(2), PolyA::sym() + PolyA(1)}}};
}

template <class P>
static void symbolic_check(Ctx &c, const RCP<const P> &p, const MM<typename Tr<P>::K> &m, unsigned mask, const std::string &what)
{
    RCP<const Basic> s;
    try {
        s = p->as_symbolic();
        c.eval();
        c.count(K_ASSYM);
    } catch (std::exception &e) {
        c.violation(sig<P>("as_symbolic", "throws"), "as_symbolic(" + what + ") throws " + e.what());
        return;
    }
    MM<PolyA> mm, me;
    for (auto &kv : m.t)
        me.t[kv.first] = PolyA(kv.second);
    if (!walk(*s, mm)) {
        c.violation(sig<P>("as_symbolic", "not-a-polynomial"), "as_symbolic(" + what + ") = " + sstr(s) + " is not a polynomial expression");
        return;
    }
    if (!(mm == me)) {
        c.violation(sig<P>("as_symbolic", "wrong"), "as_symbolic(" + what + ") = " + sstr(s) + " has value " + mm.str() + "; model " + me.str());
        return;
    }
    try {
        set_basic gens = varset(mask);
        RCP<const P> back = from_basic<P>(s, gens);
        c.eval();
        c.count(K_FB_OK);
        check_poly<P>(c, "from_basic(as_symbolic)", "wrong", back, m, mask, "from_basic(as_symbolic(" + what + ") = " + sstr(s) + ", " + maskstr(mask) + ")");
    } catch (std::exception &e) {
        c.violation(sig<P>("from_basic(as_symbolic)", "throws"), "from_basic(as_symbolic(" + what + ") = " + sstr(s) + ", gens) throws " + e.what());
    }
}

template <class P>
static void unary_body(const Alpha<P> &AL, long long i, Ctx &c)
{
    typedef typename Tr<P>::K K;
    cap_memory_once();
    const auto &e = AL.S[i];
    const RCP<const P> &p = e.p;
    const MM<K> &m = e.m;
    std::string what = m.str() + " over " + maskstr(e.mask);
    if (!m.t.empty())
        c.nontrivial();
    // the constructor itself (from_dict sorts the generators and permutes the exponent vectors)
    check_poly<P>(c, "from_dict", "wrong", p, m, e.mask, "from_dict(" + what + ")");
    {
        std::vector<int> order = Alpha<P>::natural(e.mask);
        std::sort(order.begin(), order.end());
        do {
            try {
                RCP<const P> q = AL.make(e.mask, e.terms, order);
                c.eval();
                c.count(K_FROMDICT_PERM);
                std::string os;
                for (int k : order)
                    os += VN[k];
                check_poly<P>(c, "from_dict", "wrong-for-permuted-generators", q, m, e.mask, "from_dict(" + what + ", generators listed as " + os + ")");
            } catch (std::exception &x) {
                c.violation(sig<P>("from_dict", "throws"), "from_dict(" + what + ") throws " + x.what());
            }
        } while (std::next_permutation(order.begin(), order.end()));
    }
    try {
        RCP<const P> r = neg_mpoly(*p);
        c.eval();
        c.count(K_NEG);
        check_poly<P>(c, "neg_mpoly", "wrong", r, mneg(m), e.mask, "neg_mpoly(" + what + ")");
    } catch (std::exception &x) {
        c.violation(sig<P>("neg_mpoly", "throws"), "neg_mpoly(" + what + ") throws " + x.what());
    }
    for (unsigned k = 1; k <= 3; k++)
        pow_check<P>(c, *p, m, e.mask, k, what);
    if (pow0_bad[Tr<P>::id])
        c.count(K_POW0_QUARANTINED);
    else
        pow_check<P>(c, *p, m, e.mask, 0, what);
    for (auto &pt : eval_points<K>()) {
        try {
            K w = meval(m, pt.data()), got;
            bool ok = eval_lib(*p, pt.data(), got);
            c.eval();
            c.count(K_EVAL);
            std::string ps = "x=" + kstr(pt[0]) + ",y=" + kstr(pt[1]) + ",z=" + kstr(pt[2]);
            if (!ok)
                c.violation(sig<P>("eval", "not-a-value"), "(" + what + ").eval(" + ps + ") is not a polynomial in a");
            else if (!(got == w))
                c.violation(sig<P>("eval", "wrong"), "(" + what + ").eval(" + ps + ") = " + kstr(got) + "; model " + kstr(w));
            c.outcome(std::string("eval:") + Tr<P>::name() + ":" + (kzero(w) ? "zero" : "nonzero") + ":" + ps);
        } catch (std::exception &x) {
            c.violation(sig<P>("eval", "throws"), "(" + what + ").eval throws " + x.what());
        }
    }
    symbolic_check<P>(c, p, m, e.mask, what);
    if (i % 97 == 0)
        c.sample("{\"op\":\"unary\",\"type\":" + jstr(Tr<P>::name()) + ",\"p\":" + jstr(what) + "}");
}

// ---------------------------------------------------------------- guarded pow-0 probes
struct Special {
    std::string desc, sig;
    int type;
    std::function<void(Ctx &)> fn;
};
static std::vector<Special> SP;
template <class P>
static void build_special(const Alpha<P> &AL)
{
    const std::string tn = Tr<P>::name();
    // first entry of every mask block is the zero polynomial, coefficient index 0 is +1
    std::vector<typename Alpha<P>::E> probes;
    for (auto &e : AL.S) {
        bool one_over_empty = e.mask == 0 && e.terms.size() == 1 && e.terms[0].second == 0;
        bool zero_over_x = e.mask == 1 && e.terms.empty();
        bool x_plus_1 = e.mask == 1 && e.terms.size() == 2 && e.terms[0].second == 0 && e.terms[1].second == 0 && e.terms[0].first == Mono{0, 0, 0}
                        && e.terms[1].first == Mono{1, 0, 0};
        if (one_over_empty || zero_over_x || x_plus_1)
            probes.push_back(e);
    }
    for (auto &e : probes)
        SP.push_back({tn + ": pow_mpoly(" + e.m.str() + " over " + maskstr(e.mask) + ", 0)", "pow_mpoly:" + tn + ":exp0", Tr<P>::id,
                      [e](Ctx &c) { pow_check<P>(c, *e.p, e.m, e.mask, 0, e.m.str() + " over " + maskstr(e.mask)); }});
}
static void special_body(long long i, Ctx &c)
{
    if (i >= (long long)SP.size())
        return;
    const Special &s = SP[i];
    c.count(K_GUARDED);
    c.nontrivial();
    std::string oc = guarded(c, 1, [&] {
        try {
            s.fn(c);
        } catch (std::exception &e) {
            c.violation(s.sig + ":throws", s.desc + " throws " + e.what());
        }
    });
    c.eval();
    c.outcome("special:" + s.sig + ":" + (oc.empty() ? "returned" : oc));
    if (!oc.empty()) {
        c.count(K_GUARDED_BAD);
        c.violation(s.sig + ":" + (oc == "hang" ? "hang" : "crash"), s.desc + " -> " + oc + (oc == "hang" ? " (no result after 1 s of CPU time; address space capped at 1.5 GB)" : ""));
    }
}

// ---------------------------------------------------------------- expression alphabet
struct Ex {
    RCP<const Basic> e;
    MM<PolyA> m;
    bool has_a = false, has_rat = false;
    unsigned used = 0;
};
static std::vector<Ex> EX;
static void scan(const Basic &b, Ex &x)
{
    if (is_a<Rational>(b))
        x.has_rat = true;
    if (is_a<Symbol>(b)) {
        const std::string &n = down_cast<const Symbol &>(b).get_name();
        if (n == "a")
            x.has_a = true;
        for (int i = 0; i < 3; i++)
            if (n == VN[i])
                x.used |= 1u << i;
    }
    for (auto &y : b.get_args())
        scan(*y, x);
}
static void build_expressions(bool thorough)
{
    std::vector<RCP<const Basic>> L0 = {VX[0], VX[1], integer(2), integer(-1), A};
    if (thorough) {
        L0.push_back(VX[2]);
        L0.push_back(Rational::from_two_ints(1, 2));
    }
    std::set<std::string> seen;
    std::vector<RCP<const Basic>> all;
    auto put = [&](const RCP<const Basic> &e) {
        if (seen.insert(key(*e)).second)
            all.push_back(e);
    };
    for (auto &e : L0)
        put(e);
    size_t n0 = all.size();
    for (size_t i = 0; i < n0; i++) {
        for (size_t j = 0; j < n0; j++) {
            put(add(all[i], all[j]));
            put(mul(all[i], all[j]));
        }
        put(pow(all[i], integer(2)));
        if (thorough)
            put(pow(all[i], integer(3)));
    }
    size_t n1 = all.size();
    for (size_t i = 0; i < n1; i++) {
        for (size_t j = 0; j < n1; j++) {
            put(add(all[i], all[j]));
            put(mul(all[i], all[j]));
        }
        put(pow(all[i], integer(2)));
    }
    for (auto &e : all) {
        Ex x;
        x.e = e;
        if (!walk(*e, x.m))
            continue;
        scan(*e, x);
        EX.push_back(x);
    }
}
template <class K>
static bool representable(const MM<PolyA> &m, MM<K> &out);
template <>
bool representable<mpz_class>(const MM<PolyA> &m, MM<mpz_class> &out)
{
    out = MM<mpz_class>();
    for (auto &kv : m.t) {
        if (!kv.second.is_const() || kv.second.cst().get_den() != 1)
            return false;
        out.t[kv.first] = kv.second.cst().get_num();
    }
    return true;
}
template <>
bool representable<PolyA>(const MM<PolyA> &m, MM<PolyA> &out)
{
    out = m;
    return true;
}

template <class P>
static void conv_body(long long i, Ctx &c)
{
    typedef typename Tr<P>::K K;
    cap_memory_once();
    const Ex &x = EX[i];
    std::string what = sstr(x.e);
    MM<K> want;
    bool rep = representable<K>(x.m, want);
    c.nontrivial();
    bool must = Tr<P>::id == 0 ? (!x.has_a && !x.has_rat) : true;
    // variants: gens = {x,y,z}; gens = {x,y,z} with expand; gens = variables used by e; automatic generators
    for (int variant = 0; variant < 4; variant++) {
        const char *vn = variant == 0 ? "from_basic(e, {x,y,z})" : variant == 1 ? "from_basic(e, {x,y,z}, expand)" : variant == 2 ? "from_basic(e, used variables)" : "from_basic(e)";
        unsigned gm = variant <= 1 ? 7u : x.used;
        if (variant == 3 && x.has_a) {
            c.count(K_FB_AUTOGEN_NOT_JUDGED); // `a` becomes a generator: outside the (x,y,z) model
            continue;
        }
        RCP<const P> p;
        bool refused = false;
        std::string msg;
        try {
            set_basic gens = varset(gm);
            if (variant == 3)
                p = from_basic<P>(x.e);
            else
                p = from_basic<P>(x.e, gens, variant == 1);
            c.eval();
        } catch (SymEngineException &e) {
            refused = true;
            msg = e.what();
            c.eval();
        } catch (std::exception &e) {
            c.violation(sig<P>("from_basic", "std-exception"), std::string(vn) + " with e = " + what + " throws " + e.what());
            continue;
        }
        if (refused) {
            c.outcome(std::string("from_basic:") + Tr<P>::name() + ":v" + std::to_string(variant) + ":refused:" + msg.substr(0, 40));
            if (!rep)
                c.count(K_FB_REFUSED_EXPECTED);
            else if (must || variant == 1)
                c.violation(sig<P>("from_basic", "refuses-polynomial"), std::string(vn) + " with e = " + what + " refuses (" + msg + ") but e is the polynomial " + want.str());
            else
                c.count(K_FB_REFUSED_ALLOWED);
            continue;
        }
        c.count(K_FB_OK);
        c.outcome(std::string("from_basic:") + Tr<P>::name() + ":v" + std::to_string(variant) + ":ok:t" + std::to_string(want.t.size()));
        if (!rep) {
            c.violation(sig<P>("from_basic", "accepts-non-representable"), std::string(vn) + " with e = " + what + " returned a " + Tr<P>::name()
                                                                                + " but the value " + x.m.str() + " has coefficients outside the ring");
            continue;
        }
        if (!check_poly<P>(c, "from_basic", "wrong", p, want, gm, std::string(vn) + " with e = " + what))
            continue;
        try {
            RCP<const Basic> s = p->as_symbolic();
            c.eval();
            MM<PolyA> mm;
            if (!walk(*s, mm) || !(mm == x.m))
                c.violation(sig<P>("roundtrip", "wrong-value"), "as_symbolic(" + std::string(vn) + ") with e = " + what + " gives " + sstr(s) + "; value differs from " + x.m.str());
        } catch (std::exception &e) {
            c.violation(sig<P>("roundtrip", "throws"), "as_symbolic(" + std::string(vn) + ") with e = " + what + " throws " + e.what());
        }
    }
    if (i % 499 == 0)
        c.sample("{\"op\":\"from_basic\",\"type\":" + jstr(Tr<P>::name()) + ",\"e\":" + jstr(what) + ",\"model\":" + jstr(x.m.str()) + "}");
}

// ---------------------------------------------------------------- driver
template <class P>
static void run_type(const Alpha<P> &AL, uint64_t &states)
{
    const long long N = AL.S.size();
    states += N;
    const std::string tn = Tr<P>::name();
    {
        CaseSet cs;
        cs.name = "unary:" + tn;
        cs.n = N;
        cs.counter_names = CN;
        cs.hang_s = 300; // wall-clock backstop only (machine may be heavily loaded); real hang classes are probed under a CPU-time limit
        cs.desc = [&](long long i) { return tn + " unary operations on p = " + AL.S[i].m.str() + " over " + maskstr(AL.S[i].mask); };
        cs.crash_sig = [&](long long, const std::string &oc) { return "unary:" + tn + ":" + oc; };
        cs.body = [&](long long i, Ctx &c) { unary_body<P>(AL, i, c); };
        run_cases(cs);
    }
    if (past_deadline())
        return;
    {
        CaseSet cs;
        cs.name = "conv:" + tn;
        cs.n = EX.size();
        cs.counter_names = CN;
        cs.hang_s = 300; // wall-clock backstop only (machine may be heavily loaded); real hang classes are probed under a CPU-time limit
        cs.desc = [&](long long i) { return tn + " from_basic/as_symbolic of e = " + sstr(EX[i].e); };
        cs.crash_sig = [&](long long, const std::string &oc) { return "conv:" + tn + ":" + oc; };
        cs.body = [&](long long i, Ctx &c) { conv_body<P>(i, c); };
        run_cases(cs);
    }
    if (past_deadline())
        return;
    {
        CaseSet cs;
        cs.name = "pairs:" + tn;
        cs.n = N * N;
        cs.counter_names = CN;
        cs.hang_s = 300; // wall-clock backstop only (machine may be heavily loaded); real hang classes are probed under a CPU-time limit
        cs.desc = [&](long long i) {
            return tn + " a = " + AL.S[i / N].m.str() + " over " + maskstr(AL.S[i / N].mask) + ", b = " + AL.S[i % N].m.str() + " over " + maskstr(AL.S[i % N].mask);
        };
        cs.crash_sig = [&](long long, const std::string &oc) { return "pairs:" + tn + ":" + oc; };
        cs.body = [&](long long i, Ctx &c) { pair_body<P>(AL, i, c); };
        run_cases(cs);
    }
}

int main(int argc, char **argv)
{
    init(argc, argv, "C22");
    const bool thorough = opts().thorough();
    for (int i = 0; i < 3; i++)
        VX[i] = symbol(VN[i]);
    A = symbol("a");
    AI.coef = {{integer_class(1), mpz_class(1)}, {integer_class(-1), mpz_class(-1)}, {integer_class(2), mpz_class(2)}};
    AI.build(thorough ? 2 : 1, 3, 2);
    auto EXP = [](const RCP<const Basic> &b) {
        PolyA k;
        if (!walk_expr(*b, k)) {
            fprintf(stderr, "alphabet coefficient not modelled\n");
            exit(2);
        }
        return std::make_pair(Expression(b), k);
    };
    AE.coef = {EXP(one), EXP(A), EXP(neg(A)), EXP(add(A, one))};
    AE.build(1, thorough ? 4 : 3, thorough ? 3 : 2);
    // Laurent monomials: exponents in {-1,0,1} (a single term whose exponents cancel in the sum, x*y**-1, is what the seeded
    // change C22 -- "constant" fast path of operator*= testing the exponent SUM -- needed; the non-negative alphabet missed it)
    AN.coef = AE.coef;
    AN.build(1, 2, 1, -1);
    build_expressions(thorough);
    build_special(AI);
    build_special(AE);
    {
        CaseSet cs;
        cs.name = "special";
        cs.n = std::max<long long>(64, SP.size());
        cs.counter_names = CN;
        cs.hang_s = 900; // wall backstop; the guarded probes are limited by CPU time
        cs.desc = [&](long long i) { return i < (long long)SP.size() ? SP[i].desc : std::string("(padding)"); };
        cs.crash_sig = [&](long long i, const std::string &oc) { return (i < (long long)SP.size() ? SP[i].sig : std::string("special")) + ":" + oc; };
        cs.body = [&](long long i, Ctx &c) { special_body(i, c); };
        run_cases(cs);
        if (!replaying()) {
            for (long long i : cs.bad)
                if (i < (long long)SP.size())
                    pow0_bad[SP[i].type] = true;
        } else if (opts().only_check != "special") {
            Shared sh;
            memset((void *)&sh, 0, sizeof sh);
            for (auto &s : SP) {
                Ctx c;
                c.sh = &sh;
                c.out = tmpfile();
                std::string oc = guarded(c, 1, [&] {
                    try {
                        s.fn(c);
                    } catch (std::exception &) {
                        c.violation("x", "x");
                    }
                });
                fseek(c.out, 0, SEEK_END);
                bool bad = !oc.empty() || ftell(c.out) > 0;
                fclose(c.out);
                if (bad)
                    pow0_bad[s.type] = true;
            }
        }
    }
    uint64_t states = EX.size();
    run_type(AE, states);
    if (!past_deadline())
        run_type(AI, states);
    if (!past_deadline()) {
        // Laurent MExprPoly: all ordered pairs x {add, sub, mul} only (eval/as_symbolic of negative exponents are not modelled)
        const long long N = AN.S.size();
        states += N;
        CaseSet cs;
        cs.name = "pairs-negexp:MExprPoly";
        cs.n = N * N;
        cs.counter_names = CN;
        cs.hang_s = 300;
        cs.desc = [&](long long i) {
            return "MExprPoly(negative exponents) a = " + AN.S[i / N].m.str() + " over " + maskstr(AN.S[i / N].mask) + ", b = " + AN.S[i % N].m.str() + " over "
                   + maskstr(AN.S[i % N].mask);
        };
        cs.crash_sig = [&](long long, const std::string &oc) { return "pairs-negexp:MExprPoly:" + oc; };
        cs.body = [&](long long i, Ctx &c) { pair_body<MExprPoly>(AN, i, c); };
        run_cases(cs);
        run().counters["alphabet_MExprPoly_negative_exponents"] = N;
    }

    Run &R = run();
    R.states = states;
    R.transitions = R.evaluations;
    R.counters["quarantine_pow0_MIntPoly"] = pow0_bad[0];
    R.counters["quarantine_pow0_MExprPoly"] = pow0_bad[1];
    R.counters["alphabet_MIntPoly"] = AI.S.size();
    R.counters["alphabet_MExprPoly"] = AE.S.size();
    R.counters["alphabet_expressions"] = EX.size();
    R.bound_completed = "MIntPoly: " + std::to_string(AI.S.size()) + " polynomials (all 8 variable sets <= {x,y,z}, <=2 terms, exponents <= " + (thorough ? "2" : "1")
                        + ", coefficients {1,-1,2} / {1,-1}), all ordered pairs (all 64 pairs of variable sets); MExprPoly: " + std::to_string(AE.S.size())
                        + " polynomials (exponents <= 1, coefficients {1,a,-a,a+1}), all ordered pairs; " + std::to_string(AN.S.size())
                        + " Laurent MExprPoly (exponents in {-1,0,1}), all ordered pairs x {add,sub,mul}; " + std::to_string(EX.size())
                        + " expressions (depth<=2) x 2 types x 4 from_basic variants";
    R.rule = "every ordered pair of the polynomial alphabet (equal, nested, overlapping, disjoint, empty variable sets) x {add,sub,mul}; every polynomial x {from_dict with "
             "every listing order of the generators, neg, pow 0..3, eval at 3-4 points, as_symbolic, from_basic(as_symbolic)}; every expression x from_basic "
             "{gens={x,y,z}, with expand, gens=used variables, automatic}; pow-0 probes run guarded (fork, 1 s CPU, 1.5 GB). Oracle: std::map monomial "
             "dictionary over (x,y,z) with GMP / polynomial-in-a coefficients, result generators must equal the union; independent tree walker. "
             "distinct_nontrivial = pairs of non-zero polynomials over DIFFERENT variable sets, non-zero polynomials (unary), expressions";
    R.assumptions = {"GMP arithmetic is correct", "add/mul/pow on the small expression alphabet are trusted constructors (C07)",
                     "comparison is by value over the union of variables, not by eq/hash (C01 covers those)",
                     "an Expression coefficient that is mathematically zero but not structurally zero is counted, not judged",
                     "pow_mpoly(p,0) is skipped in the unary table only after a guarded probe of the same class has hung/crashed in this run"};
    return R.finish();
}
