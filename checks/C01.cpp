// C01  Equal expressions always have equal hashes -- wide universe, ALL ordered pairs (DESIGN 5 C01)
#include "universe.h"
using namespace verif;

static std::string shortcls(const Basic &e)
{
    std::string k = key(e);
    if (k.size() <= 48)
        return k;
    return type_code_name(e.get_type_code()) + "(...)";
}
// descend to the innermost sub-pair that is still eq with different hashes
static void shrink(RCP<const Basic> &a, RCP<const Basic> &b)
{
    for (int depth = 0; depth < 8; depth++) {
        if (a->get_type_code() != b->get_type_code())
            return;
        vec_basic xa = a->get_args(), xb = b->get_args();
        if (xa.size() != xb.size() || xa.empty())
            return;
        bool moved = false;
        for (size_t i = 0; i < xa.size() && !moved; i++)
            for (size_t j = 0; j < xb.size() && !moved; j++) {
                bool e = false;
                try {
                    e = eq(*xa[i], *xb[j]) && xa[i]->hash() != xb[j]->hash();
                } catch (...) {
                }
                if (e) {
                    a = xa[i];
                    b = xb[j];
                    moved = true;
                }
            }
        if (!moved)
            return;
    }
}

int main(int argc, char **argv)
{
    init(argc, argv, "C01");
    Universe W = build_universe(opts().thorough());
    std::vector<UEntry> &U = W.U;
    const long long n = U.size();
    Run &R = run();
    R.counters["universe_size"] = n;
    R.counters["universe_build_failures(constructor threw)"] = W.build_failures;
    std::set<std::string> keys, types;
    for (auto &u : U) {
        keys.insert(u.key);
        types.insert(type_code_name(u.e->get_type_code()));
    }
    R.counters["distinct_structural_keys"] = keys.size();
    R.counters["distinct_type_codes"] = types.size();

    CaseSet cs;
    cs.name = "pairs";
    cs.n = n * n;
    cs.counter_names = {"eq_true_pairs", "eq_true_pairs_distinct_objects", "same_key_but_not_eq(NaN-like; not a C01 matter)",
                        "eq_true_with_different_keys(different construction/representation)", "eq_threw"};
    cs.desc = [&](long long i) { return "(" + U[i / n].recipe + " , " + U[i % n].recipe + ")"; };
    cs.crash_sig = [&](long long i, const std::string &oc) {
        return "eq/hash:" + oc + ":(" + type_code_name(U[i / n].e->get_type_code()) + "," + type_code_name(U[i % n].e->get_type_code()) + ")";
    };
    cs.body = [&](long long i, Ctx &c) {
        const UEntry &a = U[i / n], &b = U[i % n];
        c.eval();
        bool e1, e2;
        try {
            e1 = eq(*a.e, *b.e);
            e2 = eq(*b.e, *a.e);
        } catch (std::exception &x) {
            c.count(4);
            c.violation("eq-throws:(" + type_code_name(a.e->get_type_code()) + "," + type_code_name(b.e->get_type_code()) + ")",
                        "eq(" + a.recipe + ", " + b.recipe + ") throws " + x.what());
            return;
        }
        if (a.e.get() != b.e.get())
            c.nontrivial();
        if (e1 != e2)
            c.violation("eq-asymmetric:(" + shortcls(*a.e) + "," + shortcls(*b.e) + ")", "eq(a,b)=" + std::to_string(e1) + " but eq(b,a)=" + std::to_string(e2)
                                                                                              + " for a=" + a.recipe + " b=" + b.recipe);
        if (a.key == b.key && !e1)
            c.count(2);
        if (e1) {
            c.count(0);
            if (a.e.get() != b.e.get())
                c.count(1);
            if (a.key != b.key)
                c.count(3);
            hash_t ha = a.e->hash(), hb = b.e->hash();
            c.outcome(type_code_name(a.e->get_type_code()) + (a.key != b.key ? ":eq-diffkey" : ":eq"));
            if (ha != hb) {
                RCP<const Basic> sa = a.e, sb = b.e;
                shrink(sa, sb);
                std::string s1 = shortcls(*sa), s2 = shortcls(*sb);
                if (s2 < s1)
                    std::swap(s1, s2);
                c.violation("eq-but-hash-differs:(" + s1 + " , " + s2 + ")",
                            "eq(" + a.recipe + ", " + b.recipe + ") is true but hashes are " + std::to_string(ha) + " and " + std::to_string(hb)
                                + " [keys " + a.key.substr(0, 120) + " | " + b.key.substr(0, 120) + "]");
            }
            if (i % 7919 == 0 || (a.key != b.key && i % 97 == 0))
                c.sample("{\"a\":" + jstr(a.recipe) + ",\"b\":" + jstr(b.recipe) + ",\"eq\":true,\"hash_equal\":" + (ha == hb ? "true" : "false") + "}");
        } else
            c.outcome("neq");
    };
    run_cases(cs);

    // ---- consequence: hash containers hold one entry per eq-class, for three insertion orders
    if (!past_deadline() && !replaying()) {
        std::vector<int> parent(n);
        std::iota(parent.begin(), parent.end(), 0);
        std::function<int(int)> find = [&](int v) { return parent[v] == v ? v : parent[v] = find(parent[v]); };
        for (long long i = 0; i < n; i++)
            for (long long j = i + 1; j < n; j++) {
                if (cs.bad.count(i * n + j) || cs.bad.count(j * n + i))
                    continue;
                bool e = false;
                try {
                    e = eq(*U[i].e, *U[j].e);
                } catch (...) {
                }
                if (e)
                    parent[find(i)] = find(j);
            }
        std::set<int> classes;
        for (long long i = 0; i < n; i++)
            classes.insert(find(i));
        R.counters["eq_classes(brute force union-find)"] = classes.size();
        for (int order = 0; order < 3; order++) {
            uset_basic us;
            umap_basic_num um;
            for (long long t = 0; t < n; t++) {
                long long i = order == 0 ? t : order == 1 ? n - 1 - t : (t % 2 ? n - 1 - t / 2 : t / 2);
                us.insert(U[i].e);
                um.insert({U[i].e, one});
            }
            R.evaluations += 2 * n;
            if (us.size() != classes.size() || um.size() != classes.size()) {
                // attribute to pair findings when every surplus entry is explained by a known hash-differs pair
                R.violation("container:uset/umap-size!=eq-classes", "container", order,
                            "inserting the universe (order " + std::to_string(order) + ") into uset_basic/umap_basic_num gives "
                                + std::to_string(us.size()) + "/" + std::to_string(um.size()) + " entries but there are "
                                + std::to_string(classes.size()) + " eq-classes");
            }
        }
    }
    R.states = n;
    R.transitions = R.evaluations;
    R.bound_completed = "all ordered pairs of a universe of " + std::to_string(n) + " expressions (" + std::to_string(types.size())
                        + " type codes; leaves of every kind + n<=1 closure over a 19-element core alphabet)";
    R.rule = "universe = one or more instances of every expression kind the API produces (numbers incl. signed zeros/NaN payloads/multi-limb "
             "integers whose low limbs collide, symbols, dummies, constants, every function class, relationals, booleans, Piecewise, sets, "
             "polynomials over different variable sets, series, tuples, matrix expressions) plus add/mul/pow/sin/f/FiniteSet/neg over a core "
             "alphabet so equal values arrive along different construction paths; check eq symmetric and eq => equal hash on ALL ordered "
             "pairs; hash containers hold one entry per eq-class. distinct_nontrivial = ordered pairs of distinct objects";
    R.assumptions = {"structural key (key.h) only used for reporting and path statistics", "expressions outside the universe are not covered"};
    return R.finish();
}
