// C12  Double-precision evaluation is accurate -- E1 closed terms + RefEval with a running
// double-precision error budget (DESIGN 5 C12, 4.1).
// Every closed term of a bounded term algebra over the node types accepted by eval_double.cpp is
// built with the public constructors and evaluated by eval_double (final visitor),
// eval_double_visitor_pattern, eval_double_single_dispatch, eval_complex_double and
// evalf(.,53|20,Real|Complex|Symbolic).  The oracle is an independent structural recursion in
// 113-bit arithmetic that carries (value v, first-order IEEE-double error bound delta); a result r
// passes when |r - v| <= 8*delta + 4u|v|.  Ill-conditioned, non-finite, complex-valued (for the
// real evaluators) and near-discontinuity terms are skipped and counted.
#include "common.h"
#include "explore.h"
#include "refeval.h"
using namespace verif;

typedef RCP<const Basic> B;
static const rq U53 = 0x1p-53Q;

static B R(long a, long b)
{
    return Rational::from_two_ints(a, b);
}

// ------------------------------------------------------------------ budget evaluator
enum Mode { REAL, CPLX };
struct BV {
    cq v = 0;
    rq d = 0; // bound on |double-arithmetic value - v|
};
struct BState {
    Mode mode;
    EvalState st; // side, on_cut, fail reason
    long nodes = 0;
    unsigned mask = 0; // bit k = side taken at the k-th node that sits exactly on a cut
    int cutidx = 0;
    // run fn with the side selected by the mask for the next on-cut node
    template <class Fn>
    bool with_side(Fn fn)
    {
        st.side = ((mask >> cutidx) & 1) ? -1 : +1;
        bool saved = st.on_cut;
        st.on_cut = false;
        bool r = fn();
        if (st.on_cut)
            cutidx++;
        st.on_cut = st.on_cut || saved;
        return r;
    }
};

static rq leaf_delta(rq v)
{
    double d = (double)v;
    return ((rq)d == v) ? 0 : 2 * U53 * fabsq(v);
}
static bool range_ok(cq v, BState &s, bool zero_ok = true)
{
    if (!finite(v)) {
        s.st.fail("nonfinite");
        return false;
    }
    rq a = absq(v);
    if (a == 0 && !zero_ok) { // a function without zeros returned 0: underflow in the reference itself
        s.st.fail("underflow");
        return false;
    }
    if (a > 1e300Q) {
        s.st.fail("overflow");
        return false;
    }
    if (a != 0 && a < 1e-290Q) {
        s.st.fail("underflow");
        return false;
    }
    return true;
}

enum Base {
    F_SIN,
    F_COS,
    F_TAN,
    F_ASIN,
    F_ACOS,
    F_ATAN,
    F_SINH,
    F_COSH,
    F_TANH,
    F_ASINH,
    F_ACOSH,
    F_ATANH,
    F_LOG,
    F_EXP,
    F_GAMMA,
    F_LOGGAMMA,
    F_ERF,
    F_ERFC
};
// base function value; false when undefined / outside the evaluator's domain (reason in st)
static bool basefn(Base f, cq a, Mode m, EvalState &st, cq &out)
{
    if (m == REAL) {
        rq x = re(a), r = 0;
        switch (f) {
            case F_SIN:
                r = sinq(x);
                break;
            case F_COS:
                r = cosq(x);
                break;
            case F_TAN:
                r = tanq(x);
                break;
            case F_ASIN:
            case F_ACOS:
                if (fabsq(x) > 1) {
                    st.fail("complex-valued");
                    return false;
                }
                r = f == F_ASIN ? asinq(x) : acosq(x);
                break;
            case F_ATAN:
                r = atanq(x);
                break;
            case F_SINH:
                r = sinhq(x);
                break;
            case F_COSH:
                r = coshq(x);
                break;
            case F_TANH:
                r = tanhq(x);
                break;
            case F_ASINH:
                r = asinhq(x);
                break;
            case F_ACOSH:
                if (x < 1) {
                    st.fail("complex-valued");
                    return false;
                }
                r = acoshq(x);
                break;
            case F_ATANH:
                if (fabsq(x) > 1) {
                    st.fail("complex-valued");
                    return false;
                }
                if (fabsq(x) == 1) {
                    st.fail("pole");
                    return false;
                }
                r = atanhq(x);
                break;
            case F_LOG:
                if (x < 0) {
                    st.fail("complex-valued");
                    return false;
                }
                if (x == 0) {
                    st.fail("pole");
                    return false;
                }
                r = logq(x);
                break;
            case F_EXP:
                r = expq(x);
                break;
            case F_GAMMA:
                if (x <= 0 && x == floorq(x)) {
                    st.fail("pole");
                    return false;
                }
                r = tgammaq(x);
                break;
            case F_LOGGAMMA:
                if (x <= 0) {
                    st.fail("loggamma-nonpositive");
                    return false;
                }
                r = lgammaq(x);
                break;
            case F_ERF:
                r = erfq(x);
                break;
            case F_ERFC:
                r = erfcq(x);
                break;
        }
        out = mkc(r, 0);
        return st.ok;
    }
    switch (f) {
        case F_SIN:
            out = csinq(a);
            break;
        case F_COS:
            out = ccosq(a);
            break;
        case F_TAN:
            out = csinq(a) * ev_inv(ccosq(a), st);
            break;
        case F_ASIN:
            out = ev_asin(a, st);
            break;
        case F_ACOS:
            out = ev_acos(a, st);
            break;
        case F_ATAN:
            out = ev_atan(a, st);
            break;
        case F_SINH:
            out = csinhq(a);
            break;
        case F_COSH:
            out = ccoshq(a);
            break;
        case F_TANH:
            out = csinhq(a) * ev_inv(ccoshq(a), st);
            break;
        case F_ASINH:
            out = ev_asinh(a, st);
            break;
        case F_ACOSH:
            out = ev_acosh(a, st);
            break;
        case F_ATANH:
            out = ev_atanh(a, st);
            break;
        case F_LOG:
            if (a == 0) {
                st.fail("pole");
                return false;
            }
            if (im(a) == 0 && re(a) < 0)
                st.on_cut = true; // sign of the zero imaginary part decides; both accepted
            if (nearly(im(a), a) && re(a) < 0) {
                st.fail("near-cut");
                return false;
            }
            out = clogq(im(a) == 0 && re(a) < 0 ? mkc(re(a), st.side > 0 ? 0.0Q : -0.0Q) : a);
            break;
        case F_EXP:
            out = cexpq(a);
            break;
        default:
            st.fail("not-in-complex-evaluator");
            return false;
    }
    return st.ok;
}

// Sensitivity of f at a to a perturbation of size h (= 8 x the error bound of the argument): the largest
// |f(a +- dz) - f(a)| / h over the perturbation directions.  Taking the variation over the actual uncertainty
// interval instead of a derivative keeps the bound honest next to poles and domain boundaries.
// false when a +- dz leaves the domain.
static bool variation(Base f, cq a, rq h, Mode m, int side, rq &D)
{
    D = 0;
    std::vector<cq> dirs;
    if (m == REAL || im(a) == 0)
        dirs.push_back(mkc(h, 0));
    else if (re(a) == 0)
        dirs.push_back(mkc(0, h));
    else {
        dirs.push_back(mkc(h, 0));
        dirs.push_back(mkc(0, h));
    }
    EvalState s0;
    s0.side = side;
    cq f0;
    if (!basefn(f, a, m, s0, f0))
        return false;
    for (auto &dz : dirs)
        for (int sg = -1; sg <= 1; sg += 2) {
            EvalState s1;
            s1.side = side;
            cq fv;
            if (!basefn(f, a + mkc(sg, 0) * dz, m, s1, fv) || !finite(fv))
                return false;
            D = fmaxq(D, absq(fv - f0) / h);
        }
    return true;
}

static bool bev(const Basic &e, BState &s, BV &out);

// first-order propagation through a non-linear node is only trusted for a small relative input uncertainty
static bool input_ok(const BV &a, BState &s)
{
    if (a.d > 0x1p-10Q * absq(a.v)) {
        s.st.fail("ill-conditioned(intermediate)");
        return false;
    }
    return true;
}
static bool apply_base(Base f, const BV &a, BState &s, BV &out, rq c = 4)
{
    if (!input_ok(a, s))
        return false;
    if (!s.with_side([&]() { return basefn(f, a.v, s.mode, s.st, out.v); }))
        return false;
    if (!range_ok(out.v, s, !(f == F_GAMMA || f == F_EXP || f == F_ERFC)))
        return false;
    rq D = 0;
    if (a.d > 0 && !variation(f, a.v, 8 * a.d, s.mode, s.st.side, D)) {
        s.st.fail("ill-conditioned(domain-boundary)");
        return false;
    }
    out.d = D * a.d + c * U53 * absq(out.v);
    return true;
}
static bool apply_inv(const BV &a, BState &s, BV &out)
{
    if (a.v == 0) {
        s.st.fail("pole");
        return false;
    }
    if (!input_ok(a, s))
        return false;
    out.v = mkc(1, 0) / a.v;
    if (!range_ok(out.v, s, false))
        return false;
    rq m = absq(a.v);
    out.d = a.d / (m * m) + U53 * absq(out.v);
    return true;
}
// b^x with partial-derivative error propagation
static bool apply_pow(const BV &b, const BV &x, BState &s, BV &out)
{
    bool cp = s.mode == CPLX;
    if (!input_ok(b, s) || (x.v != 0 && !input_ok(x, s)))
        return false;
    if (b.v == 0) {
        if (re(x.v) > 0x1p-30Q * absq(x.v) && b.d == 0) {
            out.v = 0;
            out.d = 0;
            return true;
        }
        s.st.fail(b.d > 0 ? "ill-conditioned(0^x)" : "pole");
        return false;
    }
    cq lg;
    bool xint = im(x.v) == 0 && re(x.v) == floorq(re(x.v)) && x.d == 0 && fabsq(re(x.v)) < 4096;
    if (!cp) {
        rq bb = re(b.v), xx = re(x.v);
        if (bb < 0) {
            if (!xint) {
                s.st.fail("complex-valued");
                return false;
            }
            out.v = mkc(powq(bb, xx), 0);
        } else
            out.v = mkc(powq(bb, xx), 0);
        lg = mkc(logq(fabsq(bb)), 0);
    } else {
        s.st.side = ((s.mask >> s.cutidx) & 1) ? -1 : +1;
        if (im(b.v) == 0 && re(b.v) < 0 && !xint) {
            s.st.on_cut = true;
            s.cutidx++;
        }
        if (nearly(im(b.v), b.v) && re(b.v) < 0 && !xint) {
            s.st.fail("near-cut");
            return false;
        }
        cq bb = b.v;
        if (im(bb) == 0 && re(bb) < 0)
            bb = mkc(re(bb), s.st.side > 0 ? 0.0Q : -0.0Q);
        lg = clogq(bb);
        if (xint) {
            long n = (long)re(x.v);
            cq r = mkc(1, 0), p = b.v;
            unsigned long m = n < 0 ? -n : n;
            while (m) {
                if (m & 1)
                    r *= p;
                p *= p;
                m >>= 1;
            }
            out.v = n < 0 ? mkc(1, 0) / r : r;
        } else
            out.v = cexpq(x.v * lg);
    }
    if (!range_ok(out.v, s, false))
        return false;
    rq av = absq(out.v);
    rq c = cp ? 4 + 4 * absq(x.v * lg) : 4;
    out.d = absq(x.v) * av / absq(b.v) * b.d + av * absq(lg) * x.d + c * U53 * av;
    return true;
}

static bool bool_of(const BV &c, bool &t)
{
    if (c.v == mkc(1, 0))
        t = true;
    else if (c.v == mkc(0, 0))
        t = false;
    else
        return false;
    return true;
}

static bool bev(const Basic &e, BState &s, BV &out)
{
    if (!s.st.ok)
        return false;
    s.nodes++;
    TypeID t = e.get_type_code();
    auto unary = [&](Base f, int pre_inv, int post_inv, rq c = 4) -> bool {
        BV a;
        if (!bev(*e.get_args()[0], s, a))
            return false;
        if (s.mode == REAL && im(a.v) != 0) {
            s.st.fail("complex-valued");
            return false;
        }
        if (pre_inv) {
            BV t1;
            if (!apply_inv(a, s, t1))
                return false;
            a = t1;
        }
        BV r;
        if (!apply_base(f, a, s, r, c))
            return false;
        if (post_inv) {
            BV t2;
            if (!apply_inv(r, s, t2))
                return false;
            r = t2;
        }
        out = r;
        return true;
    };
    switch (t) {
        case SYMENGINE_INTEGER:
            out.v = mkc(q_from_int(down_cast<const Integer &>(e).as_integer_class()), 0);
            out.d = leaf_delta(re(out.v));
            return range_ok(out.v, s);
        case SYMENGINE_RATIONAL:
            out.v = mkc(q_from_rat(down_cast<const Rational &>(e).as_rational_class()), 0);
            out.d = leaf_delta(re(out.v));
            return range_ok(out.v, s);
        case SYMENGINE_REAL_DOUBLE: {
            double d = down_cast<const RealDouble &>(e).i;
            out.v = mkc(d, 0);
            out.d = 0;
            return range_ok(out.v, s);
        }
        case SYMENGINE_COMPLEX: {
            if (s.mode == REAL) {
                s.st.fail("complex-leaf");
                return false;
            }
            const Complex &c = down_cast<const Complex &>(e);
            out.v = mkc(q_from_rat(c.real_), q_from_rat(c.imaginary_));
            out.d = leaf_delta(re(out.v)) + leaf_delta(im(out.v));
            return range_ok(out.v, s);
        }
        case SYMENGINE_COMPLEX_DOUBLE: {
            if (s.mode == REAL) {
                s.st.fail("complex-leaf");
                return false;
            }
            std::complex<double> z = down_cast<const ComplexDouble &>(e).i;
            out.v = mkc(z.real(), z.imag());
            out.d = 0;
            return range_ok(out.v, s);
        }
        case SYMENGINE_CONSTANT: {
            const std::string &n = down_cast<const Constant &>(e).get_name();
            rq v;
            if (n == "pi")
                v = M_PIq;
            else if (n == "E")
                v = M_Eq;
            else if (n == "EulerGamma")
                v = 0.57721566490153286060651209008240243104215933593992Q;
            else if (n == "Catalan")
                v = 0.91596559417721901505460351493238411077414937428167Q;
            else if (n == "GoldenRatio")
                v = (1 + sqrtq(5.0Q)) / 2;
            else {
                s.st.fail("unknown-constant");
                return false;
            }
            out.v = mkc(v, 0);
            out.d = 2 * U53 * v;
            return true;
        }
        case SYMENGINE_ADD: {
            const Add &ad = down_cast<const Add &>(e);
            BV c;
            if (!bev(*ad.get_coef(), s, c))
                return false;
            cq sum = c.v;
            rq d = c.d, mag = absq(c.v);
            int n = 1;
            for (auto &p : ad.get_dict()) {
                BV tv, cv;
                if (!bev(*p.first, s, tv) || !bev(*p.second, s, cv))
                    return false;
                cq term = tv.v * cv.v;
                d += absq(cv.v) * tv.d + absq(tv.v) * cv.d + U53 * absq(term);
                mag += absq(term);
                sum += term;
                n++;
            }
            out.v = sum;
            out.d = d + n * U53 * mag;
            return range_ok(out.v, s);
        }
        case SYMENGINE_MUL: {
            const Mul &m = down_cast<const Mul &>(e);
            std::vector<BV> fs;
            BV c;
            if (!bev(*m.get_coef(), s, c))
                return false;
            fs.push_back(c);
            for (auto &p : m.get_dict()) {
                BV b, x, f;
                if (!bev(*p.first, s, b))
                    return false;
                if (is_a<Integer>(*p.second) && down_cast<const Integer &>(*p.second).is_one())
                    f = b;
                else {
                    if (!bev(*p.second, s, x))
                        return false;
                    if (!apply_pow(b, x, s, f))
                        return false;
                }
                fs.push_back(f);
            }
            cq prod = mkc(1, 0);
            for (auto &f : fs)
                prod *= f.v;
            rq d = 0;
            for (size_t i = 0; i < fs.size(); i++) {
                rq others = 1;
                for (size_t j = 0; j < fs.size(); j++)
                    if (j != i)
                        others *= absq(fs[j].v);
                d += fs[i].d * others;
            }
            out.v = prod;
            out.d = d + (rq)(fs.size() + 1) * (s.mode == CPLX ? 3 : 1) * U53 * absq(prod);
            bool zf = false;
            for (auto &f : fs)
                zf = zf || f.v == 0;
            return range_ok(out.v, s, zf);
        }
        case SYMENGINE_POW: {
            const Pow &p = down_cast<const Pow &>(e);
            BV b, x;
            if (!bev(*p.get_base(), s, b) || !bev(*p.get_exp(), s, x))
                return false;
            return apply_pow(b, x, s, out);
        }
        case SYMENGINE_SIN:
            return unary(F_SIN, 0, 0);
        case SYMENGINE_COS:
            return unary(F_COS, 0, 0);
        case SYMENGINE_TAN:
            return unary(F_TAN, 0, 0);
        case SYMENGINE_COT:
            return unary(F_TAN, 0, 1);
        case SYMENGINE_CSC:
            return unary(F_SIN, 0, 1);
        case SYMENGINE_SEC:
            return unary(F_COS, 0, 1);
        case SYMENGINE_ASIN:
            return unary(F_ASIN, 0, 0);
        case SYMENGINE_ACOS:
            return unary(F_ACOS, 0, 0);
        case SYMENGINE_ASEC:
            return unary(F_ACOS, 1, 0);
        case SYMENGINE_ACSC:
            return unary(F_ASIN, 1, 0);
        case SYMENGINE_ATAN:
            return unary(F_ATAN, 0, 0);
        case SYMENGINE_ACOT:
            return unary(F_ATAN, 1, 0);
        case SYMENGINE_SINH:
            return unary(F_SINH, 0, 0);
        case SYMENGINE_CSCH:
            return unary(F_SINH, 0, 1);
        case SYMENGINE_COSH:
            return unary(F_COSH, 0, 0);
        case SYMENGINE_SECH:
            return unary(F_COSH, 0, 1);
        case SYMENGINE_TANH:
            return unary(F_TANH, 0, 0);
        case SYMENGINE_COTH:
            return unary(F_TANH, 0, 1);
        case SYMENGINE_ASINH:
            return unary(F_ASINH, 0, 0);
        case SYMENGINE_ACSCH:
            return unary(F_ASINH, 1, 0);
        case SYMENGINE_ACOSH:
            return unary(F_ACOSH, 0, 0);
        case SYMENGINE_ATANH:
            return unary(F_ATANH, 0, 0);
        case SYMENGINE_ACOTH:
            return unary(F_ATANH, 1, 0);
        case SYMENGINE_ASECH:
            return unary(F_ACOSH, 1, 0);
        case SYMENGINE_LOG:
            return unary(F_LOG, 0, 0);
        case SYMENGINE_GAMMA:
            if (s.mode == CPLX) {
                s.st.fail("not-in-complex-evaluator");
                return false;
            }
            return unary(F_GAMMA, 0, 0);
        case SYMENGINE_LOGGAMMA:
            if (s.mode == CPLX) {
                s.st.fail("not-in-complex-evaluator");
                return false;
            }
            return unary(F_LOGGAMMA, 0, 0);
        case SYMENGINE_ERF:
            if (s.mode == CPLX) {
                s.st.fail("not-in-complex-evaluator");
                return false;
            }
            return unary(F_ERF, 0, 0);
        case SYMENGINE_ERFC:
            if (s.mode == CPLX) {
                s.st.fail("not-in-complex-evaluator");
                return false;
            }
            return unary(F_ERFC, 0, 0);
        case SYMENGINE_ABS: {
            BV a;
            if (!bev(*e.get_args()[0], s, a))
                return false;
            out.v = mkc(absq(a.v), 0);
            out.d = a.d + (s.mode == CPLX ? 2 : 0) * U53 * absq(a.v);
            return true;
        }
        case SYMENGINE_UNEVALUATED_EXPR:
            return bev(*e.get_args()[0], s, out);
        default:
            break;
    }
    // ---- nodes of the real evaluators only
    if (s.mode == CPLX) {
        s.st.fail("not-in-complex-evaluator");
        return false;
    }
    switch (t) {
        case SYMENGINE_ATAN2: {
            BV y, x;
            if (!bev(*e.get_args()[0], s, y) || !bev(*e.get_args()[1], s, x))
                return false;
            rq yy = re(y.v), xx = re(x.v), r2 = xx * xx + yy * yy;
            if ((y.d + x.d) * (y.d + x.d) > 0x1p-20Q * r2) {
                s.st.fail("ill-conditioned(intermediate)");
                return false;
            }
            if (r2 == 0) {
                s.st.fail("atan2(0,0)");
                return false;
            }
            if (yy == 0 && xx < 0 && y.d > 0) {
                s.st.fail("near-discontinuity");
                return false;
            }
            out.v = mkc(atan2q(yy, xx), 0);
            out.d = (fabsq(xx) * y.d + fabsq(yy) * x.d) / r2 + 4 * U53 * absq(out.v);
            if (xx < 0 && fabsq(yy) <= 8 * y.d) {
                s.st.fail("near-discontinuity");
                return false;
            }
            return true;
        }
        case SYMENGINE_MAX:
        case SYMENGINE_MIN: {
            bool first = true;
            rq best = 0, d = 0;
            for (auto &a : e.get_args()) {
                BV v;
                if (!bev(*a, s, v))
                    return false;
                best = first ? re(v.v) : (t == SYMENGINE_MAX ? fmaxq(best, re(v.v)) : fminq(best, re(v.v)));
                d = fmaxq(d, v.d);
                first = false;
            }
            out.v = mkc(best, 0);
            out.d = d;
            return true;
        }
        case SYMENGINE_BOOLEAN_ATOM:
            out.v = mkc(down_cast<const BooleanAtom &>(e).get_val() ? 1 : 0, 0);
            out.d = 0;
            return true;
        case SYMENGINE_EQUALITY:
        case SYMENGINE_UNEQUALITY:
        case SYMENGINE_LESSTHAN:
        case SYMENGINE_STRICTLESSTHAN: {
            BV l, r;
            if (!bev(*e.get_args()[0], s, l) || !bev(*e.get_args()[1], s, r))
                return false;
            rq a = re(l.v), b = re(r.v);
            bool exact = l.d == 0 && r.d == 0;
            if (!exact && fabsq(a - b) <= 8 * (l.d + r.d) + 4 * U53 * (fabsq(a) + fabsq(b))) {
                s.st.fail("near-discontinuity");
                return false;
            }
            bool tv = t == SYMENGINE_EQUALITY ? a == b : t == SYMENGINE_UNEQUALITY ? a != b : t == SYMENGINE_LESSTHAN ? a <= b : a < b;
            out.v = mkc(tv ? 1 : 0, 0);
            out.d = 0;
            return true;
        }
        case SYMENGINE_PIECEWISE: {
            const Piecewise &pw = down_cast<const Piecewise &>(e);
            for (auto &pr : pw.get_vec()) {
                BV c;
                if (!bev(*pr.second, s, c))
                    return false;
                bool tv;
                if (!bool_of(c, tv)) {
                    s.st.fail("non-boolean-condition");
                    return false;
                }
                if (tv)
                    return bev(*pr.first, s, out);
            }
            s.st.fail("piecewise-no-branch");
            return false;
        }
        default:
            s.st.fail("unsupported-node " + type_code_name(t));
            return false;
    }
}

struct Ref {
    bool ok = false;
    std::string why;
    std::vector<BV> cand; // 1 value, or 2 when some node sat exactly on a cut
};
static Ref reference(const Basic &e, Mode m)
{
    Ref r;
    BState s;
    s.mode = m;
    s.st.side = +1;
    Env env;
    s.st.env = &env;
    BV v;
    if (!bev(e, s, v)) {
        r.why = s.st.why;
        return r;
    }
    r.cand.push_back(v);
    int ncut = std::min(s.cutidx, 4);
    for (unsigned mask = 1; mask < (1u << ncut); mask++) {
        BState s2;
        s2.mode = m;
        s2.mask = mask;
        s2.st.env = &env;
        BV v2;
        if (bev(e, s2, v2))
            r.cand.push_back(v2);
    }
    // conditioning
    std::vector<BV> good;
    for (auto &c : r.cand) {
        rq a = absq(c.v);
        if ((a == 0 && c.d == 0) || (a > 0 && c.d <= 0x1p-20Q * a))
            good.push_back(c);
    }
    if (good.size() != r.cand.size()) { // some side assignment is ill-conditioned: do not judge at all
        r.why = "ill-conditioned";
        return r;
    }
    r.ok = true;
    return r;
}

// ------------------------------------------------------------------ library evaluators
enum Ev { ED, EDV, EDS, EVR53, EVR20, ECD, EVC53, EVS53, NEV };
static const char *EVN[] = {"eval_double", "eval_double_visitor_pattern", "eval_double_single_dispatch", "evalf(53,Real)", "evalf(20,Real)",
                            "eval_complex_double", "evalf(53,Complex)", "evalf(53,Symbolic)"};
static bool is_real_ev(int ev)
{
    return ev <= EVR20;
}
struct LibVal {
    int status = 0; // 0 value, 1 refused (library exception), 2 foreign exception, 3 non-numeric result
    std::complex<double> z;
    std::string what;
};
static LibVal call(int ev, const Basic &e)
{
    LibVal r;
    try {
        switch (ev) {
            case ED:
                r.z = eval_double(e);
                break;
            case EDV:
                r.z = eval_double_visitor_pattern(e);
                break;
            case EDS:
                r.z = eval_double_single_dispatch(e);
                break;
            case EVR53:
            case EVR20: {
                B v = evalf(e, ev == EVR53 ? 53 : 20, EvalfDomain::Real);
                if (!is_a<RealDouble>(*v)) {
                    r.status = 3;
                    r.what = type_code_name(v->get_type_code());
                } else
                    r.z = down_cast<const RealDouble &>(*v).i;
                break;
            }
            case ECD:
                r.z = eval_complex_double(e);
                break;
            case EVC53: {
                B v = evalf(e, 53, EvalfDomain::Complex);
                if (!is_a<ComplexDouble>(*v)) {
                    r.status = 3;
                    r.what = type_code_name(v->get_type_code());
                } else
                    r.z = down_cast<const ComplexDouble &>(*v).i;
                break;
            }
            case EVS53: {
                B v = evalf(e, 53, EvalfDomain::Symbolic);
                if (is_a<RealDouble>(*v))
                    r.z = down_cast<const RealDouble &>(*v).i;
                else if (is_a<ComplexDouble>(*v))
                    r.z = down_cast<const ComplexDouble &>(*v).i;
                else {
                    r.status = 3;
                    r.what = type_code_name(v->get_type_code());
                }
                break;
            }
        }
    } catch (SymEngineException &x) {
        r.status = 1;
        r.what = x.what();
    } catch (std::exception &x) {
        r.status = 2;
        r.what = x.what();
    }
    return r;
}

enum Verdict { PASS, FAIL, SKIP };
static rq worst_ratio = 0; // per worker, reported through a counter (scaled)
static Verdict compare(const LibVal &lv, const Ref &ref, std::string &detail)
{
    cq z = mkc(lv.z.real(), lv.z.imag());
    if (!finite(z)) {
        detail = "returned a non-finite value " + std::to_string(lv.z.real()) + (lv.z.imag() != 0 ? "+" + std::to_string(lv.z.imag()) + "i" : "")
                 + " but the exact value is " + cstr(ref.cand[0].v);
        return FAIL;
    }
    rq best = HUGE_VALQ;
    for (auto &c : ref.cand) {
        rq tol = 8 * c.d + 4 * U53 * absq(c.v);
        rq err = absq(z - c.v);
        if (err <= tol) {
            if (tol > 0)
                worst_ratio = fmaxq(worst_ratio, err / tol);
            return PASS;
        }
        best = fminq(best, tol > 0 ? err / tol : HUGE_VALQ);
    }
    char b[64];
    snprintf(b, sizeof b, "%.17g%+.17gi", lv.z.real(), lv.z.imag());
    detail = std::string("returned ") + b + " but the exact value is " + cstr(ref.cand[0].v, 24) + " (error = " + qstr(best, 4)
             + " x tolerance; delta=" + qstr(ref.cand[0].d, 3) + ")";
    return FAIL;
}

static std::string node_class(const Basic &e)
{
    std::string s = type_code_name(e.get_type_code()) + "(";
    vec_basic a = e.get_args();
    for (size_t i = 0; i < a.size() && i < 3; i++) {
        std::string t = type_code_name(a[i]->get_type_code());
        if (is_a<Integer>(*a[i]) || is_a<Rational>(*a[i]) || is_a<RealDouble>(*a[i]))
            t += down_cast<const Number &>(*a[i]).is_negative() ? "<0" : down_cast<const Number &>(*a[i]).is_zero() ? "=0" : ">0";
        s += (i ? "," : "") + t;
    }
    return s + ")";
}
// innermost subterm on which evaluator ev already disagrees with its own reference
static std::string blame(const Basic &e, int ev)
{
    for (auto &a : e.get_args()) {
        if (is_a_Boolean(*a) && !is_a_Relational(*a))
            continue;
        Ref r = reference(*a, is_real_ev(ev) ? REAL : CPLX);
        if (!r.ok)
            continue;
        LibVal lv = call(ev, *a);
        std::string d;
        if (lv.status == 0 && compare(lv, r, d) == FAIL)
            return blame(*a, ev);
    }
    return type_code_name(e.get_type_code()); // defect class = evaluator + node type (argument kinds are in the description)
}

enum {
    K_TERMS,
    K_REAL_JUDGED,
    K_CPLX_JUDGED,
    K_COMPARISONS,
    K_SKIP_COMPLEXVALUED,
    K_SKIP_POLE,
    K_SKIP_ILL,
    K_SKIP_RANGE,
    K_SKIP_DISC,
    K_SKIP_NEARCUT,
    K_SKIP_NOTINCPLX,
    K_SKIP_COMPLEXLEAF,
    K_SKIP_OTHER,
    K_REFUSED_REFOK,
    K_REFUSED_REFUNDEF,
    K_ONE_ONLY,
    K_SYMBOLIC_LEFT,
    K_ONCUT,
    K_CONSTRUCT_THROW,
    K_WORST_PERMILLE,
    K_OPERAND_RANGE
};
static std::vector<std::string> CN = {"terms_evaluated",
                                      "terms_judged_real_evaluators",
                                      "terms_judged_complex_evaluators",
                                      "evaluator_results_compared",
                                      "real_ref_skipped_complex_valued",
                                      "ref_skipped_pole",
                                      "ref_skipped_ill_conditioned",
                                      "ref_skipped_overflow_underflow_nonfinite",
                                      "ref_skipped_near_discontinuity",
                                      "ref_skipped_near_cut",
                                      "complex_ref_skipped_node_not_in_complex_evaluator",
                                      "real_ref_skipped_complex_leaf",
                                      "ref_skipped_other",
                                      "evaluator_refused_although_reference_defined",
                                      "evaluator_refused_and_reference_undefined",
                                      "terms_accepted_by_only_one_of_single_dispatch/visitor",
                                      "evalf_symbolic_result_not_a_double",
                                      "complex_terms_on_a_cut(two-sided)",
                                      "constructor_threw",
                                      "worst_error/tolerance_permille(max_over_workers_summed)",
                                      "L4_inner_operand_outside_[1e-3,1000]_or_undecidable(not_built)"};

static void count_skip(Ctx &c, const std::string &why)
{
    if (why == "complex-valued")
        c.count(K_SKIP_COMPLEXVALUED);
    else if (why == "pole" || why == "atan2(0,0)")
        c.count(K_SKIP_POLE);
    else if (why.rfind("ill-conditioned", 0) == 0)
        c.count(K_SKIP_ILL);
    else if (why == "overflow" || why == "underflow" || why == "nonfinite")
        c.count(K_SKIP_RANGE);
    else if (why == "near-discontinuity")
        c.count(K_SKIP_DISC);
    else if (why == "near-cut")
        c.count(K_SKIP_NEARCUT);
    else if (why == "not-in-complex-evaluator")
        c.count(K_SKIP_NOTINCPLX);
    else if (why == "complex-leaf")
        c.count(K_SKIP_COMPLEXLEAF);
    else
        c.count(K_SKIP_OTHER);
}

// full check of one closed term
static void check_term(const B &e, const std::string &recipe, Ctx &c)
{
    c.eval();
    c.count(K_TERMS);
    Ref rr = reference(*e, REAL), rc = reference(*e, CPLX);
    LibVal lv[NEV];
    for (int ev = 0; ev < NEV; ev++)
        lv[ev] = call(ev, *e);
    if (rr.ok)
        c.count(K_REAL_JUDGED);
    else
        count_skip(c, rr.why);
    if (rc.ok) {
        c.count(K_CPLX_JUDGED);
        if (rc.cand.size() > 1)
            c.count(K_ONCUT);
    } else
        count_skip(c, rc.why);
    if (rr.ok || rc.ok)
        c.nontrivial();
    c.outcome(type_code_name(e->get_type_code()) + ":" + (rr.ok ? "R" : "r:" + rr.why) + ":" + (rc.ok ? "C" : "c:" + rc.why) + ":"
              + std::to_string(lv[ED].status) + std::to_string(lv[EDS].status) + std::to_string(lv[ECD].status) + std::to_string(lv[EVS53].status));
    if ((lv[EDV].status == 0) != (lv[EDS].status == 0))
        c.count(K_ONE_ONLY);
    for (int ev = 0; ev < NEV; ev++) {
        const Ref &ref = is_real_ev(ev) ? rr : ev == EVS53 ? (rr.ok ? rr : rc) : rc;
        if (lv[ev].status == 2) {
            c.violation(std::string(EVN[ev]) + ":foreign-exception:" + node_class(*e), recipe + " = " + sstr(e) + ": " + EVN[ev] + " threw a non-library exception: " + lv[ev].what);
            continue;
        }
        if (lv[ev].status == 1) {
            c.count(ref.ok ? K_REFUSED_REFOK : K_REFUSED_REFUNDEF);
            continue;
        }
        if (lv[ev].status == 3) {
            c.count(K_SYMBOLIC_LEFT);
            continue;
        }
        if (!ref.ok)
            continue;
        c.count(K_COMPARISONS);
        std::string detail;
        if (compare(lv[ev], ref, detail) == FAIL)
            {
            std::string culprit = blame(*e, ev);
            c.violation(std::string(EVN[ev]) + ":" + culprit, recipe + " = " + sstr(e) + " [" + key(*e) + "]: " + EVN[ev] + " " + detail
                                                                   + " (innermost disagreeing node: " + culprit + ")");
        }
    }
    // evalf(.,Real) is eval_double by definition: bit-identical
    for (int ev : {EVR53, EVR20})
        if (lv[ev].status == 0 && lv[ED].status == 0) {
            double a = lv[ev].z.real(), b = lv[ED].z.real();
            if (memcmp(&a, &b, 8) != 0 && !(std::isnan(a) && std::isnan(b)))
                c.violation(std::string(EVN[ev]) + "!=eval_double:" + node_class(*e), recipe + ": " + EVN[ev] + " = " + std::to_string(a) + ", eval_double = " + std::to_string(b));
        }
    if (lv[EVC53].status == 0 && lv[ECD].status == 0 && lv[EVC53].z != lv[ECD].z && !(std::isnan(lv[ECD].z.real()) || std::isnan(lv[ECD].z.imag())))
        c.violation("evalf(53,Complex)!=eval_complex_double:" + node_class(*e), recipe + ": results differ");
    if (c.index % 40009 == 0)
        c.sample("{\"term\":" + jstr(recipe) + ",\"tree\":" + jstr(sstr(e)) + ",\"real_ref\":" + jstr(rr.ok ? cstr(rr.cand[0].v) + " +-" + qstr(rr.cand[0].d, 3) : rr.why)
                 + ",\"eval_double\":" + (lv[ED].status == 0 ? jstr(std::to_string(lv[ED].z.real())) : jstr("refused: " + lv[ED].what)) + "}");
}

// ------------------------------------------------------------------ term algebra
struct UOp {
    const char *name;
    std::function<B(const B &)> f;
};
struct BOp {
    const char *name;
    std::function<B(const B &, const B &)> f;
};
static std::vector<UOp> UO;
static std::vector<BOp> BO;
static StateSet SS;

int main(int argc, char **argv)
{
    init(argc, argv, "C12");
    const bool T = opts().thorough();
#define U1(n) UO.push_back({#n, [](const B &a) { return n(a); }})
    U1(sin);
    U1(cos);
    U1(tan);
    U1(cot);
    U1(csc);
    U1(sec);
    U1(asin);
    U1(acos);
    U1(asec);
    U1(acsc);
    U1(atan);
    U1(acot);
    U1(sinh);
    U1(csch);
    U1(cosh);
    U1(sech);
    U1(tanh);
    U1(coth);
    U1(asinh);
    U1(acsch);
    U1(acosh);
    U1(atanh);
    U1(acoth);
    U1(asech);
    U1(log);
    U1(exp);
    U1(gamma);
    U1(loggamma);
    U1(erf);
    U1(erfc);
    UO.push_back({"abs", [](const B &a) { return SymEngine::abs(a); }});
    UO.push_back({"sqrt", [](const B &a) { return pow(a, R(1, 2)); }});
    UO.push_back({"neg", [](const B &a) { return neg(a); }});
    UO.push_back({"inv", [](const B &a) { return div(one, a); }});
    UO.push_back({"unevaluated_expr", [](const B &a) { return unevaluated_expr(a); }});
    BO.push_back({"add", [](const B &a, const B &b) { return add(a, b); }});
    BO.push_back({"sub", [](const B &a, const B &b) { return sub(a, b); }});
    BO.push_back({"mul", [](const B &a, const B &b) { return mul(a, b); }});
    BO.push_back({"div", [](const B &a, const B &b) { return div(a, b); }});
    BO.push_back({"pow", [](const B &a, const B &b) { return pow(a, b); }});
    BO.push_back({"atan2", [](const B &a, const B &b) { return atan2(a, b); }});
    BO.push_back({"max", [](const B &a, const B &b) { return SymEngine::max({a, b}); }});
    BO.push_back({"min", [](const B &a, const B &b) { return SymEngine::min({a, b}); }});
    const int NU = UO.size(), NB = BO.size();

    std::vector<std::pair<std::string, B>> leaves
        = {{"0", integer(0)},       {"1", integer(1)},         {"-1", integer(-1)},     {"2", integer(2)},         {"-2", integer(-2)},
           {"3", integer(3)},       {"10", integer(10)},       {"-7", integer(-7)},     {"1/2", R(1, 2)},          {"-1/2", R(-1, 2)},
           {"1/3", R(1, 3)},        {"-2/3", R(-2, 3)},        {"3/2", R(3, 2)},        {"-5/2", R(-5, 2)},        {"1/10", R(1, 10)},
           {"7/10", R(7, 10)},      {"25/2", R(25, 2)},        {"0.25", real_double(0.25)}, {"-1.75", real_double(-1.75)},
           {"0.001", real_double(1e-3)}, {"2.5", real_double(2.5)}, {"0.9", real_double(0.9)}, {"pi", pi},        {"E", E},
           {"EulerGamma", EulerGamma}, {"Catalan", Catalan},   {"GoldenRatio", GoldenRatio},
           {"I", I},                {"1+I", add(one, I)},      {"1/2-2*I", Complex::from_two_nums(*rcp_static_cast<const Number>(R(1, 2)), *integer(-2))},
           {"(0.3-0.7j)", complex_double(std::complex<double>(0.3, -0.7))}};
    for (auto &l : leaves)
        SS.add(l.second, l.first, 0);
    const long long n0 = SS.size();
    std::vector<int> S0q; // reduced leaf set for the second operand in the quick tier
    for (const char *nm : {"2", "-1", "1/2", "-2/3", "0.25", "pi", "E", "I"})
        for (long long i = 0; i < n0; i++)
            if (SS.S[i].recipe == nm)
                S0q.push_back(i);

    Run &Rn = run();
    auto make_unary = [&](int op, int ia) { return UO[op].f(SS.S[ia].e); };
    auto make_binary = [&](int op, int ia, int ib) { return BO[op].f(SS.S[ia].e, SS.S[ib].e); };
    auto guarded = [&](Ctx &c, const std::function<B()> &mk, const std::string &recipe) {
        B e;
        try {
            e = mk();
        } catch (SymEngineException &) {
            c.count(K_CONSTRUCT_THROW);
            return;
        }
        if (!free_symbols(*e).empty())
            return;
        check_term(e, recipe, c);
        c.sh->cnt[K_WORST_PERMILLE] = (uint64_t)(worst_ratio * 1000);
    };

    // ---- layer 0+1: leaves, U(S0), B(S0,S0)
    CaseSet l1;
    l1.name = "L1:leaves,U(S0),B(S0,S0)";
    l1.n = n0 + NU * n0 + NB * n0 * n0;
    l1.counter_names = CN;
    auto rec1 = [&](long long i) -> std::string {
        if (i < n0)
            return SS.S[i].recipe;
        i -= n0;
        if (i < NU * n0)
            return std::string(UO[i / n0].name) + "(" + SS.S[i % n0].recipe + ")";
        i -= NU * n0;
        return std::string(BO[i / (n0 * n0)].name) + "(" + SS.S[(i / n0) % n0].recipe + ", " + SS.S[i % n0].recipe + ")";
    };
    auto mk1 = [&](long long i) -> B {
        if (i < n0)
            return SS.S[i].e;
        i -= n0;
        if (i < NU * n0)
            return make_unary(i / n0, i % n0);
        i -= NU * n0;
        return make_binary(i / (n0 * n0), (i / n0) % n0, i % n0);
    };
    l1.desc = rec1;
    l1.body = [&](long long i, Ctx &c) { guarded(c, [&]() { return mk1(i); }, rec1(i)); };
    run_cases(l1);
    for (long long i = n0; i < l1.n; i++) {
        if (l1.bad.count(i))
            continue;
        try {
            B e = mk1(i);
            if (is_a<NaN>(*e) || is_a<Infty>(*e))
                continue;
            // operands of the next layer stay moderate: exact integer powers / factorials of 1e10 are not the subject
            Ref q = reference(*e, CPLX);
            if (!q.ok)
                q = reference(*e, REAL);
            if (!q.ok || absq(q.cand[0].v) > 1000 || (absq(q.cand[0].v) != 0 && absq(q.cand[0].v) < 1e-3Q))
                continue;
            SS.add(e, rec1(i), 1);
        } catch (std::exception &) {
        }
    }
    const long long n1 = SS.size();
    Rn.counters["states_S0(leaves)"] = n0;
    Rn.counters["states_S1"] = n1;

    // ---- layer 2: U(S1), B(S1,S0'), B(S0',S1)   (S0' = reduced leaf set in the quick tier, all leaves in thorough)
    std::vector<int> L2leaf;
    if (T)
        for (long long i = 0; i < n0; i++)
            L2leaf.push_back(i);
    else
        L2leaf = S0q;
    const long long nl = L2leaf.size();
    CaseSet l2;
    l2.name = "L2:U(S1),B(S1,S0'),B(S0',S1)";
    const long long nU2 = NU * n1, nB2 = (long long)NB * n1 * nl;
    l2.n = nU2 + 2 * nB2;
    l2.counter_names = CN;
    auto dec2 = [&](long long i, int &kind, int &op, int &ia, int &ib) {
        if (i < nU2) {
            kind = 0;
            op = i / n1;
            ia = i % n1;
            ib = -1;
            return;
        }
        i -= nU2;
        kind = i < nB2 ? 1 : 2;
        if (kind == 2)
            i -= nB2;
        op = i / (n1 * nl);
        int big = (i / nl) % n1, leaf = L2leaf[i % nl];
        ia = kind == 1 ? big : leaf;
        ib = kind == 1 ? leaf : big;
    };
    auto rec2 = [&](long long i) -> std::string {
        int kind, op, ia, ib;
        dec2(i, kind, op, ia, ib);
        if (kind == 0)
            return std::string(UO[op].name) + "(" + SS.S[ia].recipe + ")";
        return std::string(BO[op].name) + "(" + SS.S[ia].recipe + ", " + SS.S[ib].recipe + ")";
    };
    auto mk2 = [&](long long i) -> B {
        int kind, op, ia, ib;
        dec2(i, kind, op, ia, ib);
        return kind == 0 ? make_unary(op, ia) : make_binary(op, ia, ib);
    };
    l2.desc = rec2;
    l2.body = [&](long long i, Ctx &c) {
        int kind, op, ia, ib;
        dec2(i, kind, op, ia, ib);
        if (ia < n0 && (ib < 0 || ib < n0))
            return; // already covered by layer 1
        guarded(c, [&]() { return mk2(i); }, rec2(i));
    };
    run_cases(l2);
    std::string bound = "all closed terms with <= 2 operations: leaves(" + std::to_string(n0) + "), U(S0), B(S0,S0), U(S1), B(S1,S0'), B(S0',S1) with |S1|="
                        + std::to_string(n1) + ", |S0'|=" + std::to_string(nl) + ", " + std::to_string(NU) + " unary and " + std::to_string(NB)
                        + " binary operators";

    // ---- relationals, Piecewise, n-ary Max/Min
    {
        std::vector<std::pair<std::string, B>> P
            = {{"0", integer(0)},        {"1", integer(1)},          {"-1", integer(-1)},         {"1/2", R(1, 2)},
               {"1/3", R(1, 3)},         {"0.25", real_double(0.25)}, {"pi", pi},                 {"E", E},
               {"sqrt(2)", pow(integer(2), R(1, 2))}, {"sin(1)", sin(integer(1))}, {"log(2)", log(integer(2))}, {"exp(1/2)", exp(R(1, 2))},
               {"cos(3)", cos(integer(3))}, {"pi/3", div(pi, integer(3))}, {"sqrt(2)**2/2", real_double(1.0)}, {"3*log(2)/2", mul(R(3, 2), log(integer(2)))}};
        const long long np = P.size();
        std::vector<int> PV = {1, 5, 6, 9}; // branch values
        const long long nv = PV.size();
        auto rel = [&](int k, const B &a, const B &b) -> B {
            switch (k) {
                case 0:
                    return Eq(a, b);
                case 1:
                    return Ne(a, b);
                case 2:
                    return Le(a, b);
                case 3:
                    return Lt(a, b);
                case 4:
                    return Ge(a, b);
                default:
                    return Gt(a, b);
            }
        };
        const char *RN[] = {"Eq", "Ne", "Le", "Lt", "Ge", "Gt"};
        const long long nrel = 6 * np * np;
        CaseSet l3;
        l3.name = "L3:relational,Piecewise,Max/Min(3)";
        // forms: 0 rel alone; 1 Piecewise((p,rel),(q,True)); 2 Piecewise((p,rel)); 3 Piecewise((p,rel),(q,Not-rel-as-other-rel),(r,True)); 4 max/min of 3
        const long long f0 = nrel, f1 = nrel * nv * nv, f2 = nrel * nv, f3 = nrel * nv, f4 = 2 * np * np * np;
        l3.n = f0 + f1 + f2 + f3 + f4;
        l3.counter_names = CN;
        auto mk3 = [&](long long i, std::string &recipe, bool build) -> B {
            auto relof = [&](long long j, std::string &rs) -> B {
                int k = j / (np * np), a = (j / np) % np, b = j % np;
                rs = std::string(RN[k]) + "(" + P[a].first + "," + P[b].first + ")";
                return build ? rel(k, P[a].second, P[b].second) : B(boolTrue);
            };
            std::string rs;
            if (i < f0) {
                B r = relof(i, rs);
                recipe = rs;
                return r;
            }
            i -= f0;
            if (i < f1) {
                B r = relof(i / (nv * nv), rs);
                int p = PV[(i / nv) % nv], q = PV[i % nv];
                recipe = "Piecewise((" + P[p].first + "," + rs + "),(" + P[q].first + ",True))";
                if (!build)
                    return r;
                return piecewise({{P[p].second, rcp_static_cast<const Boolean>(r)}, {P[q].second, boolTrue}});
            }
            i -= f1;
            if (i < f2) {
                B r = relof(i / nv, rs);
                int p = PV[i % nv];
                recipe = "Piecewise((" + P[p].first + "," + rs + "))";
                if (!build)
                    return r;
                return piecewise({{P[p].second, rcp_static_cast<const Boolean>(r)}});
            }
            i -= f2;
            if (i < f3) {
                long long j = i / nv;
                B r = relof(j, rs);
                std::string rs2;
                int k = j / (np * np), a = (j / np) % np, b = j % np;
                B r2 = build ? rel((k + 3) % 6, P[b].second, P[a].second) : B(boolTrue);
                rs2 = std::string(RN[(k + 3) % 6]) + "(" + P[b].first + "," + P[a].first + ")";
                int p = PV[i % nv];
                recipe = "Piecewise((" + P[p].first + "," + rs + "),(" + P[(p + 3) % np].first + "," + rs2 + "),(" + P[(p + 7) % np].first + ",True))";
                if (!build)
                    return r;
                return piecewise({{P[p].second, rcp_static_cast<const Boolean>(r)},
                                  {P[(p + 3) % np].second, rcp_static_cast<const Boolean>(r2)},
                                  {P[(p + 7) % np].second, boolTrue}});
            }
            i -= f3;
            bool mx = i < np * np * np;
            long long j = i % (np * np * np);
            int a = j / (np * np), b = (j / np) % np, cc = j % np;
            recipe = std::string(mx ? "max(" : "min(") + P[a].first + "," + P[b].first + "," + P[cc].first + ")";
            if (!build)
                return B(boolTrue);
            return mx ? SymEngine::max({P[a].second, P[b].second, P[cc].second}) : SymEngine::min({P[a].second, P[b].second, P[cc].second});
        };
        l3.desc = [&](long long i) {
            std::string r;
            mk3(i, r, false);
            return r;
        };
        l3.body = [&](long long i, Ctx &c) {
            std::string recipe;
            B e;
            try {
                e = mk3(i, recipe, true);
            } catch (SymEngineException &) {
                c.count(K_CONSTRUCT_THROW);
                return;
            }
            check_term(e, recipe, c);
            c.sh->cnt[K_WORST_PERMILLE] = (uint64_t)(worst_ratio * 1000);
        };
        run_cases(l3);
        bound += "; relationals/Piecewise/ternary Max/Min over a " + std::to_string(np) + "-term pool (" + std::to_string(l3.n) + " terms)";
    }

    // ---- thorough: n <= 3 restricted: g(f(s)), s in S1, inner value moderate (exact factorials/powers of 1e6 are not the subject)
    if (T && !past_deadline()) {
        CaseSet l4;
        l4.name = "L4:U(U(S1))";
        l4.n = (long long)NU * NU * n1;
        l4.counter_names = CN;
        auto rec4 = [&](long long i) -> std::string {
            return std::string(UO[i / (NU * n1)].name) + "(" + UO[(i / n1) % NU].name + "(" + SS.S[i % n1].recipe + "))";
        };
        l4.desc = rec4;
        l4.body = [&](long long i, Ctx &c) {
            B inner;
            try {
                inner = UO[(i / n1) % NU].f(SS.S[i % n1].e);
            } catch (SymEngineException &) {
                c.count(K_CONSTRUCT_THROW);
                return;
            }
            if (is_a<NaN>(*inner) || is_a<Infty>(*inner))
                return;
            Ref q = reference(*inner, CPLX);
            if (!q.ok)
                q = reference(*inner, REAL);
            if (!q.ok || absq(q.cand[0].v) > 1000 || (absq(q.cand[0].v) != 0 && absq(q.cand[0].v) < 1e-3Q)) {
                c.count(K_OPERAND_RANGE);
                return;
            }
            guarded(c, [&]() { return UO[i / (NU * n1)].f(inner); }, rec4(i));
        };
        run_cases(l4);
        bound += "; plus 3-operation terms g(f(s)), s in S1, |f(s)| in [1e-3,1000]";
    }

    Rn.states = SS.size();
    Rn.transitions = Rn.evaluations;
    Rn.bound_completed = bound;
    Rn.rule = "E1 closed terms: 31 leaves (integers, rationals, doubles, the 5 constants, 4 complex numbers), 35 unary node constructors (all "
              "trigonometric/hyperbolic functions and inverses, log, exp, gamma, loggamma, erf, erfc, abs, sqrt, neg, inv, unevaluated_expr), 8 binary "
              "(add, sub, mul, div, pow, atan2, max, min), relationals and Piecewise; states de-duplicated by structural key. Every term is "
              "evaluated by 8 evaluator entry points and compared with a 113-bit reference carrying a first-order double error bound delta "
              "(2u per inexact leaf, u per arithmetic operation, 4u per libm call, propagated through numeric derivative magnitudes); pass iff "
              "|result - v| <= 8 delta + 4u|v|. distinct_nontrivial = terms for which at least one reference (real or complex) was decidable";
    Rn.assumptions = {"libquadmath real/complex elementary functions, tgammaq/lgammaq/erfq/erfcq",
                      "glibc libm and libstdc++ complex functions are accurate to a few ulp (the 4u-per-call budget)",
                      "terms with delta/|v| > 2^-20, |v| outside [1e-290,1e300], complex-valued intermediate results (real evaluators), poles and "
                      "near-discontinuity comparisons are skipped and counted",
                      "exactly-on-cut arguments accept either side (signed-zero conventions are not part of the property)"};
    return Rn.finish();
}
