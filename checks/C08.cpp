// C08  Function constructors' automatic evaluation preserves value -- E5 argument tables + RefEval
// (DESIGN 5 C08, 4.1).  Every listed constructor is called on every member of a finite argument
// alphabet read off functions.cpp (pi-multiples, pi-shifts, sign forms, numbers, table keys,
// nested inverse functions, doubles).  A result that is literally F(arg) is the identity;
// every other result is value-checked against the *definition* of F applied to the argument
// value (113-bit complex arithmetic, MPFR for special functions, two-sided branch-cut rule).
#include "common.h"
#include "key.h"
#include "refeval.h"
using namespace verif;

namespace SymEngine
{
extern RCP<const Basic> &C0, &C1, &C2, &C3, &C4, &C5, &C6, &mC0, &mC1, &mC2, &mC3, &mC4, &mC5, &mC6;
}

typedef RCP<const Basic> B;
static B R(long a, long b)
{
    return Rational::from_two_ints(a, b);
}
static B Cx(long a, long b, long c, long d)
{
    return Complex::from_two_nums(*rcp_static_cast<const Number>(R(a, b)), *rcp_static_cast<const Number>(R(c, d)));
}
static B sq(const B &a)
{
    return pow(a, R(1, 2));
}

// ---------------------------------------------------------------- argument alphabet
struct Arg {
    B e;
    std::string recipe, cls, key;
    bool closed;
};
struct Alphabet {
    std::vector<Arg> v;
    std::unordered_set<std::string> seen;
    void add(const B &e, const std::string &recipe, const std::string &cls)
    {
        std::string k = key(*e);
        if (!seen.insert(k).second)
            return;
        v.push_back(Arg{e, recipe, cls, k, free_symbols(*e).empty()});
    }
};
static std::string sgn(const B &e)
{
    if (is_a_Number(*e)) {
        const Number &n = down_cast<const Number &>(*e);
        if (n.is_zero())
            return "=0";
        if (n.is_negative())
            return "<0";
        if (n.is_positive())
            return ">0";
    }
    return "";
}
static std::string istr(long k)
{
    return std::to_string(k);
}

// ---------------------------------------------------------------- references not in refeval.h
static const char *BERN[] = {"1",      "-1/2", "1/6",    "0", "-1/30",     "0", "1/42",          "0", "-1/30",        "0", "5/66",
                             "0",      "-691/2730", "0", "7/6", "0", "-3617/510", "0", "43867/798", "0", "-174611/330", "0",
                             "854513/138", "0", "-236364091/2730", "0", "8553103/6", "0", "-23749461029/870", "0",
                             "8615841276005/14322", "0", "-7709321041217/510"};
static rq bern(int k)
{
    std::string s = BERN[k];
    size_t p = s.find('/');
    if (p == std::string::npos)
        return strtoflt128(s.c_str(), nullptr);
    return strtoflt128(s.substr(0, p).c_str(), nullptr) / strtoflt128(s.substr(p + 1).c_str(), nullptr);
}
static rq binom(int n, int k)
{
    rq r = 1;
    for (int i = 1; i <= k; i++)
        r = r * (n - k + i) / i;
    return r;
}
// Hurwitz zeta for real s > 1, real a > 0: Euler-Maclaurin in quad (N = 60 direct terms, 16 corrections)
static rq hurwitz_pos(rq s, rq a)
{
    const int N = 60, M = 16;
    rq S = 0;
    for (int k = 0; k < N; k++)
        S += powq(a + k, -s);
    rq w = a + N;
    S += powq(w, 1 - s) / (s - 1) + powq(w, -s) / 2;
    rq poch = s, fact = 2; // (s)_{2j-1} and (2j)!
    rq wp = powq(w, -s - 1);
    for (int j = 1; j <= M; j++) {
        S += bern(2 * j) / fact * poch * wp;
        poch *= (s + 2 * j - 1) * (s + 2 * j);
        fact *= (2 * j + 1) * (2 * j + 2);
        wp /= w * w;
    }
    return S;
}
static bool is_intval(rq x)
{
    return x == floorq(x);
}
// zeta(s, a) for real s, real a; false + why when undecidable here
static bool ref_hurwitz(rq s, rq a, rq &out, std::string &why)
{
    if (s == 1) {
        why = "pole";
        return false;
    }
    if (is_intval(s) && s <= 0 && s >= -30) {
        // zeta(-n, a) = -B_{n+1}(a)/(n+1)   (Bernoulli polynomial; valid for every a)
        int n = (int)(-s), m = n + 1;
        rq bp = 0;
        for (int k = 0; k <= m; k++)
            bp += binom(m, k) * bern(k) * powq(a, m - k);
        out = -bp / m;
        return true;
    }
    if (s > 1) {
        if (a <= 0 && is_intval(a)) {
            why = "pole";
            return false;
        }
        rq add = 0;
        int guard = 0;
        while (a <= 0) { // zeta(s,a) = zeta(s,a+1) + a^-s : only for integer s (a^-s real)
            if (!is_intval(s) || ++guard > 64) {
                why = "hurwitz-negative-a-noninteger-s";
                return false;
            }
            add += powq(a, -s);
            a += 1;
        }
        out = hurwitz_pos(s, a) + add;
        return true;
    }
    if (a == 1) {
        EvalState st;
        cq r = mp1(mpfr_zeta, s, st);
        if (!st.ok) {
            why = st.why;
            return false;
        }
        out = re(r);
        return true;
    }
    why = "hurwitz-s<1-noninteger";
    return false;
}
static bool ref_polygamma(rq n, rq x, rq &out, std::string &why)
{
    if (!is_intval(n) || n < 0 || n > 12) {
        why = "polygamma-order-not-small-nonnegative-integer";
        return false;
    }
    if (x <= 0 && is_intval(x)) {
        why = "pole";
        return false;
    }
    if (n == 0) {
        EvalState st;
        cq r = mp1(mpfr_digamma, x, st);
        if (!st.ok) {
            why = st.why;
            return false;
        }
        out = re(r);
        return true;
    }
    int ni = (int)n;
    rq nf = 1;
    for (int i = 2; i <= ni; i++)
        nf *= i;
    rq sg = (ni % 2) ? 1 : -1; // (-1)^(n+1)
    // psi_n(x) = psi_n(x+1) - (-1)^n n! x^-(n+1)
    rq acc = 0;
    int guard = 0;
    while (x <= 0) {
        if (++guard > 64) {
            why = "polygamma-far-negative";
            return false;
        }
        acc += sg * nf * powq(x, -(rq)(ni + 1)); // -(-1)^n = (-1)^(n+1)
        x += 1;
    }
    out = sg * nf * hurwitz_pos(n + 1, x) + acc;
    return true;
}

// ---------------------------------------------------------------- functions under test
struct Fn {
    std::string name;
    int arity;
    std::function<B(const vec_basic &)> ctor;
    std::function<B(const vec_basic &)> lit; // hand-built unevaluated node (may be null: never literal)
    // reference: value of F at argument values; default = refeval of lit(_a,_b) with symbols bound to the values
    std::function<Value(const std::vector<cq> &, int)> ref;
    // optional: defect-class signature for this call ("" = default name(argclass,...))
    std::function<std::string(const vec_basic &, const B &)> sig;
};
static B SA, SB; // symbols _a, _b
static Value ref_template(const B &tmpl, const std::vector<cq> &v, int side)
{
    Env env;
    env.sym["_a"] = v[0];
    if (v.size() > 1)
        env.sym["_b"] = v[1];
    return refeval(*tmpl, env, side);
}
static Value real_ref(const std::vector<cq> &v, std::function<bool(rq &, std::string &)> f)
{
    Value r;
    for (auto &z : v)
        if (im(z) != 0) {
            r.why = "complex-special";
            return r;
        }
    rq o;
    if (!f(o, r.why))
        return r;
    if (!finiteq(o)) {
        r.why = "nonfinite";
        return r;
    }
    r.ok = true;
    r.v = mkc(o, 0);
    r.scale = fabsq(o);
    for (auto &z : v)
        r.scale = fmaxq(r.scale, absq(z));
    r.nodes = 1;
    return r;
}

// lower/upper incomplete gamma for real s and real x (beyond refeval.h's s > 0, x >= 0)
static bool ref_incgamma(bool upper, rq s, rq x, rq &out, std::string &why)
{
    bool spole = (s <= 0 && is_intval(s));
    if (x > 0 || (x == 0 && s > 0)) {
        if (!upper && spole) {
            why = "pole";
            return false;
        }
        MP ms(s), mx(x), up, g;
        mpfr_gamma_inc(up.x, ms.x, mx.x, MPFR_RNDN);
        if (!mpfr_number_p(up.x)) {
            why = "nonfinite-special";
            return false;
        }
        if (upper)
            out = up.get();
        else {
            mpfr_gamma(g.x, ms.x, MPFR_RNDN);
            mpfr_sub(g.x, g.x, up.x, MPFR_RNDN);
            out = g.get();
        }
        return true;
    }
    if (x == 0) {
        why = "pole";
        return false;
    }
    if (is_intval(s) && s >= 1 && s <= 20) {
        // Gamma(n, x) = (n-1)! e^-x sum_{k<n} x^k/k!  (entire in x)
        int n = (int)s;
        rq sum = 0, term = 1, fact = 1;
        for (int k = 0; k < n; k++) {
            if (k > 0) {
                term *= x / k;
                fact *= k;
            }
            sum += term;
        }
        rq up = fact * expq(-x) * sum;
        out = upper ? up : fact - up;
        return true;
    }
    why = "incomplete-gamma-domain";
    return false;
}

// ---- defect-class signatures for calls whose default argument classes would scatter one defect
static bool neg_nonint(const B &a)
{
    if (!is_a_Number(*a) || down_cast<const Number &>(*a).is_complex())
        return false;
    const Number &n = down_cast<const Number &>(*a);
    if (!n.is_negative())
        return false;
    if (is_a<Integer>(*a))
        return false;
    if (is_a<RealDouble>(*a)) {
        double d = down_cast<const RealDouble &>(*a).i;
        return d != std::floor(d);
    }
    return true;
}
static std::string sig_polygamma(const std::string &name, const B &x)
{
    if (neg_nonint(x))
        return name + "(negative-noninteger)";
    if (is_a<Rational>(*x)) {
        const rational_class &q = down_cast<const Rational &>(*x).as_rational_class();
        return name + "(Rational(den=" + intstr(get_den(q)) + ")" + (q > 1 ? ">1" : q > 0 ? "in(0,1)" : "<0") + ")";
    }
    return "";
}
static std::string sig_round(const std::string &name, const vec_basic &a)
{
    if (is_a<Complex>(*a[0]))
        return name + "(Complex)";
    if (is_a<Add>(*a[0])) {
        const B &c = down_cast<const Add &>(*a[0]).get_coef();
        if (is_a<Integer>(*c) && !down_cast<const Integer &>(*c).is_zero())
            return name + "(Integer+rest)";
    }
    return "";
}
template <class T>
static std::function<B(const vec_basic &)> lit1()
{
    return [](const vec_basic &a) -> B { return make_rcp<const T>(a[0]); };
}
template <class T>
static std::function<B(const vec_basic &)> lit2()
{
    return [](const vec_basic &a) -> B { return make_rcp<const T>(a[0], a[1]); };
}
static Fn F1(const std::string &n, B (*f)(const B &), std::function<B(const vec_basic &)> lit)
{
    Fn r;
    r.name = n;
    r.arity = 1;
    r.ctor = [f](const vec_basic &a) { return f(a[0]); };
    r.lit = lit;
    B tmpl = lit({SA});
    r.ref = [tmpl](const std::vector<cq> &v, int side) { return ref_template(tmpl, v, side); };
    return r;
}
static Fn F2(const std::string &n, B (*f)(const B &, const B &), std::function<B(const vec_basic &)> lit)
{
    Fn r;
    r.name = n;
    r.arity = 2;
    r.ctor = [f](const vec_basic &a) { return f(a[0], a[1]); };
    r.lit = lit;
    B tmpl = lit({SA, SB});
    r.ref = [tmpl](const std::vector<cq> &v, int side) { return ref_template(tmpl, v, side); };
    return r;
}

enum {
    K_TRIVIAL,
    K_JUDGED,
    K_POINTS,
    K_REFUSED,
    K_SKIP_POLE,
    K_SKIP_COMPLEX_SPECIAL,
    K_SKIP_NEARCUT,
    K_SKIP_DISCONT,
    K_SKIP_ARG,
    K_SKIP_REF_OTHER,
    K_SKIP_RESULT,
    K_SKIP_OVERFLOW,
    K_FLOAT,
    K_ONCUT,
    K_UNJUDGED,
    K_NONFINITE_BOTH
};
static std::vector<std::string> CN
    = {"results_literal_F(arg)_(identity)", "calls_value_checked", "grid_points_compared", "calls_refused_by_library(exception)",
       "points_skipped_pole_of_F", "points_skipped_complex_argument_of_real_special_function", "points_skipped_near_cut",
       "points_skipped_near_discontinuity", "points_skipped_argument_not_evaluable", "points_skipped_reference_undefined_other",
       "points_skipped_result_not_evaluable", "points_skipped_double_overflow", "points_compared_with_float_tolerance",
       "points_on_a_cut_(two-sided_rule)", "calls_rewritten_but_no_point_decidable", "calls_nonfinite_result_at_pole(consistent)"};

static std::vector<Env> G;

// CPU-time watchdog around one library call: an endless loop in the library dies by SIGVTALRM after s seconds of
// user CPU time (independent of machine load); the runner reports it as a hang of that case.
#include <sys/time.h>
static void cpu_limit(int s)
{
    struct itimerval t;
    memset(&t, 0, sizeof t);
    t.it_value.tv_sec = s;
    setitimer(ITIMER_VIRTUAL, &t, nullptr);
}
static std::string crash_class(const std::string &oc)
{
    if (oc.find("Virtual timer") != std::string::npos || oc == "hang")
        return "hang";
    return oc;
}

static bool has_nonfinite_leaf(const Basic &e)
{
    if (is_a<Infty>(e) || is_a<NaN>(e))
        return true;
    if (is_a<RealDouble>(e))
        return !std::isfinite(down_cast<const RealDouble &>(e).i);
    for (auto &a : e.get_args())
        if (has_nonfinite_leaf(*a))
            return true;
    return false;
}

// generic judge of one call r = f(args)
static void judge(Ctx &c, const Fn &f, const std::vector<const Arg *> &as, const std::string &recipe)
{
    vec_basic av;
    std::string sigargs;
    bool closed = true;
    for (auto a : as) {
        av.push_back(a->e);
        sigargs += (sigargs.empty() ? "" : ",") + a->cls;
        closed = closed && a->closed;
    }
    B r;
    c.eval();
    try {
        cpu_limit(1);
        r = f.ctor(av);
        cpu_limit(0);
    } catch (SymEngineException &x) {
        cpu_limit(0);
        c.count(K_REFUSED);
        c.outcome(f.name + ":throw:" + x.what());
        return;
    }
    std::string fsig = f.name + "(" + sigargs + ")";
    if (f.sig) {
        std::string o = f.sig(av, r);
        if (!o.empty())
            fsig = o;
    }
    if (f.lit) {
        B l = f.lit(av);
        if (key(*l) == key(*r)) {
            c.count(K_TRIVIAL);
            c.outcome(f.name + ":literal");
            return;
        }
    }
    c.nontrivial();
    c.outcome(f.name + ":" + type_code_name(r->get_type_code()));
    bool res_nonfinite = has_nonfinite_leaf(*r);
    bool judged = false, pole_seen = false;
    size_t ng = closed ? 1 : G.size();
    for (size_t g = 0; g < ng; g++) {
        // argument values, both cut sides
        std::vector<std::array<Value, 2>> V(as.size());
        bool okargs = true, anycut = false, fl = false;
        rq amax = 0;
        for (size_t i = 0; i < as.size(); i++) {
            V[i][0] = refeval(*as[i]->e, G[g], +1);
            if (!V[i][0].ok) {
                okargs = false;
                break;
            }
            if (V[i][0].on_cut) {
                V[i][1] = refeval(*as[i]->e, G[g], -1);
                if (!V[i][1].ok)
                    V[i][1] = V[i][0];
                anycut = true;
            } else
                V[i][1] = V[i][0];
            fl = fl || V[i][0].has_float;
            amax = fmaxq(amax, absq(V[i][0].v));
        }
        if (!okargs) {
            c.count(K_SKIP_ARG);
            continue;
        }
        // expected candidates
        std::vector<cq> exps;
        rq escale = 0;
        std::string why;
        bool refcut = false;
        int combos = anycut ? (1 << as.size()) : 1;
        for (int m = 0; m < combos; m++) {
            std::vector<cq> vals;
            for (size_t i = 0; i < as.size(); i++)
                vals.push_back(V[i][(m >> i) & 1].v);
            Value e0 = f.ref(vals, +1);
            if (e0.ok) {
                exps.push_back(e0.v);
                escale = fmaxq(escale, e0.scale);
                if (e0.on_cut) {
                    refcut = true;
                    Value e1 = f.ref(vals, -1);
                    if (e1.ok)
                        exps.push_back(e1.v);
                }
            } else if (why.empty())
                why = e0.why;
        }
        // a numerically huge expected value is a pole hit through inexact pi (tan(pi/2) = 1e34)
        std::vector<cq> fin;
        for (auto &x : exps)
            if (absq(x) < 1e20Q * (1 + amax))
                fin.push_back(x);
        if (!exps.empty() && fin.empty())
            why = "pole";
        if (fin.empty()) {
            if (why == "pole" || why == "log(0)" || why == "0^nonpositive" || why == "atan2(0,0)") {
                c.count(K_SKIP_POLE);
                pole_seen = true;
            } else if (why == "complex-special" || why == "complex-atan2" || why == "complex-maxmin")
                c.count(K_SKIP_COMPLEX_SPECIAL);
            else if (why == "near-cut")
                c.count(K_SKIP_NEARCUT);
            else if (why == "near-discontinuity")
                c.count(K_SKIP_DISCONT);
            else {
                c.count(K_SKIP_REF_OTHER);
                if (getenv("C08_DEBUG"))
                    fprintf(stderr, "REFOTHER %s : %s\n", recipe.c_str(), why.c_str());
            }
            continue;
        }
        // value of the returned tree
        Value r0 = refeval(*r, G[g], +1);
        if (!r0.ok) {
            if (res_nonfinite) {
                c.violation(fsig + "->nonfinite",
                            recipe + " returned " + sstr(r) + " [" + key(*r) + "] but the function is finite there: expected "
                                + cstr(fin[0]) + (closed ? "" : " at grid point " + std::to_string(g)));
                judged = true;
                break;
            }
            if (r0.why == "incomplete-gamma-domain" && is_a<LowerGamma>(*r) && f.name == "uppergamma") {
                c.violation(fsig + "->LowerGamma",
                            recipe + " returned " + sstr(r) + " (a LowerGamma node, infinite for s<=0) but uppergamma is finite there: expected "
                                + cstr(fin[0]));
                judged = true;
                break;
            }
            if (r0.why == "nonfinite" && r0.has_float)
                c.count(K_SKIP_OVERFLOW);
            else if (r0.why == "near-cut")
                c.count(K_SKIP_NEARCUT);
            else
                c.count(K_SKIP_RESULT);
            continue;
        }
        std::vector<cq> acts = {r0.v};
        if (r0.on_cut) {
            Value r1 = refeval(*r, G[g], -1);
            if (r1.ok)
                acts.push_back(r1.v);
        }
        fl = fl || r0.has_float;
        rq tol = fl ? 1e-9Q : 1e-25Q;
        if (fl)
            c.count(K_FLOAT);
        if (anycut || refcut || r0.on_cut)
            c.count(K_ONCUT);
        rq scale = fmaxq(fmaxq(escale, r0.scale), amax);
        bool okk = false;
        for (auto &x : fin)
            for (auto &y : acts)
                if (closeq(x, y, tol * (rq)(r0.nodes + 4), scale))
                    okk = true;
        c.count(K_POINTS);
        judged = true;
        if (!okk) {
            c.violation(fsig, recipe + " returned " + sstr(r) + " [" + key(*r) + "]; "
                                                          + (closed ? std::string("") : "at grid point " + std::to_string(g) + " ")
                                                          + "the function value is " + cstr(fin[0])
                                                          + " but the returned tree evaluates to " + cstr(acts[0]));
            break;
        }
    }
    if (judged)
        c.count(K_JUDGED);
    else if (res_nonfinite && pole_seen)
        c.count(K_NONFINITE_BOTH);
    else {
        c.count(K_UNJUDGED);
        if (getenv("C08_DEBUG"))
            fprintf(stderr, "UNJUDGED %s -> %s\n", recipe.c_str(), sstr(r).c_str());
    }
    if (c.index % 1511 == 0)
        c.sample("{\"call\":" + jstr(recipe) + ",\"result\":" + jstr(sstr(r)) + ",\"judged\":" + (judged ? "true" : "false") + "}");
}

// ---------------------------------------------------------------- extended reals for max/min
static bool xreal(const Basic &e, const Env &env, rq &out, std::string &why)
{
    if (is_a<Infty>(e)) {
        const Infty &i = down_cast<const Infty &>(e);
        if (i.is_positive_infinity())
            out = HUGE_VALQ;
        else if (i.is_negative_infinity())
            out = -HUGE_VALQ;
        else {
            why = "zoo";
            return false;
        }
        return true;
    }
    if (is_a<Max>(e) || is_a<Min>(e)) {
        bool mx = is_a<Max>(e), first = true;
        for (auto &a : e.get_args()) {
            rq v;
            if (!xreal(*a, env, v, why))
                return false;
            out = first ? v : (mx ? fmaxq(out, v) : fminq(out, v));
            first = false;
        }
        return !first;
    }
    Value v = refeval(e, env, +1);
    if (!v.ok) {
        why = v.why;
        return false;
    }
    if (im(v.v) != 0) {
        why = "complex-maxmin";
        return false;
    }
    out = re(v.v);
    return true;
}

static bool is_prime(long n)
{
    if (n < 2)
        return false;
    for (long d = 2; d * d <= n; d++)
        if (n % d == 0)
            return false;
    return true;
}

int main(int argc, char **argv)
{
    init(argc, argv, "C08");
    const bool T = opts().thorough();
    G = complex_grid();
    {
        Env e;
        e.sym = {{"x", mkc(-0.8Q, 0)}, {"y", mkc(2.1Q, 0)}, {"z", mkc(-0.35Q, 0)}, {"t", mkc(1.4Q, 0)}};
        G.push_back(e);
    }
    SA = symbol("_a");
    SB = symbol("_b");
    B x = symbol("x"), y = symbol("y");
    B s2 = sq(integer(2)), s3 = sq(integer(3)), s5 = sq(integer(5));

    // ------------------------------------------------------------ one-argument alphabet A
    Alphabet A;
    {
        int K12 = T ? 96 : 48;
        for (int k = 0; k <= K12; k++)
            for (int s = 1; s >= -1; s -= 2) {
                if (k == 0 && s < 0)
                    continue;
                A.add(mul(R(s * k, 12), pi), istr(s * k) + "*pi/12", k == 0 ? "Integer=0" : "k*pi/12");
            }
        for (int d : {5, 8, 10, 7, 3 * 5, 24}) {
            if (!T && d > 10)
                continue;
            for (int k = 1; k <= 2 * d + 2; k++)
                for (int s = 1; s >= -1; s -= 2)
                    A.add(mul(R(s * k, d), pi), istr(s * k) + "*pi/" + istr(d), "k*pi/d(not-in-table)");
        }
        // shifts  r + k*pi/d
        struct Sh {
            B r;
            const char *nm;
            int d, kmax;
        };
        std::vector<Sh> sh = {{x, "x", 2, T ? 24 : 9},
                              {x, "x", 3, T ? 14 : 7},
                              {x, "x", 12, T ? 50 : 25},
                              {x, "x", 5, T ? 11 : 6},
                              {neg(x), "-x", 2, 5},
                              {neg(x), "-x", 3, 4},
                              {sub(x, y), "x-y", 2, 5},
                              {sub(y, x), "y-x", 2, 5},
                              {mul(integer(2), x), "2*x", 1, 3},
                              {mul(integer(-2), x), "-2*x", 2, 3},
                              {mul(I, x), "I*x", 2, 4},
                              {integer(1), "1", 2, 5},
                              {integer(-1), "-1", 2, 3},
                              {R(1, 2), "1/2", 3, 4},
                              {I, "I", 2, 4},
                              {real_double(0.5), "0.5", 2, 4},
                              {add(x, integer(1)), "x+1", 2, 4},
                              {s2, "sqrt(2)", 2, 3}};
        for (auto &s : sh)
            for (int k = 1; k <= s.kmax; k++)
                for (int sg = 1; sg >= -1; sg -= 2)
                    A.add(add(s.r, mul(R(sg * k, s.d), pi)), std::string(s.nm) + (sg > 0 ? "+" : "-") + istr(k) + "*pi/" + istr(s.d),
                          std::string(is_a_Number(*s.r) ? "number" : "sym") + "+k*pi/" + istr(s.d));
        // sign forms and structure
        std::vector<std::pair<B, std::string>> forms = {{x, "x"},
                                                        {neg(x), "-x"},
                                                        {mul(integer(2), x), "2*x"},
                                                        {mul(integer(-2), x), "-2*x"},
                                                        {div(x, integer(2)), "x/2"},
                                                        {mul(R(-1, 3), x), "-x/3"},
                                                        {sub(neg(x), y), "-x-y"},
                                                        {sub(x, y), "x-y"},
                                                        {sub(y, x), "y-x"},
                                                        {add(x, y), "x+y"},
                                                        {sub(mul(integer(2), y), x), "-x+2*y"},
                                                        {mul(x, y), "x*y"},
                                                        {neg(mul(x, y)), "-x*y"},
                                                        {mul(I, x), "I*x"},
                                                        {mul(neg(I), x), "-I*x"},
                                                        {mul(Cx(1, 1, 1, 1), x), "(1+I)*x"},
                                                        {mul(Cx(-1, 1, 1, 1), x), "(-1+I)*x"},
                                                        {mul(Cx(0, 1, -1, 2), x), "-I*x/2"},
                                                        {mul(pi, x), "pi*x"},
                                                        {neg(mul(pi, x)), "-pi*x"},
                                                        {mul(pi, I), "pi*I"},
                                                        {mul(Cx(0, 1, -1, 2), pi), "-pi*I/2"},
                                                        {add(pi, I), "pi+I"},
                                                        {pow(x, integer(2)), "x**2"},
                                                        {neg(pow(x, integer(2))), "-x**2"},
                                                        {pow(x, integer(-1)), "1/x"},
                                                        {pow(x, integer(3)), "x**3"},
                                                        {sq(x), "sqrt(x)"},
                                                        {neg(sq(x)), "-sqrt(x)"},
                                                        {pow(x, y), "x**y"},
                                                        {pow(integer(2), x), "2**x"},
                                                        {mul(sq(x), y), "sqrt(x)*y"},
                                                        {mul(pow(x, integer(2)), y), "x**2*y"},
                                                        {mul(integer(2), mul(x, y)), "2*x*y"},
                                                        {mul(I, mul(x, y)), "I*x*y"},
                                                        {pow(add(x, integer(1)), integer(2)), "(x+1)**2"},
                                                        {add(x, integer(1)), "x+1"},
                                                        {add(x, integer(2)), "x+2"},
                                                        {add(x, integer(-3)), "x-3"},
                                                        {add(add(x, y), integer(-3)), "x+y-3"},
                                                        {add(x, R(1, 2)), "x+1/2"},
                                                        {add(x, R(-5, 2)), "x-5/2"},
                                                        {add(x, real_double(0.5)), "x+0.5"},
                                                        {add(x, Cx(1, 1, 1, 1)), "x+1+I"},
                                                        {add(x, I), "x+I"},
                                                        {sub(integer(1), x), "1-x"},
                                                        {sub(integer(-1), x), "-1-x"},
                                                        {add(integer(1), floor(x)), "1+floor(x)"},
                                                        {add(integer(1), mul(integer(2), x)), "1+2*x"},
                                                        {sub(integer(1), mul(integer(2), x)), "1-2*x"}};
        for (auto &p : forms)
            A.add(p.first, p.second, "symbolic:" + p.second);
        // integers, rationals, Gaussian rationals
        for (int k = -4; k <= (T ? 12 : 6); k++)
            A.add(integer(k), istr(k), "Integer" + sgn(integer(k)));
        for (int k : {-7, -12, 20, 25, 30})
            A.add(integer(k), istr(k), "Integer" + sgn(integer(k)));
        for (int d = 2; d <= (T ? 6 : 4); d++)
            for (int n = -(3 * d + 1); n <= 3 * d + 1; n++) {
                B q = R(n, d);
                if (is_a<Rational>(*q))
                    A.add(q, istr(n) + "/" + istr(d), "Rational(den=" + istr(down_cast<const Rational &>(*q).get_den()->as_int()) + ")" + sgn(q));
            }
        for (int n : {13, 15, 17, 19, 21, 23, 25, 27, 41})
            for (int s = 1; s >= -1; s -= 2)
                A.add(R(s * n, 2), istr(s * n) + "/2", std::string(n >= 21 ? "Rational(den=2,|x|>10)" : "Rational(den=2,large)") + (s > 0 ? ">0" : "<0"));
        struct GQ {
            long a, b, c, d;
        };
        for (GQ g : std::vector<GQ>{{0, 1, 1, 1},  {0, 1, -1, 1}, {0, 1, 2, 1},  {0, 1, 1, 2},  {0, 1, -3, 2}, {1, 1, 1, 1},  {1, 1, -1, 1},
                                    {-1, 1, 1, 1}, {-1, 1, -1, 1}, {1, 2, 1, 2},  {-1, 2, 3, 4}, {2, 1, 3, 1},  {3, 2, -2, 1}, {-5, 2, -1, 3},
                                    {0, 1, 3, 1},  {0, 1, -1, 3}}) {
            B z = Cx(g.a, g.b, g.c, g.d);
            A.add(z, sstr(z), g.a == 0 ? (g.c > 0 ? "Complex(re=0,im>0)" : "Complex(re=0,im<0)") : (g.a > 0 ? "Complex(re>0)" : "Complex(re<0)"));
        }
        // constants and special closed values
        std::vector<std::pair<B, std::string>> cs = {{pi, "pi"},
                                                     {E, "E"},
                                                     {EulerGamma, "EulerGamma"},
                                                     {Catalan, "Catalan"},
                                                     {GoldenRatio, "GoldenRatio"},
                                                     {neg(E), "-E"},
                                                     {neg(GoldenRatio), "-GoldenRatio"},
                                                     {neg(EulerGamma), "-EulerGamma"},
                                                     {div(one, E), "1/E"},
                                                     {div(minus_one, E), "-1/E"},
                                                     {pow(E, integer(2)), "E**2"},
                                                     {div(log(integer(2)), integer(-2)), "-log(2)/2"},
                                                     {log(integer(2)), "log(2)"},
                                                     {sq(pi), "sqrt(pi)"},
                                                     {pow(pi, integer(2)), "pi**2"},
                                                     {add(pi, integer(1)), "1+pi"},
                                                     {add(pi, integer(-3)), "pi-3"},
                                                     {sub(integer(4), pi), "4-pi"},
                                                     {add(E, R(1, 2)), "E+1/2"},
                                                     {mul(integer(2), E), "2*E"},
                                                     {mul(I, E), "I*E"},
                                                     {div(pi, E), "pi/E"}};
        for (auto &p : cs)
            A.add(p.first, p.second, is_a<Constant>(*p.first) ? "Constant" : "closed:" + p.second);
        // inverse-function table keys (library's own keys and their reciprocals), and independently built surds
        B *Ck[] = {&C0, &C1, &C2, &C3, &C4, &C5, &C6, &mC0, &mC1, &mC2, &mC3, &mC4, &mC5, &mC6};
        const char *Cn[] = {"C0", "C1", "C2", "C3", "C4", "C5", "C6", "mC0", "mC1", "mC2", "mC3", "mC4", "mC5", "mC6"};
        for (int i = 0; i < 14; i++) {
            A.add(*Ck[i], std::string("sin-table key ") + Cn[i] + "=" + sstr(*Ck[i]), std::string("cst-key:") + Cn[i]);
            A.add(div(one, *Ck[i]), std::string("1/") + Cn[i] + "=" + sstr(div(one, *Ck[i])), std::string("1/cst-key:") + Cn[i]);
        }
        B t5 = sq(add(integer(5), mul(integer(2), s5)));
        std::vector<std::pair<B, std::string>> tct = {{div(one, s3), ">0"},
                                                      {div(minus_one, s3), "<0"},
                                                      {s3, ">0"},
                                                      {neg(s3), "<0"},
                                                      {add(one, s2), ">0"},
                                                      {neg(add(one, s2)), "<0"},
                                                      {sub(s2, one), ">0"},
                                                      {sub(one, s2), "<0"},
                                                      {sub(integer(2), s3), ">0"},
                                                      {sub(s3, integer(2)), "<0"},
                                                      {t5, ">0"},
                                                      {neg(t5), "<0"}};
        for (auto &p : tct) {
            A.add(p.first, "tan-table key " + sstr(p.first), "tct-key" + p.second);
            A.add(div(one, p.first), "1/(tan-table key) " + sstr(div(one, p.first)), "1/tct-key" + p.second);
        }
        std::vector<std::pair<B, std::string>> surds = {{s2, "sqrt(2)"},
                                                        {neg(s2), "-sqrt(2)"},
                                                        {div(s2, integer(2)), "sqrt(2)/2"},
                                                        {div(s3, integer(2)), "sqrt(3)/2"},
                                                        {div(s3, integer(-2)), "-sqrt(3)/2"},
                                                        {div(s3, integer(3)), "sqrt(3)/3"},
                                                        {div(integer(2), s3), "2/sqrt(3)"},
                                                        {div(integer(-2), s3), "-2/sqrt(3)"},
                                                        {add(integer(2), s3), "2+sqrt(3)"},
                                                        {neg(add(integer(2), s3)), "-2-sqrt(3)"},
                                                        {div(add(s5, one), integer(4)), "(sqrt(5)+1)/4"},
                                                        {div(sub(s5, one), integer(4)), "(sqrt(5)-1)/4"},
                                                        {div(add(s5, one), integer(-4)), "-(sqrt(5)+1)/4"},
                                                        {div(sub(one, s5), integer(4)), "(1-sqrt(5))/4"},
                                                        {sq(div(sub(integer(5), s5), integer(8))), "sqrt((5-sqrt(5))/8)"},
                                                        {neg(sq(div(sub(integer(5), s5), integer(8)))), "-sqrt((5-sqrt(5))/8)"},
                                                        {div(sq(sub(integer(10), mul(integer(2), s5))), integer(4)), "sqrt(10-2*sqrt(5))/4"},
                                                        {sub(s5, integer(1)), "sqrt(5)-1"},
                                                        {add(s5, integer(1)), "sqrt(5)+1"},
                                                        {div(add(s3, one), mul(integer(2), s2)), "(sqrt(3)+1)/(2*sqrt(2))"},
                                                        {div(sub(one, s3), mul(integer(2), s2)), "(1-sqrt(3))/(2*sqrt(2))"},
                                                        {div(add(sq(integer(6)), s2), integer(4)), "(sqrt(6)+sqrt(2))/4"},
                                                        {div(sub(sq(integer(6)), s2), integer(4)), "(sqrt(6)-sqrt(2))/4"},
                                                        {mul(I, s3), "I*sqrt(3)"},
                                                        {pow(integer(2), R(1, 3)), "2**(1/3)"}};
        for (auto &p : surds)
            A.add(p.first, p.second, "surd:" + p.second);
        // doubles
        for (double d : {0.0, 0.5, -0.5, 1.0, -1.0, 2.0, -2.0, 0.25, -0.25, 3.5, -3.5, 1e-3, 10.5, -10.5, 1.5, 0.75, -0.75, 3.0, -3.0, 6.0})
            A.add(real_double(d), "RealDouble(" + std::to_string(d) + ")", "RealDouble" + sgn(real_double(d)));
        if (T)
            for (double d : {0.1, -0.1, 0.9, -0.9, 1.1, -1.1, 2.5, -2.5, 7.25, -7.25, 4.0, 5.0, 0.3333333333333333, 100.0})
                A.add(real_double(d), "RealDouble(" + std::to_string(d) + ")", "RealDouble" + sgn(real_double(d)));
        for (auto z : {std::complex<double>(0.5, 0.25), std::complex<double>(-1.5, 2.0), std::complex<double>(0.0, 1.0),
                       std::complex<double>(2.0, -0.5), std::complex<double>(0.0, -0.5), std::complex<double>(-0.25, -0.75)})
            A.add(complex_double(z), "ComplexDouble(" + std::to_string(z.real()) + "," + std::to_string(z.imag()) + ")", "ComplexDouble");
        // nested functions (rules f(f^-1(x)), floor(floor), conjugate(f(..)), sign(sign), abs(abs), ...)
        std::vector<std::pair<const char *, B (*)(const B &)>> inner
            = {{"asin", asin},   {"acos", acos},     {"atan", atan},   {"acot", acot},   {"asec", asec},       {"acsc", acsc},
               {"sin", sin},     {"cos", cos},       {"tan", tan},     {"cot", cot},     {"sec", sec},         {"csc", csc},
               {"sinh", sinh},   {"cosh", cosh},     {"tanh", tanh},   {"coth", coth},   {"sech", sech},       {"csch", csch},
               {"asinh", asinh}, {"acosh", acosh},   {"atanh", atanh}, {"acoth", acoth}, {"asech", asech},     {"acsch", acsch},
               {"log", log},     {"exp", exp},       {"abs", abs},     {"sign", sign},   {"floor", floor},     {"ceiling", ceiling},
               {"truncate", truncate}, {"conjugate", conjugate}, {"gamma", gamma}, {"loggamma", loggamma}, {"erf", erf}, {"erfc", erfc},
               {"lambertw", lambertw}, {"zeta", zeta}, {"dirichlet_eta", dirichlet_eta}};
        for (auto &p : inner) {
            A.add(p.second(x), std::string(p.first) + "(x)", std::string("fn-of-x:") + p.first);
            A.add(p.second(R(1, 3)), std::string(p.first) + "(1/3)", std::string("fn-closed:") + p.first);
            A.add(p.second(integer(3)), std::string(p.first) + "(3)", std::string("fn-closed:") + p.first);
            if (T) {
                A.add(p.second(neg(x)), std::string(p.first) + "(-x)", std::string("fn-of-x:") + p.first);
                A.add(p.second(add(x, y)), std::string(p.first) + "(x+y)", std::string("fn-of-x:") + p.first);
                A.add(neg(p.second(x)), std::string("-") + p.first + "(x)", std::string("neg-fn-of-x:") + p.first);
            }
        }
        A.add(atan2(x, y), "atan2(x,y)", "fn2-of-xy:atan2");
        A.add(kronecker_delta(x, y), "kronecker_delta(x,y)", "fn2-of-xy:kronecker_delta");
        A.add(lowergamma(x, y), "lowergamma(x,y)", "fn2-of-xy:lowergamma");
        A.add(uppergamma(x, y), "uppergamma(x,y)", "fn2-of-xy:uppergamma");
        A.add(beta(x, y), "beta(x,y)", "fn2-of-xy:beta");
        A.add(polygamma(x, y), "polygamma(x,y)", "fn2-of-xy:polygamma");
        A.add(SymEngine::max(vec_basic{x, y}), "max(x,y)", "fn2-of-xy:max");
        A.add(SymEngine::min(vec_basic{x, integer(1)}), "min(x,1)", "fn2-of-xy:min");
        A.add(function_symbol("f", x), "f(x)", "FunctionSymbol");
    }
    const long long NA = A.v.size();

    // ------------------------------------------------------------ one-argument functions
    std::vector<Fn> F;
    F.push_back(F1("sin", sin, lit1<Sin>()));
    F.push_back(F1("cos", cos, lit1<Cos>()));
    F.push_back(F1("tan", tan, lit1<Tan>()));
    F.push_back(F1("cot", cot, lit1<Cot>()));
    F.push_back(F1("csc", csc, lit1<Csc>()));
    F.push_back(F1("sec", sec, lit1<Sec>()));
    F.push_back(F1("asin", asin, lit1<ASin>()));
    F.push_back(F1("acos", acos, lit1<ACos>()));
    F.push_back(F1("asec", asec, lit1<ASec>()));
    F.push_back(F1("acsc", acsc, lit1<ACsc>()));
    F.push_back(F1("atan", atan, lit1<ATan>()));
    F.push_back(F1("acot", acot, lit1<ACot>()));
    F.push_back(F1("sinh", sinh, lit1<Sinh>()));
    F.push_back(F1("cosh", cosh, lit1<Cosh>()));
    F.push_back(F1("tanh", tanh, lit1<Tanh>()));
    F.push_back(F1("coth", coth, lit1<Coth>()));
    F.push_back(F1("csch", csch, lit1<Csch>()));
    F.push_back(F1("sech", sech, lit1<Sech>()));
    F.push_back(F1("asinh", asinh, lit1<ASinh>()));
    F.push_back(F1("acosh", acosh, lit1<ACosh>()));
    F.push_back(F1("atanh", atanh, lit1<ATanh>()));
    F.push_back(F1("acoth", acoth, lit1<ACoth>()));
    F.push_back(F1("asech", asech, lit1<ASech>()));
    F.push_back(F1("acsch", acsch, lit1<ACsch>()));
    F.push_back(F1("exp", exp, [](const vec_basic &a) -> B { return make_rcp<const Pow>(E, a[0]); }));
    F.push_back(F1("log", log, lit1<Log>()));
    F.push_back(F1("abs", abs, lit1<Abs>()));
    F.push_back(F1("sign", sign, lit1<Sign>()));
    F.push_back(F1("floor", floor, lit1<Floor>()));
    F.back().sig = [](const vec_basic &a, const B &) { return sig_round("floor", a); };
    F.push_back(F1("ceiling", ceiling, lit1<Ceiling>()));
    F.back().sig = [](const vec_basic &a, const B &) { return sig_round("ceiling", a); };
    F.push_back(F1("truncate", truncate, lit1<Truncate>()));
    F.back().sig = [](const vec_basic &a, const B &) { return sig_round("truncate", a); };
    F.push_back(F1("conjugate", conjugate, lit1<Conjugate>()));
    F.push_back(F1("gamma", gamma, lit1<Gamma>()));
    F.push_back(F1("loggamma", loggamma, lit1<LogGamma>()));
    F.push_back(F1("zeta", zeta, lit1<Zeta>()));
    F.push_back(F1("dirichlet_eta", dirichlet_eta, lit1<Dirichlet_eta>()));
    F.push_back(F1("erf", erf, lit1<Erf>()));
    F.push_back(F1("erfc", erfc, lit1<Erfc>()));
    F.push_back(F1("lambertw", lambertw, lit1<LambertW>()));
    F.push_back(F1("digamma", digamma, [](const vec_basic &a) -> B { return make_rcp<const PolyGamma>(zero, a[0]); }));
    F.back().sig = [](const vec_basic &a, const B &) { return sig_polygamma("digamma", a[0]); };
    {
        Fn t = F1("trigamma", trigamma, [](const vec_basic &a) -> B { return make_rcp<const PolyGamma>(one, a[0]); });
        t.ref = [](const std::vector<cq> &v, int) {
            return real_ref(v, [&](rq &o, std::string &why) { return ref_polygamma(1, re(v[0]), o, why); });
        };
        t.sig = [](const vec_basic &a, const B &) { return sig_polygamma("trigamma", a[0]); };
        F.push_back(t);
    }
    const long long NF = F.size();

    CaseSet c1;
    c1.name = "F1(A)";
    c1.n = NF * NA;
    c1.counter_names = CN;
    c1.desc = [&](long long i) { return F[i / NA].name + "(" + A.v[i % NA].recipe + ")"; };
    c1.crash_sig = [&](long long i, const std::string &oc) { return crash_class(oc) + ":" + F[i / NA].name + "(" + A.v[i % NA].cls + ")"; };
    c1.body = [&](long long i, Ctx &c) { judge(c, F[i / NA], {&A.v[i % NA]}, c1.desc(i)); };
    run_cases(c1);

    // ------------------------------------------------------------ two-argument functions x B^2
    Alphabet Bq;
    {
        for (int k : {0, 1, -1, 2, -2, 3, 4, 5, -3})
            Bq.add(integer(k), istr(k), "Integer" + sgn(integer(k)));
        for (auto q : std::vector<std::pair<int, int>>{{1, 2}, {-1, 2}, {3, 2}, {5, 2}, {-3, 2}, {1, 3}, {2, 3}, {1, 4}, {3, 4}, {7, 4}, {-1, 3}})
            Bq.add(R(q.first, q.second), istr(q.first) + "/" + istr(q.second), "Rational(den=" + istr(q.second) + ")" + sgn(R(q.first, q.second)));
        Bq.add(s3, "sqrt(3)", "surd>0");
        Bq.add(neg(s3), "-sqrt(3)", "surd<0");
        Bq.add(div(one, s3), "1/sqrt(3)", "surd>0");
        Bq.add(real_double(0.5), "0.5", "RealDouble>0");
        Bq.add(real_double(-2.0), "-2.0", "RealDouble<0");
        Bq.add(real_double(1.0), "1.0", "RealDouble>0");
        Bq.add(x, "x", "Symbol");
        Bq.add(y, "y", "Symbol");
        Bq.add(neg(x), "-x", "-Symbol");
        Bq.add(mul(integer(2), x), "2*x", "k*Symbol");
        Bq.add(mul(s3, x), "sqrt(3)*x", "surd*Symbol");
        Bq.add(add(x, integer(1)), "x+1", "Symbol+1");
        Bq.add(pi, "pi", "Constant");
        Bq.add(E, "E", "Constant");
        Bq.add(I, "I", "Complex");
        Bq.add(Cx(1, 1, 1, 1), "1+I", "Complex");
        if (T) {
            for (int k : {6, -4, 7, 10})
                Bq.add(integer(k), istr(k), "Integer" + sgn(integer(k)));
            for (auto q : std::vector<std::pair<int, int>>{{-5, 2}, {7, 2}, {9, 2}, {4, 3}, {5, 4}, {-1, 4}, {1, 5}, {23, 2}})
                Bq.add(R(q.first, q.second), istr(q.first) + "/" + istr(q.second),
                       "Rational(den=" + istr(q.second) + ")" + sgn(R(q.first, q.second)));
            Bq.add(add(one, s2), "1+sqrt(2)", "surd>0");
            Bq.add(sub(one, s2), "1-sqrt(2)", "surd<0");
            Bq.add(real_double(2.5), "2.5", "RealDouble>0");
            Bq.add(real_double(0.0), "0.0", "RealDouble=0");
            Bq.add(neg(y), "-y", "-Symbol");
            Bq.add(sub(x, y), "x-y", "Symbol-Symbol");
            Bq.add(GoldenRatio, "GoldenRatio", "Constant");
        }
    }
    const long long NB = Bq.v.size();
    std::vector<Fn> F2v;
    F2v.push_back(F2("atan2", atan2, lit2<ATan2>()));
    F2v.back().sig = [](const vec_basic &a, const B &r) -> std::string {
        if (!(is_a_Number(*a[0]) && is_a_Number(*a[1])) && !is_a<ATan2>(*r))
            return "atan2(not-both-Number,ratio-in-tan-table)";
        return "";
    };
    F2v.push_back(F2("beta", beta, lit2<Beta>()));
    F2v.back().sig = [](const vec_basic &a, const B &) -> std::string {
        if (eq(*add(a[0], a[1]), *one))
            return "beta(x,y|x+y=1)";
        // gamma_multiple_2 is called on x, y or x+y: same int overflow as gamma(23/2)
        for (const B &h : {a[0], a[1], add(a[0], a[1])})
            if (is_a<Rational>(*h)) {
                const rational_class &q = down_cast<const Rational &>(*h).as_rational_class();
                if (get_den(q) == 2 && (get_num(q) >= 21 || get_num(q) <= -21))
                    return "beta(half-integer,|x|>10)";
            }
        return "";
    };
    F2v.push_back(F2("kronecker_delta", kronecker_delta, lit2<KroneckerDelta>()));
    F2v.push_back(F2("lowergamma", lowergamma, lit2<LowerGamma>()));
    F2v.back().ref = [](const std::vector<cq> &v, int) {
        return real_ref(v, [&](rq &o, std::string &why) { return ref_incgamma(false, re(v[0]), re(v[1]), o, why); });
    };
    {
        Fn u = F2("uppergamma", uppergamma, lit2<UpperGamma>());
        u.ref = [](const std::vector<cq> &v, int) {
            return real_ref(v, [&](rq &o, std::string &why) { return ref_incgamma(true, re(v[0]), re(v[1]), o, why); });
        };
        u.sig = [](const vec_basic &a, const B &) -> std::string {
            if (is_a<Integer>(*a[0]) && !down_cast<const Integer &>(*a[0]).is_positive())
                return "uppergamma(Integer<=0,*)";
            return "";
        };
        F2v.push_back(u);
    }
    {
        Fn p = F2("polygamma", polygamma, lit2<PolyGamma>());
        p.ref = [](const std::vector<cq> &v, int) {
            return real_ref(v, [&](rq &o, std::string &why) { return ref_polygamma(re(v[0]), re(v[1]), o, why); });
        };
        p.sig = [](const vec_basic &a, const B &) -> std::string {
            std::string o = sig_polygamma("polygamma", a[1]);
            return o.empty() ? o : o.substr(0, 10) + "*," + o.substr(10);
        };
        F2v.push_back(p);
    }
    {
        Fn z = F2("zeta", zeta, lit2<Zeta>());
        z.ref = [](const std::vector<cq> &v, int) {
            return real_ref(v, [&](rq &o, std::string &why) { return ref_hurwitz(re(v[0]), re(v[1]), o, why); });
        };
        F2v.push_back(z);
    }
    {
        Fn l;
        l.name = "log(arg,base)";
        l.arity = 2;
        l.ctor = [](const vec_basic &a) { return log(a[0], a[1]); };
        B tmpl = div(make_rcp<const Log>(SA), make_rcp<const Log>(SB));
        l.ref = [tmpl](const std::vector<cq> &v, int side) {
            if (v[1] == mkc(1, 0)) {
                Value r;
                r.why = "pole";
                return r;
            }
            return ref_template(tmpl, v, side);
        };
        F2v.push_back(l);
    }
    const long long NF2 = F2v.size();
    CaseSet c2;
    c2.name = "F2(B,B)";
    c2.n = NF2 * NB * NB;
    c2.counter_names = CN;
    c2.desc = [&](long long i) {
        return F2v[i / (NB * NB)].name + "(" + Bq.v[(i / NB) % NB].recipe + ", " + Bq.v[i % NB].recipe + ")";
    };
    c2.crash_sig = [&](long long i, const std::string &oc) {
        return crash_class(oc) + ":" + F2v[i / (NB * NB)].name + "(" + Bq.v[(i / NB) % NB].cls + "," + Bq.v[i % NB].cls + ")";
    };
    c2.body = [&](long long i, Ctx &c) { judge(c, F2v[i / (NB * NB)], {&Bq.v[(i / NB) % NB], &Bq.v[i % NB]}, c2.desc(i)); };
    run_cases(c2);

    // ------------------------------------------------------------ max / min over tuples of length <= 3
    Alphabet Mq;
    {
        Mq.add(integer(-1), "-1", "Integer");
        Mq.add(integer(0), "0", "Integer");
        Mq.add(integer(2), "2", "Integer");
        Mq.add(R(1, 2), "1/2", "Rational");
        Mq.add(R(-3, 2), "-3/2", "Rational");
        Mq.add(real_double(0.5), "0.5", "RealDouble");
        Mq.add(real_double(2.0), "2.0", "RealDouble");
        Mq.add(real_double(-1.5), "-1.5", "RealDouble");
        Mq.add(x, "x", "Symbol");
        Mq.add(y, "y", "Symbol");
        Mq.add(add(x, integer(1)), "x+1", "Add");
        Mq.add(pi, "pi", "Constant");
        Mq.add(E, "E", "Constant");
        Mq.add(s2, "sqrt(2)", "Pow");
        Mq.add(SymEngine::max(vec_basic{x, integer(2)}), "max(x,2)", "Max");
        Mq.add(SymEngine::min(vec_basic{y, integer(1)}), "min(y,1)", "Min");
        Mq.add(SymEngine::max(vec_basic{x, y}), "max(x,y)", "Max");
        Mq.add(SymEngine::min(vec_basic{x, real_double(0.5)}), "min(x,0.5)", "Min");
        Mq.add(Inf, "oo", "Infty");
        Mq.add(NegInf, "-oo", "Infty");
        Mq.add(I, "I", "Complex");
        if (T) {
            Mq.add(integer(3), "3", "Integer");
            Mq.add(real_double(-1.0), "-1.0", "RealDouble");
            Mq.add(neg(x), "-x", "Mul");
            Mq.add(SymEngine::max(vec_basic{x, real_double(2.0)}), "max(x,2.0)", "Max");
            Mq.add(SymEngine::min(vec_basic{x, y}), "min(x,y)", "Min");
            Mq.add(R(7, 3), "7/3", "Rational");
        }
    }
    const long long NM = Mq.v.size();
    const long long NT = NM + NM * NM + NM * NM * NM;
    auto tuple_of = [&](long long j, std::vector<int> &t) {
        t.clear();
        if (j < NM)
            t = {(int)j};
        else if (j < NM + NM * NM) {
            j -= NM;
            t = {(int)(j / NM), (int)(j % NM)};
        } else {
            j -= NM + NM * NM;
            t = {(int)(j / (NM * NM)), (int)((j / NM) % NM), (int)(j % NM)};
        }
    };
    CaseSet c3;
    c3.name = "maxmin(tuples<=3)";
    c3.n = 2 * NT;
    c3.counter_names = CN;
    c3.desc = [&](long long i) {
        std::vector<int> t;
        tuple_of(i % NT, t);
        std::string s = i < NT ? "max(" : "min(";
        for (size_t k = 0; k < t.size(); k++)
            s += (k ? ", " : "") + Mq.v[t[k]].recipe;
        return s + ")";
    };
    c3.body = [&](long long i, Ctx &c) {
        bool mx = i < NT;
        std::vector<int> t;
        tuple_of(i % NT, t);
        vec_basic av;
        std::string sig = mx ? "max(" : "min(";
        std::set<std::string> kinds;
        for (int k : t) {
            av.push_back(Mq.v[k].e);
            kinds.insert(Mq.v[k].cls);
        }
        for (auto &k : kinds)
            sig += k + ",";
        sig += ")";
        c.eval();
        B r;
        try {
            r = mx ? SymEngine::max(av) : SymEngine::min(av);
        } catch (SymEngineException &e) {
            c.count(K_REFUSED);
            c.outcome(std::string("maxmin:throw:") + e.what());
            return;
        }
        B l = mx ? (B)make_rcp<const Max>(vec_basic(av)) : (B)make_rcp<const Min>(vec_basic(av));
        if (av.size() > 1 && key(*l) == key(*r)) {
            c.count(K_TRIVIAL);
            c.outcome("maxmin:literal");
            return;
        }
        c.nontrivial();
        c.outcome(std::string(mx ? "max:" : "min:") + type_code_name(r->get_type_code()) + ":" + std::to_string(r->get_args().size()));
        bool judged = false;
        for (size_t g : {(size_t)1, (size_t)4}) { // the two real grid points
            std::string why;
            rq want = 0, got = 0;
            bool first = true, ok = true;
            for (auto &a : av) {
                rq v;
                if (!xreal(*a, G[g], v, why)) {
                    ok = false;
                    break;
                }
                want = first ? v : (mx ? fmaxq(want, v) : fminq(want, v));
                first = false;
            }
            if (!ok) {
                c.count(K_SKIP_ARG);
                continue;
            }
            if (!xreal(*r, G[g], got, why)) {
                c.count(K_SKIP_RESULT);
                continue;
            }
            c.count(K_POINTS);
            judged = true;
            bool same = (want == got) || (finiteq(want) && finiteq(got) && fabsq(want - got) <= 1e-25Q * (fabsq(want) + 1));
            if (!same) {
                c.violation(sig, c3.desc(i) + " returned " + sstr(r) + "; at real grid point " + std::to_string(g) + " the value is " + qstr(want)
                                     + " but the returned tree evaluates to " + qstr(got));
                break;
            }
        }
        c.count(judged ? K_JUDGED : K_UNJUDGED);
        if (i % 997 == 0)
            c.sample("{\"call\":" + jstr(c3.desc(i)) + ",\"result\":" + jstr(sstr(r)) + "}");
    };
    run_cases(c3);

    // ------------------------------------------------------------ levi_civita over {0..D-1}^<=L and symbolic tuples
    const int LD = T ? 5 : 4, LL = T ? 5 : 4;
    std::vector<std::vector<int>> LT;
    for (int len = 1; len <= LL; len++) {
        long long cnt = 1;
        for (int k = 0; k < len; k++)
            cnt *= LD;
        for (long long j = 0; j < cnt; j++) {
            std::vector<int> t(len);
            long long q = j;
            for (int k = len - 1; k >= 0; k--) {
                t[k] = q % LD;
                q /= LD;
            }
            LT.push_back(t);
        }
    }
    // symbolic entries: -1 = x, -2 = y
    for (auto t : std::vector<std::vector<int>>{{-1}, {-1, -2}, {-1, -1}, {-1, 1, -1}, {-1, -2, 1}, {1, -1, 1}, {0, 1, -1}, {-2, -1, -2, 0}})
        LT.push_back(t);
    CaseSet c4;
    c4.name = "levi_civita";
    c4.n = LT.size();
    c4.counter_names = CN;
    auto lc_args = [&](const std::vector<int> &t) {
        vec_basic v;
        for (int k : t)
            v.push_back(k == -1 ? x : k == -2 ? y : (B)integer(k));
        return v;
    };
    c4.desc = [&](long long i) {
        std::string s = "levi_civita(";
        for (size_t k = 0; k < LT[i].size(); k++)
            s += (k ? "," : "") + (LT[i][k] == -1 ? std::string("x") : LT[i][k] == -2 ? std::string("y") : istr(LT[i][k]));
        return s + ")";
    };
    c4.body = [&](long long i, Ctx &c) {
        const std::vector<int> &t = LT[i];
        int n = t.size();
        c.eval();
        B r;
        try {
            r = levi_civita(lc_args(t));
        } catch (SymEngineException &e) {
            c.count(K_REFUSED);
            c.outcome(std::string("levi_civita:throw:") + e.what());
            return;
        }
        bool symbolic = false, dup = false;
        for (int a = 0; a < n; a++) {
            if (t[a] < 0)
                symbolic = true;
            for (int b = a + 1; b < n; b++)
                if (t[a] == t[b])
                    dup = true;
        }
        c.outcome("levi_civita:" + sstr(r).substr(0, 12));
        if (symbolic && !dup) {
            if (is_a<LeviCivita>(*r) && key(*r) == key(*make_rcp<const LeviCivita>(lc_args(t))))
                c.count(K_TRIVIAL);
            else
                c.violation("levi_civita(symbolic,distinct)", c4.desc(i) + " returned " + sstr(r) + " instead of the unevaluated symbol");
            return;
        }
        c.nontrivial();
        long want;
        if (dup)
            want = 0;
        else {
            // defined only for a permutation of 0..n-1 or of 1..n
            int lo = *std::min_element(t.begin(), t.end()), hi = *std::max_element(t.begin(), t.end());
            if (!((lo == 0 && hi == n - 1) || (lo == 1 && hi == n))) {
                c.count(K_SKIP_REF_OTHER); // indices outside a contiguous range: the symbol is not defined
                return;
            }
            int inv = 0;
            for (int a = 0; a < n; a++)
                for (int b = a + 1; b < n; b++)
                    if (t[a] > t[b])
                        inv++;
            want = (inv % 2) ? -1 : 1;
        }
        c.count(K_JUDGED);
        c.count(K_POINTS);
        if (!(is_a<Integer>(*r) && down_cast<const Integer &>(*r).as_integer_class() == want))
            c.violation(std::string("levi_civita(") + (dup ? "repeated-index" : "permutation") + ",len=" + istr(n) + ")",
                        c4.desc(i) + " returned " + sstr(r) + ", definition gives " + istr(want));
        if (i % 61 == 0)
            c.sample("{\"call\":" + jstr(c4.desc(i)) + ",\"result\":" + jstr(sstr(r)) + "}");
    };
    run_cases(c4);

    // ------------------------------------------------------------ primepi / primorial vs trial division
    struct PA {
        B e;
        std::string recipe, cls;
        double val;
    };
    std::vector<PA> PV;
    const int PN = T ? 2000 : 200;
    for (int k = -2; k <= PN; k++) {
        PV.push_back({integer(k), istr(k), "Integer", (double)k});
        if (k <= 60 || k % 7 == 0) {
            PV.push_back({R(2 * k + 1, 2), istr(2 * k + 1) + "/2", "Rational", k + 0.5});
            PV.push_back({real_double(k + 0.5), std::to_string(k + 0.5), "RealDouble", k + 0.5});
            PV.push_back({real_double((double)k), std::to_string((double)k), "RealDouble", (double)k});
        }
    }
    PV.push_back({pi, "pi", "Constant", 3.14159});
    PV.push_back({E, "E", "Constant", 2.71828});
    PV.push_back({GoldenRatio, "GoldenRatio", "Constant", 1.618});
    PV.push_back({EulerGamma, "EulerGamma", "Constant", 0.577});
    PV.push_back({x, "x", "Symbol", NAN});
    CaseSet c5;
    c5.name = "primepi/primorial";
    c5.n = 2 * PV.size();
    c5.counter_names = CN;
    c5.desc = [&](long long i) { return std::string(i % 2 ? "primorial(" : "primepi(") + PV[i / 2].recipe + ")"; };
    c5.body = [&](long long i, Ctx &c) {
        const PA &p = PV[i / 2];
        bool prim = i % 2;
        c.eval();
        B r;
        try {
            r = prim ? primorial(p.e) : primepi(p.e);
        } catch (SymEngineException &e) {
            c.count(K_REFUSED);
            c.outcome(std::string(prim ? "primorial" : "primepi") + ":throw:" + e.what());
            return;
        }
        if (std::isnan(p.val)) {
            c.count(K_TRIVIAL);
            c.outcome("ntheory:literal");
            return;
        }
        c.nontrivial();
        long n = (long)std::floor(p.val);
        mpz_class want = prim ? 1 : 0;
        for (long q = 2; q <= n; q++)
            if (is_prime(q)) {
                if (prim)
                    want *= (unsigned long)q;
                else
                    want += 1;
            }
        c.count(K_JUDGED);
        c.count(K_POINTS);
        std::string got = sstr(r);
        c.outcome(std::string(prim ? "primorial:" : "primepi:") + (got.size() > 6 ? "big" : got));
        bool ok = is_a<Integer>(*r) && intstr(down_cast<const Integer &>(*r).as_integer_class()) == want.get_str();
        if (!ok)
            c.violation(std::string(prim ? "primorial(" : "primepi(") + p.cls + ")",
                        c5.desc(i) + " returned " + got + ", trial division gives " + want.get_str());
        if (i % 211 == 0)
            c.sample("{\"call\":" + jstr(c5.desc(i)) + ",\"result\":" + jstr(got) + "}");
    };
    run_cases(c5);

    Run &Rn = run();
    Rn.counters["alphabet_A(one-argument)"] = NA;
    Rn.counters["alphabet_B(two-argument)"] = NB;
    Rn.counters["alphabet_M(max/min)"] = NM;
    Rn.counters["functions_one_argument"] = NF;
    Rn.counters["functions_two_argument"] = NF2;
    Rn.states = NA + NB + NM + LT.size() + PV.size();
    Rn.transitions = Rn.evaluations;
    Rn.bound_completed = std::to_string(NF) + " one-argument constructors x " + std::to_string(NA) + " arguments; " + std::to_string(NF2)
                         + " two-argument constructors x " + std::to_string(NB) + "^2 pairs; max/min over all tuples of length <= 3 from "
                         + std::to_string(NM) + " elements; levi_civita over {0.." + std::to_string(LD - 1) + "}^<=" + std::to_string(LL)
                         + "; primepi/primorial on [-2," + std::to_string(PN) + "]";
    Rn.rule = "E5 argument tables: every constructor is called on every member of a finite alphabet read off functions.cpp (k*pi/12, k*pi/d, "
              "r+k*pi/d shifts, sign forms, integers, rationals, Gaussian rationals, constants, the library's sin/tan inverse-table keys and "
              "their reciprocals, independently built surds, doubles, nested inverse functions). A result literally equal to F(arg) is the "
              "identity; every other result (distinct_nontrivial) is compared with the definition of F applied to the 113-bit value of the "
              "argument at 5 fixed points (1 for closed arguments), tolerance 1e-25 (1e-9 with double leaves), exact on-cut arguments "
              "evaluated on both sides; max/min/levi_civita/primepi/primorial against exact models";
    Rn.assumptions = {"libquadmath elementary functions, MPFR gamma/zeta/digamma/erf/beta/gamma_inc",
                      "reciprocal inverse functions are defined as acot z = atan(1/z), asec z = acos(1/z), ... (the convention of the library's own "
                      "numeric evaluators and of mpmath)",
                      "floor/ceiling/truncate act componentwise on complex values",
                      "Hurwitz zeta by Euler-Maclaurin / Bernoulli polynomials written in the driver",
                      "complex arguments of real-only special functions, poles, and points near cuts are skipped and counted",
                      "levi_civita is judged only for repeated indices or permutations of 0..n-1 / 1..n"};
    return Rn.finish();
}
