// C41  Thread-safe build: shared expressions are race-free -- E3 scheduler exploration (config `sched`)
//      + free-running ThreadSanitizer pass of the same harness bodies (config `tsan`).  DESIGN 3.3, 5 C41.
#include "common.h"
#include "key.h"
#include "vsched.h"
#include <thread>
using namespace verif;

// ------------------------------------------------------------------ harness bodies
struct SharedObjs {
    RCP<const Basic> x, y, e, f, e2;
    std::vector<RCP<const Basic>> nodes; // every node reachable from e, f, e2 (refcount baseline)
    std::vector<unsigned> base;
};
static SharedObjs *SO = nullptr;
static std::string results[4];

static void collect(const RCP<const Basic> &b, std::vector<RCP<const Basic>> &out, std::set<const Basic *> &seen)
{
    if (!seen.insert(b.get()).second)
        return;
    out.push_back(b);
    for (auto &a : b->get_args())
        collect(a, out, seen);
}

static void build_shared()
{
    SO = new SharedObjs();
    SO->x = symbol("x");
    SO->y = symbol("y");
    SO->e = add(mul(integer(2), SO->x), pow(add(SO->x, SO->y), integer(3)));
    SO->f = sin(mul(SO->x, SO->y));
    SO->e2 = add(pow(add(SO->y, SO->x), integer(3)), mul(SO->x, integer(2))); // equal to e, distinct object
    std::set<const Basic *> seen;
    collect(SO->e, SO->nodes, seen);
    collect(SO->f, SO->nodes, seen);
    collect(SO->e2, SO->nodes, seen);
    for (auto &n : SO->nodes)
        SO->base.push_back(n->use_count());
}
static void drop_shared()
{
    delete SO;
    SO = nullptr;
}

enum OpId { OP_HASH, OP_EQ, OP_STR, OP_DIFF, OP_ADD, OP_MUL, OP_EXPAND, OP_SUBS, OP_COPYDROP, OP_CMP, OP_DIFFF, OP_HASH2, NOPS };
static const char *OPNAME[] = {"hash(e)", "eq(e,e2)", "str(e)", "diff(e,x)", "add(e,f)", "mul(e,f)", "expand(e)", "subs(e,x->y+1)",
                               "copy-and-drop(e)", "cmp(e,f)", "diff(f,x)", "hash(e2)"};

static std::string do_op(int op)
{
    try {
        switch (op) {
            case OP_HASH:
                return "h" + std::to_string(SO->e->hash());
            case OP_HASH2:
                return "h" + std::to_string(SO->e2->hash());
            case OP_EQ:
                return eq(*SO->e, *SO->e2) ? "eq" : "neq";
            case OP_STR:
                return SO->e->__str__();
            case OP_DIFF:
                return key(*SO->e->diff(rcp_static_cast<const Symbol>(SO->x)));
            case OP_DIFFF:
                return key(*SO->f->diff(rcp_static_cast<const Symbol>(SO->x)));
            case OP_ADD:
                return key(*add(SO->e, SO->f));
            case OP_MUL:
                return key(*mul(SO->e, SO->f));
            case OP_EXPAND:
                return key(*expand(SO->e));
            case OP_SUBS: {
                map_basic_basic m;
                m[SO->x] = add(SO->y, one);
                return key(*SO->e->subs(m));
            }
            case OP_COPYDROP: {
                RCP<const Basic> c = SO->e;
                RCP<const Basic> d = c;
                RCP<const Basic> g = SO->f;
                return d->get_type_code() == SYMENGINE_ADD && g->get_type_code() == SYMENGINE_SIN ? "ok" : "bad";
            }
            case OP_CMP:
                return "c" + std::to_string(SO->e->__cmp__(*SO->f));
        }
    } catch (std::exception &x) {
        return std::string("exception:") + x.what();
    }
    return "?";
}

struct Scenario {
    std::string name;
    std::vector<int> ops; // one op per thread
};
static std::vector<Scenario> scenarios(bool thorough)
{
    std::vector<Scenario> s = {
        {"hash||hash(cold)", {OP_HASH, OP_HASH}},
        {"hash||eq", {OP_HASH, OP_EQ}},
        {"copydrop||copydrop", {OP_COPYDROP, OP_COPYDROP}},
        {"cmp||hash2", {OP_CMP, OP_HASH2}},
        {"str||diff", {OP_STR, OP_DIFF}},
        {"add||mul", {OP_ADD, OP_MUL}},
        {"diff||diff_f", {OP_DIFF, OP_DIFFF}},
    };
    if (thorough) {
        s.push_back({"str||expand", {OP_STR, OP_EXPAND}});
        s.push_back({"expand||subs", {OP_EXPAND, OP_SUBS}});
        s.push_back({"cmp||expand", {OP_CMP, OP_EXPAND}});
        s.push_back({"subs||diff", {OP_SUBS, OP_DIFF}});
        s.push_back({"3:copydrop||copydrop||hash", {OP_COPYDROP, OP_COPYDROP, OP_HASH}});
        s.push_back({"3:hash||eq||copydrop", {OP_HASH, OP_EQ, OP_COPYDROP}});
        s.push_back({"3:add||mul||copydrop", {OP_ADD, OP_MUL, OP_COPYDROP}});
    }
    return s;
}

static std::string seqref[NOPS];
static void compute_refs()
{
    // sequential reference results; also warms every function-local static and global hash cache
    for (int rep = 0; rep < 2; rep++) {
        build_shared();
        for (int op = 0; op < NOPS; op++)
            seqref[op] = do_op(op);
        drop_shared();
    }
}

#ifdef VERIF_VATOMIC
// ------------------------------------------------------------------ scheduler mode
static vsched::Harness make_harness(const Scenario &sc)
{
    vsched::Harness h;
    h.name = sc.name;
    h.nthreads = sc.ops.size();
    h.setup = [] {
        build_shared();
        for (auto &r : results)
            r.clear();
    };
    h.body = [sc](int tid) { results[tid] = do_op(sc.ops[tid]); };
    h.check = [sc]() -> std::string {
        std::string w;
        for (size_t t = 0; t < sc.ops.size(); t++)
            if (results[t] != seqref[sc.ops[t]])
                w += "thread " + std::to_string(t) + " " + OPNAME[sc.ops[t]] + " returned " + results[t].substr(0, 200)
                     + " but the sequential result is " + seqref[sc.ops[t]].substr(0, 200) + "; ";
        for (size_t i = 0; i < SO->nodes.size(); i++) {
            unsigned c = SO->nodes[i]->use_count();
            if (c != SO->base[i]) {
                w += "refcount of shared node " + type_code_name(SO->nodes[i]->get_type_code()) + " is " + std::to_string(c)
                     + " after all threads finished, baseline " + std::to_string(SO->base[i]) + "; ";
                break;
            }
        }
        return w;
    };
    h.teardown = [] { drop_shared(); };
    return h;
}

static std::string sched_str(const std::vector<int> &s)
{
    std::string o;
    for (size_t i = 0; i < s.size(); i++)
        o += (i ? "," : "") + std::to_string(s[i]);
    return o;
}
static std::vector<int> parse_sched(const std::string &d)
{
    std::vector<int> v;
    size_t p = d.find("schedule=");
    if (p == std::string::npos)
        return v;
    p += 9;
    while (p < d.size() && (isdigit(d[p]) || d[p] == ',')) {
        if (isdigit(d[p]))
            v.push_back(d[p] - '0');
        p++;
    }
    return v;
}

enum { K_EXEC, K_POINTS, K_STATES, K_PRUNED, K_BEYOND, K_LATE, K_HANDOFF, K_PRIVATE, K_MAXPTS, K_INCOMPLETE, K_FINALS, K_FULL };

int main(int argc, char **argv)
{
    init(argc, argv, "C41");
    bool thorough = opts().thorough();
    std::vector<Scenario> S = scenarios(thorough);
    compute_refs();
    Run &R = run();

    std::string replay_desc;
    if (!opts().replay.empty()) {
        std::ifstream f(opts().replay);
        std::stringstream ss;
        ss << f.rdbuf();
        replay_desc = jget(ss.str(), "description");
    }

    CaseSet cs;
    cs.name = "explore";
    cs.n = S.size();
    cs.jobs = std::min<int>(opts().jobs, S.size());
    cs.hang_s = opts().deadline_s + 120;
    cs.counter_names = {"executions(schedules)", "scheduling_points", "distinct_states", "pruned_state_revisits",
                        "alternatives_beyond_preemption_bound", "late_shared_atomics(harness note)", "thread_handoffs",
                        "thread_private_atomic_ops(not scheduling points)", "max_points_in_one_execution", "scenarios_cut_by_deadline",
                        "distinct_final_states", "scenarios_with_ALL_interleavings_explored"};
    cs.desc = [&](long long i) { return "scenario=" + S[i].name; };
    cs.crash_sig = [&](long long i, const std::string &oc) { return "crash-under-scheduler:" + S[i].name + ":" + oc; };
    double deadline = vsched::now_s() + opts().deadline_s * 0.8;
    cs.body = [&](long long i, Ctx &c) {
        vsched::Harness h = make_harness(S[i]);
        int bound = -1;
        if (replaying()) {
            std::vector<int> sch = parse_sched(replay_desc);
            std::string what;
            bool det = false;
            bool bad = vsched::replay(h, sch, what, det);
            printf("replayed schedule %s twice: deterministic=%d violation=%d %s\n", sched_str(sch).c_str(), det, bad, what.c_str());
            if (bad)
                c.violation("sched:" + S[i].name, what);
            return;
        }
        // sanity: the sequential schedule must satisfy the oracle (else the harness is wrong)
        std::string w0 = vsched::run_sequential(h);
        if (!w0.empty()) {
            c.violation("harness-error:" + S[i].name, "sequential run violates the oracle: " + w0);
            return;
        }
        // iterative context bounding: preemption bounds 0,1,2,... each run to completion; then, for harnesses short
        // enough, ALL interleavings (state-memoised).  The evidence reports the highest bound completed per scenario.
        std::vector<vsched::Found> found;
        vsched::Stats st;
        bool three = S[i].ops.size() > 2;
        int maxb = thorough ? (three ? 2 : 3) : (three ? 1 : 2);
        int completed = -1;
        bool full = false;
        uint64_t seq_points = 0;
        for (int b = 0; b <= maxb + 1 && found.empty(); b++) {
            bool unbounded = b == maxb + 1;
            if (unbounded && (three || seq_points > (thorough ? 64u : 40u)))
                break; // long harness: stay with the completed preemption bound
            std::vector<vsched::Found> f2;
            vsched::Stats s2 = vsched::explore(h, unbounded ? -1 : b, deadline, f2, 3);
            if (b == 0) {
                seq_points = s2.max_points;
                if (seq_points > 100 && !three)
                    maxb = thorough ? 2 : 1; // long harness: one preemption bound less
            }
            st.executions += s2.executions;
            st.points += s2.points;
            st.states += s2.states;
            st.pruned_revisits += s2.pruned_revisits;
            st.alternatives_beyond_bound = s2.alternatives_beyond_bound;
            st.late_shared += s2.late_shared;
            st.handoffs += s2.handoffs;
            st.private_ops += s2.private_ops;
            st.max_points = std::max(st.max_points, s2.max_points);
            st.distinct_final_states = std::max(st.distinct_final_states, s2.distinct_final_states);
            st.diverged |= s2.diverged;
            found = f2;
            if (!s2.complete) {
                st.complete = false;
                break;
            }
            if (unbounded)
                full = true;
            else
                completed = b;
        }
        bound = full ? -1 : completed;
        c.eval(st.executions);
        c.nontrivial(st.states);
        c.count(K_EXEC, st.executions);
        c.count(K_POINTS, st.points);
        c.count(K_STATES, st.states);
        c.count(K_PRUNED, st.pruned_revisits);
        c.count(K_BEYOND, st.alternatives_beyond_bound);
        c.count(K_LATE, st.late_shared);
        c.count(K_HANDOFF, st.handoffs);
        c.count(K_PRIVATE, st.private_ops);
        c.count(K_FINALS, st.distinct_final_states);
        if (st.max_points > c.sh->cnt[K_MAXPTS])
            c.sh->cnt[K_MAXPTS] = st.max_points;
        if (!st.complete && found.empty())
            c.count(K_INCOMPLETE);
        if (full)
            c.count(K_FULL);
        if (st.diverged) {
            fprintf(stderr, "C41: replay divergence in %s (machinery error)\n", S[i].name.c_str());
            _exit(2);
        }
        for (auto &f : found) {
            std::string what;
            bool det = false;
            bool again = vsched::replay(h, f.schedule, what, det);
            c.violation("sched:" + S[i].name, "scenario=" + S[i].name + " bound=" + std::to_string(bound) + " schedule=" + sched_str(f.schedule)
                                                  + " :: " + f.what + (again && det ? " [replayed twice: identical]" : " [REPLAY MISMATCH]"));
        }
        c.outcome(S[i].name + ":" + (found.empty() ? "ok" : "violation"));
        c.sample("{\"scenario\":" + jstr(S[i].name) + ",\"threads\":" + std::to_string(S[i].ops.size()) + ",\"preemption_bound\":"
                 + (full ? std::string("\"unbounded: all interleavings (state-memoised), after bounds 0.." + std::to_string(maxb) + "\"") : std::to_string(bound))
                 + ",\"executions\":" + std::to_string(st.executions) + ",\"scheduling_points_max\":" + std::to_string(st.max_points)
                 + ",\"distinct_states\":" + std::to_string(st.states) + ",\"distinct_final_states\":" + std::to_string(st.distinct_final_states)
                 + ",\"complete\":" + (st.complete ? "true" : "false") + "}");
    };
    run_cases(cs);
    uint64_t nsamples_goal = S.size();
    (void)nsamples_goal;

    // ---- free-running pass under ThreadSanitizer (second executable, real std::atomic)
    std::string exes = getenv("VERIF_EXES") ? getenv("VERIF_EXES") : "";
    std::string tsan_exe = exes.find(':') == std::string::npos ? "" : exes.substr(exes.find(':') + 1);
    if (!tsan_exe.empty() && !replaying()) {
        const int staggers = thorough ? 8 : 3;
        CaseSet ts;
        ts.name = "tsan-free-running";
        ts.n = S.size() * staggers;
        ts.hang_s = 120;
        ts.counter_names = {"tsan_runs"};
        ts.desc = [&](long long i) { return "scenario=" + S[i / staggers].name + " stagger=" + std::to_string(i % staggers); };
        ts.body = [&](long long i, Ctx &c) {
            std::string cmd = tsan_exe + " --free " + std::to_string(i / staggers) + " " + std::to_string(i % staggers) + " "
                              + (thorough ? "thorough" : "quick") + " 2>&1";
            FILE *p = popen(cmd.c_str(), "r");
            std::string out;
            char buf[4096];
            size_t n;
            while ((n = fread(buf, 1, sizeof buf, p)) > 0)
                if (out.size() < 20000)
                    out.append(buf, n);
            int st = pclose(p);
            c.eval();
            c.count(0);
            bool race = out.find("ThreadSanitizer") != std::string::npos || (WIFEXITED(st) && WEXITSTATUS(st) == 66);
            bool wrong = WIFEXITED(st) && WEXITSTATUS(st) == 1;
            if (race) {
                size_t q = out.find("WARNING: ThreadSanitizer");
                c.violation("tsan:" + S[i / staggers].name, "ThreadSanitizer report in free-running " + ts.desc(i) + ": "
                                                                + out.substr(q == std::string::npos ? 0 : q, 1500));
            } else if (wrong)
                c.violation("free-run-wrong-result:" + S[i / staggers].name, "free-running " + ts.desc(i) + ": " + out.substr(0, 800));
            else if (!(WIFEXITED(st) && WEXITSTATUS(st) == 0))
                c.violation("free-run-crash:" + S[i / staggers].name, "free-running " + ts.desc(i) + " exit status " + std::to_string(st) + ": " + out.substr(0, 800));
            c.outcome(race ? "race" : wrong ? "wrong" : "clean");
        };
        run_cases(ts);
    } else if (!replaying())
        R.counters["tsan_pass_skipped(no second executable)"] = 1;

    R.states = R.counters["distinct_states"];
    R.transitions = R.counters["scheduling_points"];
    if (R.counters["scenarios_cut_by_deadline"])
        R.exhaustive = false;
    R.bound_completed = std::to_string(S.size()) + " closed harnesses, iterative preemption bounding 0..k run to completion per harness (k=2 quick / 3 "
                        "thorough for 2 threads, 1 / 2 for 3 threads); harnesses with <= 40 (quick) / 64 (thorough) scheduling points additionally: ALL "
                        "interleavings (" + std::to_string(R.counters["scenarios_with_ALL_interleavings_explored"]) + " harnesses); per-harness bounds in samples";
    R.rule = "scheduling point = every std::atomic operation of the real thread-safe library on an object visible to more than one thread "
             "(every atomic is hooked through a forced-include rename; atomics born by the running worker during the execution are private and "
             "commute). evaluations = complete executions (schedules) run on the real code; distinct_nontrivial = distinct (thread-local "
             "progress, values-read, shared atomic values) states at which a scheduling decision was branched";
    R.assumptions = {"sequentially consistent interleavings only (no weak-memory reorderings)",
                     "function-local statics are warmed up before exploration; their cold initialisation is exercised only in the TSan pass",
                     "non-atomic shared data is immutable (checked separately by the free-running ThreadSanitizer pass of the same bodies)"};
    return R.finish();
}

#else
// ------------------------------------------------------------------ free-running mode (tsan build: real atomics)
int main(int argc, char **argv)
{
    if (argc < 5 || std::string(argv[1]) != "--free") {
        fprintf(stderr, "usage: C41(tsan) --free <scenario> <stagger> <tier>\n");
        return 2;
    }
    int si = atoi(argv[2]), stagger = atoi(argv[3]);
    std::vector<Scenario> S = scenarios(std::string(argv[4]) == "thorough");
    if (si < 0 || si >= (int)S.size())
        return 2;
    const Scenario &sc = S[si];
    bool cold = stagger == 0; // stagger 0: no warm-up at all (cold function-local statics and hash caches)
    if (!cold)
        compute_refs();
    int rc = 0;
    for (int rep = 0; rep < 20; rep++) {
        build_shared();
        std::vector<std::thread> th;
        std::atomic<int> go{0};
        for (size_t t = 0; t < sc.ops.size(); t++)
            th.emplace_back([&, t] {
                while (!go.load())
                    ;
                // deterministic stagger: thread t spins (stagger * t * rep) iterations before starting
                volatile unsigned long spin = (unsigned long)stagger * t * rep * 40;
                while (spin)
                    spin = spin - 1;
                results[t] = do_op(sc.ops[t]);
            });
        go.store(1);
        for (auto &t : th)
            t.join();
        if (cold && rep == 0) {
            for (int op = 0; op < NOPS; op++)
                seqref[op] = "";
        }
        std::vector<std::string> got(results, results + sc.ops.size());
        for (size_t i = 0; i < SO->nodes.size(); i++)
            if (SO->nodes[i]->use_count() != SO->base[i]) {
                printf("refcount of shared node differs from baseline after join\n");
                rc = 1;
            }
        drop_shared();
        if (cold && rep == 0)
            compute_refs();
        for (size_t t = 0; t < sc.ops.size(); t++)
            if (got[t] != seqref[sc.ops[t]]) {
                printf("thread %zu %s returned %s, sequential %s\n", t, OPNAME[sc.ops[t]], got[t].substr(0, 200).c_str(),
                       seqref[sc.ops[t]].substr(0, 200).c_str());
                rc = 1;
            }
    }
    return rc;
}
#endif
