// C34  Property queries under assumptions are sound -- E1 x assumption menu x witnesses (DESIGN 5 C34)
//
// States: every distinct expression whose shortest recipe over the leaf alphabet
// {x, y, 0, 1, -1, 2, 1/2, I, pi} with operations {add, mul, pow, abs, sign, conjugate, floor, exp, log,
// sin, sqrt} has <= n operations.  For every state, every pair of per-symbol assumptions from the
// 13-entry menu and every query is_* is executed on the real library.  A definite answer is compared
// at EVERY witness assignment satisfying the assumptions with three independent evaluators of the
// state's own tree (exact Gaussian rationals, certainly-real quad arithmetic, RefEval 113-bit complex).
#include "checks/C34_assume.h"
using namespace verif;
using namespace a12;

enum Pred { P_ZERO, P_NONZERO, P_POSITIVE, P_NEGATIVE, P_NONNEG, P_NONPOS, P_REAL, P_INTEGER, P_COMPLEX, P_FINITE, P_INFINITE,
            P_EVEN, P_ODD, P_ALGEBRAIC, P_TRANSCENDENTAL, NPRED_A, P_RATIONAL = NPRED_A, P_IRRATIONAL, NPRED };
static const char *PN[] = {"is_zero", "is_nonzero", "is_positive", "is_negative", "is_nonnegative", "is_nonpositive",
                           "is_real", "is_integer", "is_complex", "is_finite", "is_infinite", "is_even", "is_odd",
                           "is_algebraic", "is_transcendental", "is_rational", "is_irrational"};

static tribool query(int p, const Basic &e, const Assumptions *A)
{
    switch (p) {
        case P_ZERO:
            return is_zero(e, A);
        case P_NONZERO:
            return is_nonzero(e, A);
        case P_POSITIVE:
            return is_positive(e, A);
        case P_NEGATIVE:
            return is_negative(e, A);
        case P_NONNEG:
            return is_nonnegative(e, A);
        case P_NONPOS:
            return is_nonpositive(e, A);
        case P_REAL:
            return is_real(e, A);
        case P_INTEGER:
            return is_integer(e, A);
        case P_COMPLEX:
            return is_complex(e, A);
        case P_FINITE:
            return is_finite(e, A);
        case P_INFINITE:
            return is_infinite(e, A);
        case P_EVEN:
            return is_even(e, A);
        case P_ODD:
            return is_odd(e, A);
        case P_ALGEBRAIC:
            return is_algebraic(e, A);
        case P_TRANSCENDENTAL:
            return is_transcendental(e, A);
        case P_RATIONAL:
            return is_rational(e);
        default:
            return is_irrational(e);
    }
}
// what the value at a witness says about the property
static int verdict(int p, const PV &v)
{
    if (v.inconsistent)
        return V_UNK;
    switch (p) {
        case P_ZERO:
            return v_zero(v);
        case P_NONZERO:
            return v_not(v_zero(v));
        case P_POSITIVE:
            return v_sign(v, +1);
        case P_NEGATIVE:
            return v_sign(v, -1);
        case P_NONNEG:
            return v_wsign(v, +1);
        case P_NONPOS:
            return v_wsign(v, -1);
        case P_REAL:
            return v_real(v);
        case P_INTEGER:
            return v_integer(v);
        case P_COMPLEX:
        case P_FINITE:
            return v_finite(v);
        case P_INFINITE:
            return v_not(v_finite(v));
        case P_EVEN:
            return v_parity(v, 0);
        case P_ODD:
            return v_parity(v, 1);
        case P_ALGEBRAIC:
            return v_algebraic(v);
        case P_TRANSCENDENTAL:
            return v_not(v_algebraic(v));
        case P_RATIONAL:
            return v_rational(v);
        default:
            return v_irrational(v);
    }
}
static std::string value_str(const PV &v)
{
    std::string o;
    if (v.ex.k == 1)
        o += "exact " + gq_str(v.ex.g);
    else if (v.ex.k == 2)
        o += "exact pole (infinite)";
    if (v.num.ok)
        o += std::string(o.empty() ? "" : ", ") + "numeric " + cstr(v.num.v, 25);
    if (v.rv.ok)
        o += ", certainly real";
    return o.empty() ? "(no value)" : o;
}

enum { K_QUERIES, K_INDET, K_DEFINITE, K_REFUSED, K_W_CONFIRMED, K_W_UNDECIDED, K_W_INCONSISTENT, K_DEF_JUDGED, K_DEF_UNJUDGED,
       K_W_BY_EXACT, K_POLY_TRUE, K_POLY_FALSE, K_POLY_NUM_OK, K_POLY_NUM_SKIP, K_POLY_REF_DISAGREE, K_STATES_CLOSED,
       K_STATES_1SYM, K_STATES_2SYM, K_W_ILLCOND, K_PER_PRED /* + NPRED entries */ };

static StateSet SS;
static AssumeTable AT;

// --- reference model for is_polynomial: structural definition + finite-difference test of the values
static bool has_vars(const Basic &e, bool vx, bool vy)
{
    bool hx = false, hy = false, other = false;
    sym_scan(e, hx, hy, other);
    return (vx && hx) || (vy && hy);
}
// degree bound, or -1 when e is not built as a polynomial in the variables
static int ref_poly(const Basic &e, bool vx, bool vy)
{
    if (!has_vars(e, vx, vy))
        return 0;
    if (is_a<Symbol>(e))
        return 1;
    if (is_a<Add>(e)) {
        int d = 0;
        for (auto &a : e.get_args()) {
            int k = ref_poly(*a, vx, vy);
            if (k < 0)
                return -1;
            d = std::max(d, k);
        }
        return d;
    }
    if (is_a<Mul>(e)) {
        int d = 0;
        for (auto &a : e.get_args()) {
            int k = ref_poly(*a, vx, vy);
            if (k < 0)
                return -1;
            d += k;
        }
        return d;
    }
    if (is_a<Pow>(e)) {
        const Pow &p = down_cast<const Pow &>(e);
        long n;
        if (!small_int(*p.get_exp(), n) || n <= 0)
            return -1;
        int k = ref_poly(*p.get_base(), vx, vy);
        return k < 0 ? -1 : k * (int)n;
    }
    return -1;
}
// order-ORD forward difference of e along symbol s (other symbol fixed): 1 vanishes, 0 clearly not, -1 undecided
static const int ORD = 10;
static int numeric_poly(const Basic &e, const std::string &s)
{
    Env env;
    env.sym["x"] = mkc(0.6Q, 0.3Q);
    env.sym["y"] = mkc(-0.4Q, 0.7Q);
    cq t0 = mkc(-4.3Q, 0.4Q);
    cq acc = 0;
    rq big = 0, binom = 1;
    for (int k = 0; k <= ORD; k++) {
        env.sym[s] = t0 + mkc(k, 0);
        Value v = refeval(e, env);
        if (!v.ok)
            return -1;
        big = fmaxq(big, fmaxq(absq(v.v), v.scale) * binom);
        acc += v.v * mkc(((ORD - k) % 2 ? -1 : 1) * binom, 0);
        binom = binom * (ORD - k) / (k + 1);
    }
    if (absq(acc) <= 1e-24Q * fmaxq(big, 1))
        return 1;
    if (absq(acc) >= 1e-14Q * fmaxq(big, 1))
        return 0;
    return -1;
}

static void check_polynomial(const State &st, bool hx, bool hy, Ctx &c)
{
    for (int variant = 0; variant < (hx && hy ? 3 : 1); variant++) {
        // variant 0: all free symbols are variables; 1: only x; 2: only y
        bool vx = variant != 2, vy = variant != 1;
        set_basic vars;
        if (variant == 1)
            vars.insert(AT.x);
        if (variant == 2)
            vars.insert(AT.y);
        bool ans;
        c.eval();
        try {
            ans = is_polynomial(*st.e, vars);
        } catch (SymEngineException &x) {
            c.count(K_REFUSED);
            continue;
        }
        c.count(ans ? K_POLY_TRUE : K_POLY_FALSE);
        c.outcome(std::string("is_polynomial=") + (ans ? "true" : "false") + ":" + tname(*st.e));
        int ref = ref_poly(*st.e, vx, vy);
        bool need_numeric = ans || (ref >= 0) != ans;
        int nv = 1;
        if (need_numeric) {
            if (ref > ORD - 1 && ans) {
                c.count(K_POLY_NUM_SKIP); // degree above what the difference order can show
                nv = -1;
            } else {
                if (vx && hx)
                    nv = std::min(nv, numeric_poly(*st.e, "x"));
                if (nv != 0 && vy && hy) {
                    int k = numeric_poly(*st.e, "y");
                    nv = k == 0 ? 0 : std::min(nv, k);
                }
                c.count(nv < 0 ? K_POLY_NUM_SKIP : K_POLY_NUM_OK);
            }
        }
        std::string vs = variant == 0 ? "{all symbols}" : variant == 1 ? "{x}" : "{y}";
        if (ans && nv == 0) {
            c.violation("is_polynomial=true:" + cls(*st.e, 1),
                        "is_polynomial(" + sstr(st.e) + ", " + vs + ") [" + st.recipe + "] = true, but the order-" + std::to_string(ORD)
                            + " forward difference of its values along a variable does not vanish (reference structural model says "
                            + (ref >= 0 ? "polynomial" : "not a polynomial") + ")");
        } else if (!ans && ref >= 0 && nv == 1) {
            c.violation("is_polynomial=false:" + cls(*st.e, 1),
                        "is_polynomial(" + sstr(st.e) + ", " + vs + ") [" + st.recipe
                            + "] = false, but the expression is a sum of products of non-negative integer powers of the variables with "
                              "variable-free coefficients (degree <= "
                            + std::to_string(ref) + ") and its finite differences vanish");
        } else if (ans != (ref >= 0))
            c.count(K_POLY_REF_DISAGREE);
        else
            c.nontrivial();
    }
}

struct PVCache {
    const Basic *e;
    std::map<std::pair<int, int>, PV> m;
    const PV &get(const Bind &b)
    {
        auto k = std::make_pair(b.wx, b.wy);
        auto it = m.find(k);
        if (it != m.end())
            return it->second;
        return m[k] = pv_eval(*e, b);
    }
};

// smallest subterm (fewest nodes, then pre-order) that gives a wrong answer to the same query under the same
// assumptions at the same witness: one defective rule then yields one signature however deep it is buried
static int node_count(const Basic &e)
{
    int n = 1;
    for (auto &a : e.get_args())
        n += node_count(*a);
    return n;
}
static void blame_scan(const RCP<const Basic> &e, int p, const Assumptions *A, const Bind &b, RCP<const Basic> &best, int &best_n)
{
    for (auto &a : e->get_args()) {
        blame_scan(a, p, A, b, best, best_n);
        tribool t;
        try {
            t = query(p, *a, A);
        } catch (std::exception &) {
            continue;
        }
        if (is_indeterminate(t))
            continue;
        PV v = pv_eval(*a, b);
        int vd = verdict(p, v);
        if (vd != V_UNK && vd != (is_true(t) ? 1 : 0)) {
            int n = node_count(*a);
            if (n < best_n) {
                best = a;
                best_n = n;
            }
        }
    }
}
static RCP<const Basic> blame(const RCP<const Basic> &e, int p, const Assumptions *A, const Bind &b)
{
    RCP<const Basic> best = e;
    int best_n = node_count(*e);
    blame_scan(e, p, A, b, best, best_n);
    return best;
}

static void check_state(long long si, Ctx &c)
{
    const State &st = SS.S[si];
    bool hx = false, hy = false, other = false;
    sym_scan(*st.e, hx, hy, other);
    c.count(hx && hy ? K_STATES_2SYM : (hx || hy) ? K_STATES_1SYM : K_STATES_CLOSED);
    PVCache cache;
    cache.e = st.e.get();
    std::vector<int> none = {-1};
    int nax = hx ? NASSUME : 1, nay = hy ? NASSUME : 1;
    for (int ax = 0; ax < nax; ax++)
        for (int ay = 0; ay < nay; ay++) {
            const Assumptions *A = AT.get(ax, ay);
            const std::vector<int> &wx = hx ? menu()[ax].w : none;
            const std::vector<int> &wy = hy ? menu()[ay].w : none;
            int np = (ax == 0 && ay == 0) ? NPRED : NPRED_A; // is_rational/is_irrational take no assumptions
            for (int p = 0; p < np; p++) {
                tribool t;
                c.eval();
                c.count(K_QUERIES);
                try {
                    t = query(p, *st.e, A);
                } catch (SymEngineException &x) {
                    c.count(K_REFUSED);
                    c.outcome(std::string(PN[p]) + " throws");
                    continue;
                } catch (std::exception &x) {
                    c.violation(std::string(PN[p]) + ":std::exception:" + cls(*st.e, 1),
                                std::string(PN[p]) + "(" + sstr(st.e) + ") [" + st.recipe + "] under " + assume_str(ax, ay, hx, hy)
                                    + " threw a non-library exception: " + x.what());
                    continue;
                }
                if (is_indeterminate(t)) {
                    c.count(K_INDET);
                    continue;
                }
                c.count(K_DEFINITE);
                int ans = is_true(t) ? 1 : 0;
                c.outcome(std::string(PN[p]) + "=" + tri(t) + ":" + tname(*st.e));
                bool judged = false, bad = false;
                for (size_t i = 0; i < wx.size() && !bad; i++)
                    for (size_t j = 0; j < wy.size() && !bad; j++) {
                        Bind b;
                        b.wx = wx[i];
                        b.wy = wy[j];
                        const PV &v = cache.get(b);
                        if (v.inconsistent) {
                            c.count(K_W_INCONSISTENT);
                            continue;
                        }
                        int vd = verdict(p, v);
                        if (vd == V_UNK) {
                            c.count(v.illcond ? K_W_ILLCOND : K_W_UNDECIDED);
                            continue;
                        }
                        judged = true;
                        if (vd == ans) {
                            c.count(K_W_CONFIRMED);
                            if (v.ex.k)
                                c.count(K_W_BY_EXACT);
                            continue;
                        }
                        bad = true;
                        RCP<const Basic> bl = blame(st.e, p, A, b);
                        PV bv = pv_eval(*bl, b);
                        // class: query, answer, kind of the smallest wrongly answered subterm; poles and exact zeros are
                        // marked because they are the boundary cases the combination rules tend to forget
                        std::string sig = std::string(PN[p]) + "=" + tri(t) + ":"
                                          + (bv.ex.k == 2 ? tname(*bl) + "@pole"
                                                          : cls(*bl, 1) + (bv.ex.k == 1 && bv.ex.g.is_zero() ? "@zero" : ""));
                        std::string d = std::string(PN[p]) + "(" + sstr(st.e) + ") = " + tri(t) + " under " + assume_str(ax, ay, hx, hy)
                                        + " [recipe " + st.recipe + "], but at the satisfying assignment " + bind_str(b, hx, hy)
                                        + " the value is " + value_str(v) + ", for which the property is " + (vd ? "true" : "false");
                        if (bl.get() != st.e.get())
                            d += "; smallest subterm answering wrongly: " + sstr(bl) + " (value " + value_str(bv) + ")";
                        c.violation(sig, d);
                    }
                if (judged) {
                    c.count(K_DEF_JUDGED);
                    c.count(K_PER_PRED + p);
                    c.nontrivial();
                } else
                    c.count(K_DEF_UNJUDGED);
            }
        }
    check_polynomial(st, hx, hy, c);
    if (si % 211 == 0)
        c.sample("{\"state\":" + jstr(sstr(st.e)) + ",\"recipe\":" + jstr(st.recipe) + ",\"symbols\":" + std::to_string((int)hx + (int)hy)
                 + ",\"witness_points_evaluated\":" + std::to_string(cache.m.size()) + "}");
}

int main(int argc, char **argv)
{
    init(argc, argv, "C34");
    bool thorough = opts().thorough();
    menu();
    AT.build();
    RCP<const Basic> x = AT.x, y = AT.y;
    std::vector<std::pair<std::string, RCP<const Basic>>> leaves
        = {{"x", x},        {"y", y}, {"0", integer(0)}, {"1", integer(1)}, {"-1", integer(-1)}, {"2", integer(2)},
           {"1/2", Rational::from_two_ints(1, 2)}, {"I", I}, {"pi", pi},
           // structured leaves: terms with a NEGATIVE coefficient and two-symbol sums/products, so that sums like -x - y (whose
           // sign rules combine the coefficient sign with a non-strict key assumption) are reached within the quick depth
           // (added after seeded change C34 -- NonPositiveVisitor in PositiveVisitor(Add) -- needed 3 operations from atoms)
           {"-x", neg(x)}, {"-y", neg(y)}, {"x+y", add(x, y)}, {"x*y", mul(x, y)}, {"-2*x", mul(integer(-2), x)}};
    OpTable T;
    T.bin_names = {"add", "mul", "pow"};
    T.un_names = {"abs", "sign", "conjugate", "floor", "exp", "log", "sin", "sqrt"};
    T.bin = [](int op, const RCP<const Basic> &a, const RCP<const Basic> &b) -> RCP<const Basic> {
        return op == 0 ? add(a, b) : op == 1 ? mul(a, b) : pow(a, b);
    };
    T.un = [](int op, const RCP<const Basic> &a) -> RCP<const Basic> {
        switch (op) {
            case 0:
                return abs(a);
            case 1:
                return sign(a);
            case 2:
                return conjugate(a);
            case 3:
                return floor(a);
            case 4:
                return exp(a);
            case 5:
                return log(a);
            case 6:
                return sin(a);
            default:
                return sqrt(a);
        }
    };
    for (auto &l : leaves)
        SS.add(l.second, l.first, 0);
    int n0 = SS.size();
    std::vector<Trans> tr;
    gen_trans(T, 0, n0, 0, n0, true, tr);
    build_layer(T, SS, tr, "depth1", 1);
    int n1 = SS.size();
    tr.clear();
    gen_trans(T, n0, n1, 0, n0, true, tr);
    gen_trans(T, 0, n0, n0, n1, false, tr);
    build_layer(T, SS, tr, "depth2", 2);
    int n2 = SS.size();

    std::vector<std::string> cn = {"queries",
                                   "answers_indeterminate",
                                   "answers_definite",
                                   "queries_refused(library exception)",
                                   "witness_points_confirming_definite_answer",
                                   "witness_points_skipped(value class undecidable)",
                                   "witness_points_skipped(evaluators disagree)",
                                   "definite_answers_judged(>=1 witness decided)",
                                   "definite_answers_unjudged(no witness decidable)",
                                   "witness_points_decided_with_exact_value",
                                   "is_polynomial_true",
                                   "is_polynomial_false",
                                   "is_polynomial_value_checked(finite differences)",
                                   "is_polynomial_value_check_skipped",
                                   "is_polynomial_reference_model_disagrees_but_values_support_library",
                                   "states_without_symbols",
                                   "states_with_one_symbol",
                                   "states_with_two_symbols",
                                   "witness_points_skipped(numeric value ill-conditioned, no exact value)"};
    for (int p = 0; p < NPRED; p++)
        cn.push_back(std::string("judged_definite:") + PN[p]);

    Run &R = run();
    auto check_range = [&](int lo, int hi, const std::string &name) {
        CaseSet cs;
        cs.name = name;
        cs.n = hi - lo;
        cs.counter_names = cn;
        cs.hang_s = 60;
        cs.desc = [&, lo](long long i) { return "all queries x assumptions on state " + SS.S[lo + i].recipe; };
        cs.crash_sig = [&, lo](long long i, const std::string &oc) { return "query:" + oc + ":" + cls(*SS.S[lo + i].e, 1); };
        cs.body = [&, lo](long long i, Ctx &c) { check_state(lo + i, c); };
        run_cases(cs);
    };
    check_range(0, n2, "check:depth<=2");
    std::string bound = "all states with recipes of <= 2 operations: |S0|=" + std::to_string(n0) + " |S<=1|=" + std::to_string(n1)
                        + " |S<=2|=" + std::to_string(n2);
    R.counters["states_depth0"] = n0;
    R.counters["states_depth<=1"] = n1;
    R.counters["states_depth<=2"] = n2;
    int n3 = n2;
    if (thorough && !past_deadline()) {
        // depth 3: every recipe of 3 operations
        tr.clear();
        gen_trans(T, n0, n1, n0, n1, false, tr);
        gen_trans(T, n1, n2, 0, n0, true, tr);
        gen_trans(T, 0, n0, n1, n2, false, tr);
        build_layer(T, SS, tr, "depth3", 3);
        n3 = SS.size();
        R.counters["states_depth<=3"] = n3;
        check_range(n2, n3, "check:depth3");
        if (R.exhaustive)
            bound += "; all states with recipes of 3 operations: |S<=3|=" + std::to_string(n3);
    }
    R.counters["duplicate_arrivals(recipes merged by structural key)"] = SS.duplicate_arrivals;
    R.states = SS.size();
    R.transitions = R.evaluations;
    R.bound_completed = bound + "; x 13 assumptions per symbol (169 pairs) x 17 queries + is_polynomial; 6 witnesses per assumption";
    R.rule = "E1: leaves {x,y,0,1,-1,2,1/2,I,pi}; ops add,mul,pow,abs,sign,conjugate,floor,exp,log,sin,sqrt; states de-duplicated by "
             "structural key. Per state: every pair of per-symbol assumptions {none,complex,real,rational,integer,>0,>=0,<0,<=0,!=0,=0,"
             "integer&>0,real&!=0} x every query; a definite tribool must hold at every witness assignment (6 values per assumption, 36 per "
             "pair). Value class decided by exact Gaussian-rational evaluation (+,*,integer and exact-root powers, abs, sign, conjugate, "
             "floor; exact poles), else by a certainly-real quad evaluator / RefEval with margin 1e-18 of the scale; anything closer to a "
             "boundary, and integrality/rationality/algebraicity of inexact values, is skipped and counted. is_polynomial: structural "
             "reference definition + order-10 finite differences of the values. distinct_nontrivial = definite answers judged at >= 1 witness";
    R.assumptions = {"libquadmath elementary functions", "RefEval recursion (core/refeval.h)",
                     "unconstrained symbols range over the complex numbers", "positive/negative/nonnegative/nonpositive imply real",
                     "irrationality/transcendence of inexact values (pi+E, sin(1), ...) cannot be refuted numerically: skipped"};
    return R.finish();
}
